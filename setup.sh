#!/bin/sh
# Offline setup: verifies the tools the checks need and smoke-tests the
# sanitizers and the link-time interposition.  Builds nothing a check depends
# on (every check rebuilds from /repo on each invocation).
set -e
cd "$(dirname "$0")"
for t in gcc make nm ar python3; do command -v $t >/dev/null || { echo "missing tool: $t"; exit 1; }; done
T=$(mktemp -d /tmp/verif-setup.XXXXXX)
trap 'rm -rf "$T"' EXIT
cat > $T/a.c <<'EOT'
#include <stdlib.h>
#include <stdio.h>
void *__real_malloc(size_t); static int seen;
void *__wrap_malloc(size_t n) { seen++; return __real_malloc(n); }
int main(void) { volatile char *p = malloc(8); p[0] = 1; free((void *)p); printf("%d\n", seen); return seen ? 0 : 1; }
EOT
gcc -O1 -g -fsanitize=address,undefined $T/a.c -o $T/a -Wl,--wrap=malloc && $T/a >/dev/null
cat > $T/t.c <<'EOT'
#include <pthread.h>
#include <stdatomic.h>
static atomic_int x; static void *f(void *a) { atomic_fetch_add(&x, 1); return a; }
int main(void) { pthread_t t; pthread_create(&t, 0, f, 0); atomic_fetch_add(&x, 1); pthread_join(t, 0); return x == 2 ? 0 : 1; }
EOT
gcc -O1 -g -fsanitize=thread $T/t.c -o $T/t -lpthread && $T/t
mkdir -p evidence replays
echo "setup ok"
