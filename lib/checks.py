"""Table of checks: which harnesses/configs/modes decide which property."""

def both(q, t=None):
    return {'quick': q, 'thorough': t if t is not None else q}

EX = ['rt/explore.c']

CHECKS = {}

CHECKS['C13'] = {
    'level': 'exploration',
    'rule': ('closure generator: every operation of the slist alphabet (push_front/push_back/insert_after/'
             'erase_after/pop_front incl. empty/reverse/sort/concat/swap/foreach/clear) applied in every reachable '
             'state of 1-3 lists over a small element pool, plus seeded random histories where every op is followed '
             'by a push_back probe with probability 1/2; after every call the lists are audited against a reference '
             'sequence (size, front, back, traversal, link walk, tail = last). A case is distinct by the signature '
             '(per-list key sequences) and non-trivial when >= 2 elements are linked.'),
    'assumptions': ['erase_after is only called with a predecessor that has a successor; concat/swap only between distinct lists of equal offset',
                    'gcc 12 ASan/UBSan runtimes; harness reference model (arrays of element pointers)',
                    'dbg-asan keeps the library asserts live; rel-asan is the NDEBUG build as shipped'],
    'runs': [
        {'harness': 'slist', 'sources': ['harness/slist.c'] + EX, 'configs': both(['dbg-asan', 'rel-asan'])},
    ],
}

# per-property wording for MANIFEST.level_claimed (falls back to the rule)
LEVEL_TEXT = {}
NOT_APPLICABLE = {}
