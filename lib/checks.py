"""Table of checks: which harnesses/configs/modes decide which property.

One file per property under lib/checkdefs/<ID>.py defining CHECK (dict) and
optionally LEVEL (dict with text/note/technique/design_ref for MANIFEST.json).

CHECK keys:
  level        EVIDENCE level category
  rule         how cases are generated and what makes one distinct/non-trivial
  assumptions  list of strings
  runs         list of {harness, sources, configs: {quick: [...], thorough: [...]},
                        mode (optional), cflags (optional), workers (optional),
                        watchdog: {quick: s, thorough: s} (optional)}
  evidence     optional callable(results, tier) -> dict merged into coverage
  pipeline     'clients' for the C18 build-pipeline check
"""
import importlib, os, pkgutil

def both(q, t=None):
    return {'quick': q, 'thorough': t if t is not None else q}

EX = ['rt/explore.c']

CHECKS = {}
LEVEL_TEXT = {}
NOT_APPLICABLE = {}

_d = os.path.join(os.path.dirname(os.path.abspath(__file__)), 'checkdefs')
for _f in sorted(os.listdir(_d)):
    if _f.endswith('.py') and _f[0] == 'C':
        _m = importlib.import_module('checkdefs.' + _f[:-3])
        CHECKS[_f[:-3]] = _m.CHECK
        if hasattr(_m, 'LEVEL'):
            LEVEL_TEXT[_f[:-3]] = _m.LEVEL


# "Another platform" configuration (see ./check CONFIGS): every model harness is also built with clang 14 and -funsigned-char
# (other argument evaluation order and code generation, plain char unsigned as on ARM/PowerPC/RISC-V), assert-enabled, ASan+UBSan.
# Where a check caps the release configuration in the quick tier the same cap applies.
for _pid, _chk in CHECKS.items():
    _new = []
    for _rn in _chk.get('runs', []):
        _rn = dict(_rn)
        _q = _rn['configs']['quick']
        if ('dbg-asan' in _q or _q == ['rel-asan']) and _rn['harness'] not in ('reread', 'mt_private', 'huge'):
            # ... and 'rel-native': the library exactly as shipped (-O2 -DNDEBUG, no sanitizer instrumentation in the way of the
            # optimiser) under the same workload and the harness's own oracles; crashes are still seen as worker deaths
            _extra = ['clang-uchar-asan'] + (['rel-native'] if 'rel-native' not in _q else [])
            # thorough tier: MemorySanitizer as well (clang; every TU instrumented): a branch or address that depends on uninitialised memory
            _rn['configs'] = {'quick': list(_q) + _extra + (['clang-msan'] if os.environ.get('VERIF_TRY_MSAN') else []),
                              'thorough': list(_rn['configs']['thorough']) + _extra + ['clang-msan']}
            _mc = dict(_rn.get('max_cases', {}))
            if 'rel-asan' in _mc:
                _mc['clang-uchar-asan'] = _mc['rel-asan']
            _rn['max_cases'] = _mc
        _new.append(_rn)
    if _new:
        _chk['runs'] = _new
        _chk['assumptions'] = list(_chk.get('assumptions', [])) + [
            'configuration clang-uchar-asan: the same workload built with clang 14 -funsigned-char under its ASan/UBSan (a second compiler and the char signedness of ARM/PowerPC/RISC-V targets)',
            'configuration rel-native: the same workload on the library as shipped (gcc -O2 -DNDEBUG, no sanitizer), harness oracles only',
            'thorough tier: configuration clang-msan (MemorySanitizer, library + runtime + harness instrumented)']

# Thread-compatibility supplement: several threads, each with PRIVATE objects of the property's
# container family, under ThreadSanitizer (harness/mt_private.c).  Hidden shared state in the library
# (static scratch nodes, cached pointers) breaks "operations on independent objects are independent".
_MTP = {'C01': 'trees', 'C02': 'trees', 'C03': 'hash', 'C07': 'heap', 'C08': 'map', 'C09': 'vector', 'C11': 'vector',
        'C10': 'string', 'C12': 'dlist', 'C13': 'slist', 'C14': 'array'}
for _pid, _fam in _MTP.items():
    if _pid in CHECKS:
        CHECKS[_pid]['runs'] = list(CHECKS[_pid]['runs']) + [
            {'harness': 'mt_private', 'mode': _fam, 'sources': ['harness/mt_private.c'], 'configs': both(['tsan']), 'workers': 4}]
        CHECKS[_pid]['assumptions'] = list(CHECKS[_pid].get('assumptions', [])) + [
            'supplement: 4 threads with private ' + _fam + ' objects under ThreadSanitizer (independent objects must not share hidden state)']

# Layout supplement (harness/layout.c): elements whose node sits 64 KiB .. 16 MiB into a large record; the caller's part of every
# element is compared with a shadow copy after every library call and rewritten by the owner between calls.
_LAY = {'C01': 'trees', 'C02': 'trees', 'C03': 'hash', 'C07': 'heap', 'C12': 'dlist', 'C13': 'slist'}
for _pid, _fam in _LAY.items():
    if _pid in CHECKS:
        CHECKS[_pid]['runs'] = list(CHECKS[_pid]['runs']) + [
            {'harness': 'layout', 'mode': _fam, 'sources': ['harness/layout.c'], 'configs': both(['dbg-asan', 'rel-asan', 'rel-native']), 'workers': 16}]
        CHECKS[_pid]['assumptions'] = list(CHECKS[_pid].get('assumptions', [])) + [
            'supplement: ' + _fam + ' elements with the node at offsets past 2^16, 2^17, 2^20 and 2^24; the library may write nothing of an element but its node (shadow copy compared after every call, payload rewritten by the owner between calls)']

# Repetition supplement (harness/cycles.c): one operation pair repeated more than 2^22 (costly families 2^20; thorough 2^24 / 2^22)
# times on ONE small object: per-object state that counts operations (tickets, generations, deferred-work counters in 8, 16 or
# 20 bits) wraps only then.
_CYC = {'C15': 'all', 'C01': 'trees', 'C02': 'trees', 'C03': 'hash', 'C07': 'heap', 'C08': 'map', 'C09': 'vector', 'C10': 'string', 'C12': 'dlist',
        'C13': 'slist', 'C14': 'array'}
for _pid, _fam in _CYC.items():
    if _pid in CHECKS:
        CHECKS[_pid]['runs'] = list(CHECKS[_pid]['runs']) + [
            {'harness': 'cycles', 'mode': _fam, 'sources': ['harness/cycles.c'], 'configs': both(['rel-asan', 'rel-native'], ['dbg-asan', 'rel-asan', 'rel-native']), 'workers': 1}]
        CHECKS[_pid]['assumptions'] = list(CHECKS[_pid].get('assumptions', [])) + [
            'supplement: one operation pair repeated > 2^22 times (2^20 for hash/map/array) on one small ' + _fam + ' object, cheap observables after every cycle, full content near every power of two']

# Caller-side supplement (harness/reread.c): accessors are read, the object is changed through the API and the
# same accessors are read again inside ONE optimised caller function; a function attribute or an inline body in
# a public header that lets the client's compiler keep a stale value (e.g. __attribute__((const)) on a getter)
# breaks the property for every real client although the library object stays correct.
_RRD = {'C17': 'hash', 'C20': 'memory', 'C15': 'all', 'C04': 'hash', 'C19': 'hash', 'C01': 'trees', 'C02': 'trees', 'C03': 'hash', 'C05': 'memory', 'C07': 'heap', 'C08': 'map', 'C09': 'vector', 'C11': 'vector',
        'C10': 'string', 'C12': 'dlist', 'C13': 'slist', 'C14': 'array'}
for _pid, _fam in _RRD.items():
    if _pid in CHECKS:
        CHECKS[_pid]['runs'] = list(CHECKS[_pid]['runs']) + [
            {'harness': 'reread', 'mode': _fam, 'sources': ['harness/reread.c'], 'configs': both(['rel-asan', 'mix-asan', 'rel-native']), 'cflags': ['-O2'], 'workers': 1}]
        CHECKS[_pid]['assumptions'] = list(CHECKS[_pid].get('assumptions', [])) + [
            'supplement: look - change - look again with the ' + _fam + ' accessors inside one -O2 caller function (what a client compiler may assume from the public headers), also with the release library under a client compiled without NDEBUG (mix-asan)']
