"""Table of checks: which harnesses/configs/modes decide which property.

One file per property under lib/checkdefs/<ID>.py defining CHECK (dict) and
optionally LEVEL (dict with text/note/technique/design_ref for MANIFEST.json).

CHECK keys:
  level        EVIDENCE level category
  rule         how cases are generated and what makes one distinct/non-trivial
  assumptions  list of strings
  runs         list of {harness, sources, configs: {quick: [...], thorough: [...]},
                        mode (optional), cflags (optional), workers (optional),
                        watchdog: {quick: s, thorough: s} (optional)}
  evidence     optional callable(results, tier) -> dict merged into coverage
  pipeline     'clients' for the C18 build-pipeline check
"""
import importlib, os, pkgutil

def both(q, t=None):
    return {'quick': q, 'thorough': t if t is not None else q}

EX = ['rt/explore.c']

CHECKS = {}
LEVEL_TEXT = {}
NOT_APPLICABLE = {}

_d = os.path.join(os.path.dirname(os.path.abspath(__file__)), 'checkdefs')
for _f in sorted(os.listdir(_d)):
    if _f.endswith('.py') and _f[0] == 'C':
        _m = importlib.import_module('checkdefs.' + _f[:-3])
        CHECKS[_f[:-3]] = _m.CHECK
        if hasattr(_m, 'LEVEL'):
            LEVEL_TEXT[_f[:-3]] = _m.LEVEL
