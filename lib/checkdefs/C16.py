from checks import both

CHECK = {
    'level': 'fault_enumeration',
    'rule': ('one deterministic operation script per container family (map; vector with constructor/destructor; narrow and wide '
             'string; hash table with resizes during a rehash and shrink_to_fit; unique/shared/weak pointers; arrays with slices '
             'and an external buffer); a fault-free run counts the library\'s allocation requests N; then every single ordinal '
             'failing, every suffix failing, every pair, every triple (N <= 24) and seeded random masks (quick 6000, thorough 60000 '
             'per script) are executed; each call is checked against both admissible outcomes (normal / documented failure), '
             '"failure => a failpoint fired inside this call" and "no failpoint fired => normal", contents are re-audited after '
             'every call, after the faults stop the script continues with further use, then releases everything (no live block '
             'may remain). What a failed call must not remember: hash functions are trampolines, the model knows which function is configured (and which one only a FAILED resize named): after a failed first resize the retry passes NULL (default function) or another function, a resize naming a third function fails while a rehash is pending; every keyed call must consult the function of the last effective resize and no other. Big elements: vector scripts with elements of 300, 4097 and 6000 bytes whose sort/reverse/search/find run under the script mask or with every allocation refused (capacity unchanged, every payload byte intact, own swap function checks its scratch argument). Client callbacks only for what the client owns: the pointer scripts (two variants flipping which allocations carry a clear callback / priv) record every block handed out by alloc+get; a clear callback for memory never handed out, twice, with a wrong priv, or a destruction without its callback is a violation; vector constructor/destructor calls are confined to the slots entering/leaving [0,size) of that call; map comparator and clear callbacks verify their priv. Distinct = (script, mask) pairs with at least one failpoint.'),
    'assumptions': ['documented failure shapes: map insert -1/end iterator; vector/string reserve, shrink and hash resize/shrink: no visible change; vector/string growth: abort with contents unchanged (set_str = resize(0)+append may leave the empty string); smart-pointer/array alloc on an occupied object = reset, then allocate: failure leaves it empty',
                    'a hash table whose first resize failed is still "not ready" and is re-resized before keyed calls',
                    'hash bucket counts far below the sizeof(bucket)*n wrap point (observation outside the stated properties, DESIGN section 4)',
                    'failpoints are injected by link-time interposition of malloc/realloc (--wrap)'],
    'runs': [
        {'harness': 'faults', 'sources': ['harness/faults.c'], 'configs': both(['dbg-asan', 'rel-asan'])},
    ],
}

LEVEL = {
    'text': ('Fault enumeration: for each script all single, suffix, pair (and triple) allocation-failure masks are executed on the '
             'real library under ASan+UBSan with tolerant models, leak audit by allocator accounting; a run in which a documented '
             'failure branch was never taken fails itself.'),
    'note': 'trusts the allocator interposition, the tolerant models and the sanitizer runtimes; scripts are fixed (not generated)',
    'technique': 'runtime monitoring: failpoint enumeration over allocation ordinals + tolerant reference models + allocator-event leak audit under ASan',
    'design_ref': 'DESIGN.md section 3 (C16)',
}
