from checks import both, EX

CHECK = {
    'level': 'exploration',
    'rule': ('closure generator: push (every priority) / pop / get / clear / swap applied in every reachable state of one, two '
             'and three heaps over small priority sets (quick: 1 heap <= 12 elements x 3 priorities, <= 10 x 4, <= 20 x 2, 10 distinct '
             'priorities, <= 70 all-equal; 2 heaps <= 5 x 3, <= 7 x 2, 7 distinct; 3 heaps <= 3 x 2; thorough: one to three sizes '
             'larger); heap objects of one scope are configured differently (forward / reversed order through different comparator '
             'functions, different priv, different embedded node member) and swap - applied in every state incl. both-empty and '
             'one-empty - must exchange contents AND configuration (the comparator wrapper checks function, priv and membership '
             'against the heap object being operated on; the walker checks that nothing outside the configured node member was '
             'written); large-heap cases (2 quick / 6 thorough: 140000 elements, 1..140000 priorities) grow one heap past 2^17 with '
             'pops mixed in and drain it with pushes mixed in, size/get/pop checked against a counting model after every call and the '
             'full walker run whenever the size is within 2 of a power of two 2^8..2^17 (the size is driven back and forth across '
             'each), at the top and at the end; plus seeded random interleavings with fill/drain/hover phases on pools of 4-1024 elements (every sixth history '
             'fills 500-1024 elements first) and 1..pool priorities; popped elements get their node overwritten before re-use. '
             'Configuration sets in which two heaps differ in exactly ONE of comparator function / priv / node member (e.g. a max-heap and a min-heap sharing one comparator that takes its direction from priv): own closure scopes and 240 (thorough 1920) swap-then-use cases per state class; every second case runs with an allocator that refuses every request. '
             'After every call: size == reference count; get/pop return NULL iff the reference '
             'multiset is empty, otherwise the address of an element that was pushed and is still held whose priority equals the '
             'reference maximum; pop removes exactly that element; and a walker over the header-visible links demands that the '
             'node at level-order position i has children exactly at 2i+1 and 2i+2 iff those are < size, that every parent link '
             'points to the node at (i-1)/2, that no child has a higher priority than its parent, that every linked node is a held '
             'element reached once and that the node count equals size. A case is distinct by the per-heap level-order priority '
             'list and non-trivial when >= 2 elements are held.'),
    'assumptions': ['the comparison function is a total preorder on priorities (sign only is specified; it returns +-1 or +-large values)',
                    'priorities of held elements are never modified; popped elements have their node overwritten with garbage before re-use',
                    'clear is only called with a non-NULL callback; swap only between distinct heap objects; an element is in at most one heap at a time',
                    'gcc 12 ASan/UBSan runtimes; harness reference model (multiset of element addresses per heap)',
                    'dbg-asan keeps the library asserts live; rel-asan is the NDEBUG build as shipped'],
    'runs': [
        {'harness': 'heap', 'sources': ['harness/heap.c'] + EX, 'configs': both(['dbg-asan', 'rel-asan']),
         'watchdog': {'quick': 1800, 'thorough': 7200}},
    ],
}

LEVEL = {
    'text': ('Exploration: every reachable heap state of several small scopes (closure over push/pop/get/clear/swap; ties, all-distinct '
             'and all-equal priorities; one to three heaps) plus thousands of seeded random push/pop interleavings on up to 1024 elements and grow/drain runs past 2^17 elements '
             'are executed on the real library under ASan+UBSan in the assert-enabled and the NDEBUG build; a reference multiset '
             '(returned element is held and maximal, pop removes exactly it, size, NULL iff empty) and a completeness / parent-link / '
             'heap-order walker over the public node links are evaluated after every call. Held means: on the executions observed.'),
    'note': 'trusts gcc 12 sanitizer runtimes and the harness reference model; comparison is a total preorder; priorities immutable while held; clear with non-NULL callback only',
    'technique': 'runtime monitoring: closure + random workloads, reference-multiset oracle and structural walker after every call, ASan/UBSan',
    'design_ref': 'DESIGN.md section 3 (C07)',
}
