from checks import both, EX

def _ev(results, tier):
    wf = sum(r['cases_done'] for r in results if r['harness'] != 'guard')
    cells = sum(r['counters'].get('cells.aborted-as-required', 0) for r in results if r['harness'] == 'guard')
    dn = max([r['distinct_nontrivial'] for r in results if r['harness'] == 'guard'] or [0])
    return {'distinct_nontrivial': dn, 'exhaustive': True, 'matrix_cells_aborted': cells, 'well_formed_histories_without_abort': wf,
            'not_in_scope': ['cstl_array_size and the *_init/_set re-initialisers never look at the pointer',
                             'guarded copy(dst=stray): dst is only overwritten, never read',
                             'array at()/at_const() on an EMPTY stray object: the bounds check aborts first either way']}

CHECK = {
    'level': 'exploration',
    'rule': ('A: full matrix object kind {guarded, unique, shared, weak, array} x state {empty, owning, shared with another '
             'object, weak-only, array whole/slice/external} x way of straying {struct assignment, memcpy, relocation with the '
             'original storage released} x every public function that reads/transfers/releases the pointer x argument '
             'position; each cell must arrive in the library abort() (interposed) under ASan, then the original is exercised '
             'and everything is released with no live library block left. B: the well-formed random and closure histories of '
             'the C05 generator (and of the C14 generator via its own check) run with "any abort is a violation". Pair cells: a struct of two or three smart-pointer members duplicated as a whole (assignment / memcpy) to 8 placements (adjacent, +-4 KiB, aligned and not, separate allocation) so that BOTH operands of swap/copy/share/from/lock/slice/unslice are strays displaced by the same distance; two proper objects exchanged by hand and then handed to the library swap; one stray in both operand positions. For every aborting cell nothing may happen between the call and the abort: no clear callback, no free/realloc (allocator event window). Distinct = '
             'matrix cells (kind, state, way, probe).'),
    'assumptions': ['a stray copy is an object whose bytes equal the original\'s but which lives at another address',
                    'functions that never look at the pointer are out of scope and listed in the evidence'],
    'runs': [
        {'harness': 'guard', 'sources': ['harness/guard.c'], 'configs': both(['dbg-asan', 'rel-asan']), 'workers': 8},
        {'harness': 'memory', 'sources': ['harness/memory.c'] + EX, 'configs': both(['rel-asan'])},
    ],
    'evidence': _ev,
}

LEVEL = {
    'text': ('Exploration, exhaustive over the stated finite matrix (every cell executed in both builds), plus tens of '
             'thousands of well-formed histories in which no abort may occur.'),
    'note': 'trusts --wrap=abort interposition and ASan; header inlines are compiled into the harness with the same flags as the library',
    'technique': 'runtime monitoring: expected-abort matrix under ASan + no-abort monitor over well-formed histories',
    'design_ref': 'DESIGN.md section 3 (C20)',
}
