from checks import both

def _ev(results, tier):
    dfs = sum(r['counters'].get('interleavings.dfs', 0) for r in results)
    sampled = sum(r['counters'].get('interleavings.sampled.distinct', 0) for r in results)
    runs = sum(r['counters'].get('sched.executions', 0) + r['counters'].get('mt.rounds', 0) for r in results)
    return {'evaluations': runs, 'distinct_nontrivial': dfs + sampled,
            'interleavings_dfs_distinct_by_construction': dfs, 'interleavings_sampled_distinct': sampled}

CHECK = {
    'level': 'exploration',
    'rule': ('[one CPU] the environment queries (sched_getaffinity, sysconf, get_nprocs) are interposed: the 351 both-threads-lock pairs and a sample of one-sided lock pairs are DFS-explored with the process confined to ONE cpu (which still preempts); [bounded unfairness] 14 scenarios x every schedule point f of a thread A: A is frozen after its f-th point (also inside the spin-flag critical section and inside a clear callback) while B -- optionally then C -- runs alone for up to 100 (repeated with 300) consecutive failed flag attempts or steps; then the exploration continues (capped DFS + random walks); plus freezes injected into the sampled 3-4 thread schedules; same oracles; '
             'A (controlled scheduler, fibres, ASan): the unmodified memory.c compiled against shadow <stdatomic.h>/<sched.h> '
             'yields to the scheduler before every atomic step, at frees of the managed/bookkeeping block and at clear-callback '
             'entry; DFS (stateless re-execution, every choice at every schedule point) over ALL interleavings of every '
             'two-thread scenario = unordered pair of (initial configuration {owner, weak, both, none} x script of 1-2 '
             'operations from {share, reset S0, reset S1, weak_from, lock, weak_reset, unique}), of selected three-/four-thread '
             'scenarios and of sampled two-thread scenarios with 3-operation scripts (capped per scenario), plus random-walk and '
             'PCT schedules of 3-4 thread x 2-4 operation scenarios; each execution is checked for linearizability against the '
             'sequential ownership model (with the clear / bookkeeping-free pinned to the operation in which they were observed), '
             'owner-sees-live-memory reads, exactly-once accounting at quiescence, deadlock (all remaining threads spinning). '
             'B (real threads, TSan and ASan builds): barrier-released threads run the same operations in tight rounds with '
             'seeded injected yields. Distinct = DFS interleavings (distinct by construction) + distinct sampled schedules '
             '(hash of the schedule), non-trivial = at least one context switch.'),
    'assumptions': ['schedules are sequentially consistent interleavings of the schedule points (the library uses seq_cst throughout)',
                    '"no thread waits forever" is decided as bounded progress: spinning while no other thread can run = deadlock; > 20000 steps = inconclusive',
                    'each thread uses only its own pointer objects (the property\'s domain)',
                    'TSan reports are attributed to the library when a frame lies in src/memory.c or include/cstl/memory.h'],
    'runs': [
        {'harness': 'memory_sched', 'sources': ['harness/memory_sched.c'], 'configs': both(['sched-asan', 'sched-rel-asan']),
         # fibres are created and destroyed per execution; ASan's fake stacks (stack-use-after-return) would be
         # mmap'ed and unmapped each time, which dominated the run time
         'env': {'ASAN_OPTIONS': 'detect_stack_use_after_return=0:halt_on_error=1:abort_on_error=0:exitcode=86:allocator_may_return_null=1:detect_leaks=0:handle_abort=0'}},
        {'harness': 'memory_mt', 'sources': ['harness/memory_mt.c'], 'configs': both(['tsan', 'tsan-rel'], ['tsan', 'tsan-rel', 'sched-asan']), 'workers': 8},
    ],
    'evidence': _ev,
}

LEVEL = {
    'text': ('Exploration: exhaustive DFS over the interleavings of all small two-thread scenarios and selected 3-/4-thread '
             'ones (each a real execution of the compiled memory.c under ASan with linearizability + exactly-once oracles), '
             'sampled schedules of larger scenarios, and real-thread stress under ThreadSanitizer.'),
    'note': 'trusts the shadow-header interposition (every atomic step of memory.c is a schedule point), ucontext fibres standing in for threads (memory.c has no thread-local state), TSan/ASan runtimes',
    'technique': 'runtime monitoring: controlled scheduler (DFS/PCT) + linearizability checker + exactly-once monitors under ASan; ThreadSanitizer on real threads',
    'design_ref': 'DESIGN.md section 3 (C06), 2.5',
}
