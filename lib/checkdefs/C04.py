from checks import both, EX

CHECK = {
    'level': 'exploration',
    'rule': ('[keys and shapes] a fourth key family of boundary keys (0, 1, SIZE_MAX, SIZE_MAX-1, 2^63+-1, 2^32+-1, 2^31 ...) in own closure scopes and a quarter of the random histories, tracked as FIRST key after init / resize / completed rehash / clear; exact doublings 3->6, 5->10, 7->14, 6->12, 4->8; cstl_hash_div/mul passed directly; visitors of find/foreach/foreach_const call size/load and a nested foreach_const on the same table and work a bystander table; everything but resize/shrink_to_fit runs with a refusing allocator in every second case; '
             'the C03 closure generator drives tables into every reachable state of the scope; on replicas of every new '
             'state seven terminal probes run: foreach_const (full / early stop), foreach (full / early stop / visitor erases '
             'and frees the visited element), clear with a callback that poisons and frees, clear(NULL); after clear: size 0, '
             'bucket array released (allocator events), then resize + inserts + finds + erase + enumeration + second clear '
             '(reusable clause). Per-address visit counters against the set model; random histories end in a terminal probe. '
             'Distinct = table-state signatures with >= 2 live elements.'),
    'assumptions': ['visitors do not modify the table except the erasing-visitor probe, which erases exactly the visited element (the tolerated case)',
                    'see C03'],
    'runs': [
        {'harness': 'hash', 'mode': 'enum', 'sources': ['harness/hash.c'] + EX, 'configs': both(['dbg-asan', 'rel-asan'], ['dbg-asan', 'rel-asan', 'rel-plain']),
         # quick: the release build (what is shipped: -O2 -DNDEBUG) on the closure scopes and the first random histories
         'max_cases': {'rel-asan': {'quick': 260}}},
    ],
}

LEVEL = {
    'text': ('Exploration: each enumeration entry point and clear is executed in every reachable table state of the scope '
             '(states with a grow pending and elements already relocated above the old bucket count, shrink pending, '
             'function change pending, idle) under ASan+UBSan with exactly-once visit accounting and allocator-event '
             'checking; counts per (probe, rehash phase) are in the evidence.'),
    'note': 'trusts sanitizer runtimes, the set model and the allocator interposition',
    'technique': 'runtime monitoring: closure states x terminal probes, exactly-once visit/hand-over oracle, allocator events, ASan',
    'design_ref': 'DESIGN.md section 3 (C04)',
}
