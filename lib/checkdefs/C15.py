from checks import both, EX
import os

_here = os.path.dirname(os.path.dirname(os.path.dirname(os.path.abspath(__file__))))

def _runs():
    cand = [
        ('slist', 'harness/slist.c'), ('dlist', 'harness/dlist.c'), ('trees', 'harness/trees.c'),
        ('heap', 'harness/heap.c'), ('map', 'harness/map.c'),
    ]
    out = []
    for name, src in cand:
        out.append({'harness': name, 'mode': 'clear', 'sources': [src] + EX,
                    'configs': both(['dbg-asan', 'rel-asan'])})
    return out

def _ev(results, tier):
    handed = sum(r['counters'].get('clear.handed-over', 0) for r in results)
    probes = sum(r['counters'].get('probe.clear-then-reuse', 0) for r in results)
    per = {r['harness']: {'states-cleared': r['counters'].get('probe.clear-then-reuse', 0),
                          'elements-handed-over': r['counters'].get('clear.handed-over', 0),
                          'distinct-states': r['distinct_nontrivial']} for r in results}
    return {'distinct_nontrivial': sum(r['distinct_nontrivial'] for r in results),
            'states_cleared_on_replicas': probes, 'elements_handed_over': handed, 'per_container': per}

CHECK = {
    'level': 'exploration',
    'rule': ('[big] 2^20+3 list elements, 300 000 tree/heap elements, 6000 map entries cleared in one call, the second round while the allocator refuses everything (harness/cycles.c); callbacks re-read their iterator / priv arguments after a nested clear; [nested] in mode clear some elements of every container type own a private container OF THE SAME TYPE that the outer callback clears through the library with another callback function / priv (map: also the NULL callback): every element reaches exactly its own container\'s callback once, the outer walk goes on after each nested clear, the emptied inner container is re-used; every second clear runs with an allocator that refuses everything; '
             'the closure generators of C13 (slist), C12 (dlist), C01/C02 (bintree and rbtree), C07 (heap) and C08 (map) drive '
             'each container into every reachable state of its small scope; on a replica of every newly discovered state '
             'clear is called with a callback that checks the exactly-once/member-only state machine, overwrites the whole '
             'element (including the embedded node) with 0xA5 and FREES it, so any later read or write of a handed-over '
             'element is an ASan use-after-free; afterwards size 0 / empty traversal are checked and the container is '
             'filled and drained again under its reference model; random histories with large containers end in the same '
             'clear. Distinct = container-state signatures cleared (summed over the six container types), non-trivial '
             'when >= 2 elements are held.'),
    'assumptions': ['clear callbacks are non-NULL for the tree/heap/list containers (the map accepts NULL)',
                    'see the container checks C01/C02/C07/C08/C12/C13 for the models used in the re-use phase'],
    'runs': _runs(),
    'evidence': _ev,
}

LEVEL = {
    'text': ('Exploration: clear is executed in every reachable state of the small scopes of all six containers with a '
             'freeing, poisoning callback under ASan+UBSan, followed by a re-use phase under the reference model; the evidence '
             'gives states cleared and elements handed over per container.'),
    'note': 'trusts ASan for the "never touches it again" clause (a touch of a freed element is a use-after-free report) and the per-container models',
    'technique': 'runtime monitoring: closure states x clear probe with free-in-callback under ASan, exactly-once hand-over monitor',
    'design_ref': 'DESIGN.md section 3 (C15)',
}
