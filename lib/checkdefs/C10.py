from checks import both, EX

CHECK = {
    'level': 'exploration',
    'rule': ('[long strings] 32 cases: strings of 4095, 4096, 4097, 5000, 65535, 65536, 70000 and 140000 characters (narrow and wide, capacity == size and spare capacity) x ~650 cells each: every insert/append/erase/substr/resize/reserve entry point with positions 0 / inside / size-1 / size / beyond and the overflow count classes (SIZE_MAX-k, SIZE_MAX-size+-1, 2^62, 2^63, 2^32+-k ...); an impossible growth must abort with the string unchanged and WITHOUT a successful allocation smaller than the characters already stored; erase down to 0/1/10 characters keeps the terminator; '
             'narrow (cstl_string) and wide (cstl_wstring) strings through one generic harness, two distinct string '
             'objects per case. Generators: (1) closure over all pairs of strings of length <= 3 (thorough: <= 4) over a '
             '3-character alphabet (charset 0: a, b, 0xE9 narrow / a, b, 0x1F600 wide; charset 1, used in a share of the '
             'closure scopes, half of the matrix and half of the random histories: a, 0xFF, 0xE9 narrow / WCHAR_MAX, '
             '(wchar_t)-2, a wide, so that compare/find meet top-bit bytes next to ASCII and the extremes of wchar_t), '
             'and over 2 characters + embedded NUL from resize, including the never-allocated and '
             'the reserved-but-unwritten flavour of the empty string; in every reachable state every op of the alphabet '
             '(set_str, insert, insert_str, insert_str_n, insert_ch, append*, erase, substr, resize, reserve, swap, '
             'clear, at, at_const, find_ch, find_str, find, compare, compare_str) is applied with positions '
             '{0..5, size+1, SIZE_MAX, SIZE_MAX-1, 2^63} and counts/lengths {0..5, SIZE_MAX, SIZE_MAX-1, SIZE_MAX-pos, '
             'SIZE_MAX-pos+-1, SIZE_MAX-size, SIZE_MAX-size+-1, 2^62, 2^63, cap/w+1, SIZE_MAX/w, SIZE_MAX/w+-1}; '
             '(2) a matrix op x position code x count code x {never-allocated, empty, short, embedded NUL, slack '
             'capacity, reserved-unwritten} x {standard, lowered allocator cap}; (3) seeded random histories of '
             '1000-1500 edits with boundary-heavy arguments and episodes with a lowered allocator cap. After every '
             'call both objects are audited against a harness-side character array + length: size, str()[0..size] '
             'with NUL at index size, at(i) == str+i for all i, at(size) aborts; find_ch/find_str/find/compare/'
             'compare_str are compared with strchr/strstr/strcmp (wcs*) run on the reference copy. pos > size must '
             'abort; insert at pos == size must succeed; erase/substr/find at exactly pos == size may abort or give the '
             'natural result (counted); counts past the end are clamped; growth above the allocator cap or to an '
             'unrepresentable length must abort with the object unchanged (set_str: previous content or empty); an '
             'unsatisfiable reserve is a quiet no-op. A case is distinct by the contents of both objects (closure, '
             'random) or by the matrix cell, and non-trivial when the two strings hold >= 2 characters together.'
             ' Plus (harness/huge.c, the library as shipped without sanitizer) narrow strings of 2^31+21 and 2^32+21 characters and wide strings of 2^30+33 (thorough: 2^32+35) characters: append_ch run scanned completely, resize to 0 and back inside the capacity must NUL-fill (complete scan), position-dependent content written through data() then insert_str near the front (moved tail > 2^32 characters), near the end, insert_ch in the middle, substr with a clamped count into a second huge string, erase of a huge middle range and a clamped erase to the end, each verified at segment boundaries, around 2^31/2^32 and at 16384 scattered positions; find_ch/find_str results above 2^32; at(size) aborts; (thorough) compare of two strings that differ only beyond 2^32, append and find of a huge string.'),
    'assumptions': ['the huge scenarios need 3-12 GiB of free memory; one that the machine cannot back (MemAvailable too small, or the C library refuses the request) is skipped and counted (huge.skipped.*), nothing is concluded from it',
                    'source and destination strings are distinct objects; insert_str_n/append_str_n are given at most '
                    'the characters the raw string has',
                    'allocator requests above 64 MiB (or above the lowered cap of a case) are refused on purpose; growth '
                    'whose size is within a factor 2 of a lowered cap may either succeed or abort',
                    'UBSan nonnull-attribute is disabled in all builds (memcpy(NULL, src, 0) on a never-allocated '
                    'string is counted, not reported)',
                    'data() of an empty string is unspecified (NULL or a buffer); capacity is only required to be >= size',
                    'gcc 12 ASan/UBSan runtimes; dbg-asan keeps library asserts live, rel-asan is the NDEBUG build'],
    'runs': [
        {'harness': 'string', 'sources': ['harness/string.c'] + EX, 'configs': both(['dbg-asan', 'rel-asan'])},
        # objects of 2^31 .. 2^33 elements, the library as shipped (no sanitizer), own oracles (harness/huge.c)
        {'harness': 'huge', 'sources': ['harness/huge.c'], 'mode': 'string', 'configs': both(['rel-huge']), 'workers': 3},
    ],
}

LEVEL = {
    'text': ('Exploration: every pair of short strings over a small alphabet (closure, every operation with boundary '
             'positions and counts in every reachable state), a systematic op x position x count x state-class matrix and '
             'tens of thousands of random edit histories are executed on the real narrow and wide string code under '
             'ASan+UBSan in the assert-enabled and the NDEBUG build; a reference character array is compared after every '
             'call, required aborts are caught and the object re-audited, searches and comparisons are checked against '
             'the C library on the reference copy. Held means: on the executions observed.'),
    'note': 'trusts gcc 12 sanitizer runtimes, the C library str*/wcs* functions and the harness reference model; no string is inserted into itself',
    'technique': 'runtime monitoring: closure + matrix + random workloads, reference-string oracle after every call, abort interposition, allocator cap, ASan/UBSan',
    'design_ref': 'DESIGN.md section 3 (C10)',
}
