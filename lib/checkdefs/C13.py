from checks import both, EX

CHECK = {
    'level': 'exploration',
    'rule': ('[runs and re-entrancy] sort inputs with run structure (runs of decreasing/increasing/equal length, > 1024 runs, sawtooth, organ pipe; 820..32767 elements, thorough 200000) sorted ascending and descending through priv, in every second case the comparator sorts another list; foreach visitors call size/front/back(/find) and a nested foreach on the same and on another list; every second case runs with an allocator that refuses everything; '
             'closure generator: every operation of the slist alphabet (push_front/push_back/insert_after/'
             'erase_after/pop_front incl. empty/reverse/sort/concat/swap/foreach/clear) applied in every reachable '
             'state of 1-3 lists over a small element pool, plus seeded random histories where every op is followed '
             'by a push_back probe with probability 1/2; after every call the lists are audited against a reference '
             'sequence (size, front, back, traversal, link walk, tail = last). A case is distinct by the signature '
             '(per-list key sequences) and non-trivial when >= 2 elements are linked.'),
    'assumptions': ['erase_after is only called with a predecessor that has a successor; concat/swap only between distinct lists of equal offset',
                    'gcc 12 ASan/UBSan runtimes; harness reference model (arrays of element pointers)',
                    'dbg-asan keeps the library asserts live; rel-asan is the NDEBUG build as shipped'],
    'runs': [
        {'harness': 'slist', 'sources': ['harness/slist.c'] + EX, 'configs': both(['dbg-asan', 'rel-asan'], ['dbg-asan', 'rel-asan', 'rel-plain']),
         'max_cases': {'rel-plain': 400}, 'workers': 16},
    ],
}

LEVEL = {
    'text': ('Exploration: every reachable list state of a small scope (closure over the operation alphabet, 1-3 lists, '
             'lengths 0-6) plus tens of thousands of seeded random histories are executed on the real library under '
             'ASan+UBSan in the assert-enabled and the NDEBUG build; a reference sequence, a link walker and a '
             'push_back-lands-last probe are evaluated after every call. Held means: on the executions observed.'),
    'note': 'trusts gcc 12 sanitizer runtimes and the harness reference model; erase_after only with a predecessor that has a successor; no self-concat/self-swap',
    'technique': 'runtime monitoring: closure + random workloads, reference-sequence oracle after every call, ASan/UBSan',
    'design_ref': 'DESIGN.md section 3 (C13)',
}
