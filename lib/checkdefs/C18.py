CHECK = {
    'level': 'exploration',
    'rule': ('build-pipeline exploration (lib/clients.py): [call shapes] every declared function is additionally CALLED, in code that is compiled but never executed, with pointer arguments that are compound literals with a comma in their initialiser list (a function-like macro shadowing the function splits such an argument; a control TU with plain addresses separates generator problems from header problems); [client code after a header] a strict ISO C99 client (no feature-test macro) that defines its own getline/strdup/strnlen/dprintf/... and contains constructs that only draw warnings (shadowing, sign comparison, unused locals) is compiled with the warning flags of the project after each cstl header placed FIRST; a control TU without the header decides whether the client code is acceptable at all; [client flags] the all-headers address-table client is additionally built with -Os, -O1, -O3, -Og, -Ofast, _FORTIFY_SOURCE, -fPIC, -fPIE, -pthread, -funsigned-char, -fno-inline, -ffast-math, -fgnu89-inline, -fno-common and NDEBUG and linked against the static and the shared library as shipped; [objects] every object the headers declare `extern` must be defined by libcstl.a and exported by libcstl.so; [name space] for every global symbol libcstl.a defines outside (__)cstl_* a client that has a function of that name and uses the same archive member must link and run. the project\'s own `make build` is run in a scratch copy of the '
             'working tree (Makefile, src, include, benches) -> libcstl.a, libcstl.so. Header list = include/cstl/*.h minus '
             'the guard-less template _string.h. The list of declared functions is read from the compiler (gcc -aux-info on '
             'bare include-only TUs). Generated C99 clients (project flags -Wall -Wextra -std=c99 -pedantic '
             '-D_POSIX_C_SOURCE=199309L, plus -pedantic-errors so that diagnostics ISO C99 requires are errors while ordinary '
             'warnings are only counted): every header alone, every ordered pair, all headers in sorted/reverse/seeded-shuffle '
             'order (thorough: + 200 seeded ordered triples, -O0 and -O2, both TU orders on the link line); each as one TU and '
             'as two TUs that both include the headers; every client TU stores the address of every function its headers '
             'declare themselves (extern prototypes pull the library member in, static inline bodies are instantiated) into a '
             'volatile table, expands every public macro those headers define (list from the preprocessor, gcc -dD -E; '
             'DECLARE_CSTL_* / CSTL_*_INITIALIZER / CSTL_MAX_T via clients/macros.json; an unknown public macro makes the run '
             'inconclusive) as a file-scope static, an automatic and a static-local object BEFORE any system header is '
             'included and queries each object, and runs a small per-header use snippet (clients/use_<header>.c: init/size/insert/erase on fresh '
             'objects); each is linked against libcstl.a and against libcstl.so and RUN (shared: also with LD_BIND_NOW=1). '
             'Plus an address-of-everything client over all headers, also under ASan+UBSan. nm cross-checks: every declared '
             'extern function defined exactly once in libcstl.a and exported by libcstl.so; no client object (bare include or '
             'generated client) defines a global symbol. A configuration counts when it was compiled, linked and every run '
             'returned 0; distinct = (client kind, header tuple, TU count, link mode, optimisation level, sanitizer).'),
    'assumptions': ['gcc 12 / GNU ld / glibc loader on x86-64 Linux are the compile-link-load pipeline; other toolchains (e.g. -fcommon defaults, macOS two-level namespaces) are not explored',
                    'clients are compiled with the project\'s own language/warning flags (-std=c99 -pedantic -D_POSIX_C_SOURCE=199309L) plus -pedantic-errors; other dialects (C11/gnu, C++) are not explored',
                    'public macros are expanded with the invocation templates of clients/macros.json (one or two argument choices per macro), not with arbitrary arguments',
                    'warnings in client compilations are counted, not failed',
                    'the per-header use snippets are hand-written and call only a cheap subset; behavioural correctness of the library is the business of the other checks',
                    'a failure of the project build itself (make build) is reported as inconclusive, not as a violation'],
    'pipeline': 'clients',
    'runs': [],
}

LEVEL = {
    'text': ('Exploration over build configurations: every public header alone, every ordered pair, all headers together in '
             'several orders (thorough: plus sampled ordered triples, two optimisation levels, both link orders), each as a '
             'one-TU and a two-TU C99 client that takes the address of every function the headers declare, expands every public macro with static and automatic '
             'storage before any system header, and calls a cheap subset, compiled with the project\'s flags, linked against the libcstl.a and libcstl.so that the project\'s own '
             'Makefile produces, loaded (also with LD_BIND_NOW=1) and run; an address-of-everything client additionally under '
             'ASan+UBSan; nm cross-checks of declared vs. defined/exported symbols. The deciding oracle is the exit status of '
             'compiler, link editor, loader and client. Held means: on the configurations built.'),
    'note': 'trusts gcc 12, GNU ld, the glibc loader and nm; only the C99 dialect and flags the project itself uses; warnings are recorded, not failed',
    'technique': 'generated client programs through compile -> link -> load -> run; compiler-derived declaration list (gcc -aux-info); nm symbol-table cross-checks',
    'design_ref': 'DESIGN.md section 3 (C18)',
}
