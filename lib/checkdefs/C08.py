from checks import both, EX

CHECK = {
    'level': 'exploration',
    'rule': ('[probe keys] the caller rewrites a probe key object it owns between a find that misses and insert/find/erase with the same pointer (the model decides by the content at each call); [big] 6000 entries cleared in one call, also while the allocator refuses everything (cycles); [out-parameters] insert/find/erase receive ONE re-used iterator variable that arrives holding a sentinel, the previous result, the iterator of another live entry, of an erased entry (also with its node memory re-used), of the same key object in a SECOND map, or that map\'s end iterator; the second map must stay untouched; '
             'Keys are boxed integers with 2-3 distinct key OBJECTS and value objects per key value (separate heap blocks), '
             'so "the stored key/value pointers stay untouched" is observed by address; a share of the entries (odd key values '
             'with their last key object in the closure alphabets, one offer in 3-4 in random histories) is inserted with a '
             'NULL value pointer, which the model stores and every report (insert-existing, find, erase, clear callback) must show; '
             'the NULL pointer is itself one legal key (key object 0 of value 0: the comparison maps NULL to value 0 without '
             'dereferencing it; every other argument must be a live key object), stored, found, erased and handed to clear like any other. '
             '(a) closure generator: every op of the alphabet {insert with/without iterator, find, erase by key with/without '
             'iterator, erase_iterator with an iterator taken from a find or from an insert (new or existing key), size, '
             'clear with callback, clear with NULL callback} x every key value x every key object is applied in every reachable '
             'state of scopes of 4-10 key values x 1-3 objects, ascending and descending comparison; a state is its model '
             '(present values + which key/value object is stored) or, in most scopes, the model plus shape and colours of the '
             'embedded red-black tree; (b) bounded-exhaustive: all op sequences of length <= 4-7 over 4 key values (22-op resp. '
             '9-op alphabet); (c) seeded random histories of 10^4 ops over <= 64 key values with ascending / descending / '
             'shuffled insertion sweeps, fill / mixed / drain phases, occasional clear and re-use. '
             'After EVERY call: return code and iterator contents against the model (end = cstl_map_iterator_end, compared '
             'with cstl_map_iterator_eq and field by field), an independent find of the touched value, cstl_map_size, and the '
             'allocator events of the call (new key: exactly one block gained; existing key / find / failed erase: no net '
             'change; erase: exactly the block that entry\'s insert allocated is freed; clear: all of them; live library blocks '
             '== size). Erased and cleared key/value objects are poisoned and freed at once, the clear callback runs an '
             'exactly-once state machine per entry on the (key, value) pair it receives. Full audit (find of every value of '
             'the universe with every key object, block liveness, red-black/parent-link/order walk of map->t) after every '
             'transition in (a)/(b) and every 64 ops in (c). Counted as distinct: closure states (a), operation sequences (b), '
             'and model states seen at the audits of (c) (set "map-states"; tree shapes separately in "tree-shapes"); '
             'non-trivial when the map holds >= 2 entries at that point.'),
    'assumptions': [
        'iterators passed to cstl_map_erase_iterator come from a find or insert with no mutation in between; the map object is never moved after init',
        'comparison functions are total orders on the key values; no allocation failure is injected here (that is C16)',
        'not demanded (only counted): that the iterator handed to the clear callback / returned by a successful erase compares equal to end; transient allocations that are freed within the same call',
        'gcc 12 ASan/UBSan runtimes; harness reference model (array indexed by key value); the tree walk reads header-visible fields and is reported under its own keys (map.walker.*)',
        'dbg-asan keeps the library asserts live; rel-asan is the NDEBUG build as shipped',
    ],
    'runs': [
        {'harness': 'map', 'sources': ['harness/map.c'] + EX, 'configs': both(['dbg-asan', 'rel-asan'])},
    ],
}

LEVEL = {
    'text': ('Exploration: every reachable map state of small scopes (closure over the full operation alphabet, 4-10 key '
             'values x 1-3 key objects per value, both comparison orders, state = model + tree shape), all operation sequences '
             'up to length 4-7 over 4 key values, and thousands of seeded random histories of 10^4 operations over 64 key values '
             'are executed on the real library under ASan+UBSan in the assert-enabled and the NDEBUG build; return codes, '
             'iterator contents, stored pointers (by address), size, allocator events per call and the clear callback are '
             'compared with a reference model after every call. Held means: on the executions observed.'),
    'note': ('trusts gcc 12 sanitizer runtimes and the harness reference model; erase_iterator only with an iterator from a '
             'find/insert with no mutation in between; allocation failure is out of scope here (C16)'),
    'technique': 'runtime monitoring: closure + bounded-exhaustive + random workloads, reference-model and allocator-event oracles after every call, ASan/UBSan',
    'design_ref': 'DESIGN.md section 3 (C08)',
}
