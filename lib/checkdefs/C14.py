from checks import both, EX

CHECK = {
    'level': 'exploration',
    'rule': ('[degenerate shapes] alloc/set with nm == 0 (also over a real buffer), sz == 0 (counts up to SIZE_MAX), NULL buffers, and slices / unslice / release / at of such objects, in an own closure scope and one random draw in eight; [reshape] an occupied object is re-allocated / re-set with related shapes (same byte count and another element size, a few elements more or fewer, count and size exchanged, same shape again) at 240 bytes .. 1 MiB, sole owner and with co-owning offset views; [many views] 70 000 (thorough 300 000) simultaneous views of one library or external buffer, release()/lifetime checked at 2, 3, 254..258, 65534..65538 referrers going up and down; '
             'cstl_array_alloc/set/slice/unslice/reset/release/at/at_const/data/size driven over 2-4 individually allocated '
             'array objects and up to 3 live buffers (internal via alloc, external via set on harness blocks of exactly nm*sz '
             'bytes; also a second, separate set() over a block that another object - or the object itself - already wraps, with '
             'the same or a different nm/sz that fits: two wrappers with the same data pointer but independent library blocks, '
             'referrer sets and geometry; and set(a, NULL, 0, sz): an object that refers to something, size 0, data NULL, slice '
             '[0,0) legal; element sizes 1/2/4/8/24). Closure generator: every op of the alphabet (alloc with nm 0/1/3 and '
             'unsatisfiable nm*sz such as (2^63,sz), (SIZE_MAX,sz), (SIZE_MAX/sz+1,sz), (cap/sz+1,sz), alloc/set with the 1st or 2nd '
             'malloc failing, slice into every object incl. in place with beg/end from {0,1,2,size-1,size,size+1,bufend-1,bufend,'
             'bufend+1,SIZE_MAX,SIZE_MAX-1,SIZE_MAX-off-1..+2,SIZE_MAX-off+1+bufend}, unslice other/in place, reset, release with and '
             'without out pointer) applied in every reachable state of a small scope; plus seeded random histories of 1000-1500 ops. '
             'Oracle after every call: reference model per object (buffer, off, len) and per buffer (element area, nm, sz, kind, '
             'library blocks); size/data compared; every in-range element addressed through at/at_const must equal '
             'base+(off+i)*sz and is written (ASan); at must abort for size, size+1, SIZE_MAX, the last buffer element beyond the '
             'view and the index that wraps off+i to 0; slice must abort iff end<beg or off+end>nm in 128-bit arithmetic and must '
             'not abort otherwise (empty source: abort or empty result accepted); the element area of an internal buffer must lie '
             'inside a live library block allocated by that call with requested size >= header+nm*sz; allocator events of every '
             'call must free exactly the blocks of buffers whose last referrer went away in that call (each once) and nothing '
             'else, live library blocks == blocks of referenced buffers; release must return the set() pointer exactly when the '
             'object is the sole user of an external buffer (object empty afterwards) and otherwise report NULL with no allocator '
             'traffic and an unchanged full audit; every oracle applies per wrapper (a slice/unslice into an object whose own '
             'wrapper has the same data pointer must still re-point it: the old wrapper dies if that was its last referrer, the '
             'source wrapper gains one; release returns the base only to the sole user of THAT wrapper; the harness frees an '
             'external block only when no wrapper views it; for the sole user of a NULL wrapper "handed back NULL" and "refused" '
             'are both accepted and told apart by the allocator events); unsatisfiable or failed allocations must leave size 0 / data NULL. '
             'A case is distinct by the canonical signature of the object->(buffer,off,len) map with buffer kind/nm/sz and '
             'non-trivial when >= 2 objects are non-empty or some view is partial.'
             ' Plus (harness/huge.c, the library as shipped without sanitizer) untouched library allocations of 2^33 one-byte, 2^30+9 eight-byte, 2^32+2^31+11 one-byte and 3*2^32/12 twelve-byte elements and external (never dereferenced) buffers of 2^40, 2^44 and 2^62 elements: at(i) == base+(off+i)*elem for indices around 2^31/elem and 2^32/elem, at(size) and at(size+2^32) abort, slices starting above 2^32, slice of slice in place, unslice, and the bad slices end < beg (beg above 2^32, end small), past the end, past the end of the buffer from a view.'),
    'assumptions': ['the huge scenarios need 3-12 GiB of free memory; one that the machine cannot back (MemAvailable too small, or the C library refuses the request) is skipped and counted (huge.skipped.*), nothing is concluded from it',
                    'element sizes 0 (zero-sized elements), 1, 2, 3, 4, 8 ...; element counts of 0 also over a real buffer; external buffers are harness blocks of exactly nm*sz bytes, freed by the harness only after a successful release or after the last referrer went away',
                    'array objects are never copied bitwise (individually allocated; cstl_array_init and CSTL_ARRAY_INITIALIZER alternate)',
                    'two separate set() wrappers over one caller-owned block are legal client behaviour (the library cannot know); a second wrapper never describes more bytes than the block has',
                    'requests above the 64 MiB allocator cap count as allocations that fail',
                    'an ALLOC that leaves the object empty without an observed allocator failure is tolerated and counted (alloc.empty-without-failure), as the statement does not forbid it; a SET with a non-NULL buffer and no failed allocation must adopt the buffer (also for nm == 0 or sz == 0): release() is the documented way for the sole user to get its buffer back',
                    'gcc 12 ASan/UBSan runtimes; harness reference model',
                    'dbg-asan keeps the library asserts live; rel-asan is the NDEBUG build as shipped'],
    'runs': [
        {'harness': 'array', 'sources': ['harness/array.c'] + EX, 'configs': both(['dbg-asan', 'rel-asan']),
         # harness TUs only: no ASan fake-stack frames in the harness (a longjmp out of an expected abort would
         # otherwise trigger a fake-stack GC per probe, ~20x slowdown); the library is instrumented as usual
         'cflags': ['--param', 'asan-use-after-return=0'],
         # typical on 16 idle cores: quick ~6 s, thorough ~60-90 s per configuration; generous for a loaded machine
         'watchdog': {'quick': 900, 'thorough': 7200}},
        # objects of 2^31 .. 2^33 elements, the library as shipped (no sanitizer), own oracles (harness/huge.c)
        {'harness': 'huge', 'sources': ['harness/huge.c'], 'mode': 'array', 'configs': both(['rel-huge']), 'workers': 3},
    ],
}

LEVEL = {
    'text': ('Exploration: every reachable state of small scopes (2-4 array objects, up to 3 buffers of 0-3 elements, internal and '
             'external, closure over alloc/set/slice/unslice/reset/release with boundary and wrap-around arguments and allocation '
             'failpoints) plus thousands of seeded random histories of 1000+ calls are executed on the real library under '
             'ASan+UBSan in the assert-enabled and the NDEBUG build. After every call each object is audited against a reference '
             'model: exact element addresses inside a located live allocation, writes through at(), armed abort expectations for '
             'bad indices and bad slices (128-bit bound arithmetic), allocator-event accounting of buffer lifetime, release '
             'semantics, empty object after failed/unrepresentable allocation. Held means: on the executions observed.'),
    'note': 'trusts gcc 12 sanitizer runtimes and the harness reference model; element sizes >= 0; >64 MiB requests are refused by the interposed allocator; objects never copied bitwise',
    'technique': 'runtime monitoring: closure + random workloads, reference-model oracle after every call, allocator/abort interposition, ASan/UBSan',
    'design_ref': 'DESIGN.md section 3 (C14)',
}
