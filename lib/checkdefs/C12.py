from checks import both, EX

CHECK = {
    'level': 'exploration',
    'rule': ('[runs and re-entrancy] sort inputs with run structure (runs of decreasing/increasing/equal length, > 1024 runs, sawtooth, organ pipe; 820..32767 elements, thorough 200000) sorted ascending and descending through priv, in every second case the comparator sorts another list; foreach visitors call size/front/back(/find) and a nested foreach on the same and on another list; every second case runs with an allocator that refuses everything; '
             'closure generator: every operation of the dlist alphabet (push_front/push_back, pop_front/pop_back incl. on '
             'empty, insert-after any member, erase any member, reverse, sort, concat, swap, find FWD/REV for every key '
             'value and one absent key, foreach FWD/REV plain / early stop at every index with a chosen non-zero value of '
             'either sign / visitor that erases+poisons+frees the visited element (one, all, erase-and-stop), clear with a '
             'poisoning+freeing callback) applied in every reachable state of 1-3 lists over a small pool of individually '
             'allocated elements (18 scopes quick, 21 thorough: pools of 4-16 elements, 1-6 key values, list lengths 0..pool), plus seeded random histories with '
             'lists up to ~500 elements. Elements embed two list nodes; part of the scopes and half of the random histories '
             'give the lists different node offsets, with elements linked into a list of each offset at once: swap between '
             'such lists must move contents and offset together, concat between them must change nothing (documented no-op). '
             'After every call: return value against the model, size/front/back, FWD foreach == reference '
             'sequence of element addresses, REV foreach == its mirror (after every single call, closure and random); sort must yield a key-ordered '
             'permutation of the same addresses (stability not demanded; the model adopts the observed order); find must '
             'return the first match in the chosen direction or NULL; foreach must return the first non-zero visit result, '
             'make no visit after it and visit every other element in order when the visited one is removed. A link '
             'walker (n->n->p == n, ring closes at the sentinel, length == size, offset field) runs as a white-box extra under keys '
             'dlist.walker.*. A case is distinct by its signature (per-list key sequences; random: final state x case '
             'index) and non-trivial when >= 2 elements are linked.'),
    'assumptions': ['concat/swap only between distinct lists (concat of lists with different offsets is exercised and expected to do nothing); insert/erase only with members; a foreach visitor removes at most the element it is visiting',
                    'comparison functions are total orders on the key; an element is linked into at most one list per embedded node',
                    'gcc 12 ASan/UBSan runtimes; harness reference model (arrays of element pointers)',
                    'dbg-asan keeps the library asserts live; rel-asan is the NDEBUG -O2 build as shipped'],
    'runs': [
        {'harness': 'dlist', 'sources': ['harness/dlist.c'] + EX, 'configs': both(['dbg-asan', 'rel-asan'])},
    ],
}

LEVEL = {
    'text': ('Exploration: every reachable state of 1-3 doubly-linked lists within a small scope (closure over the full '
             'operation alphabet, lengths 0-16, lists with equal and with different node offsets) plus tens of thousands of seeded random histories (lists up to ~500) are '
             'executed on the real library under ASan+UBSan in the assert-enabled and the NDEBUG build; a reference '
             'sequence is compared with the FWD and REV traversals, front, back, size and every return value after every '
             'call, with a link walker as a white-box extra. Held means: on the executions observed.'),
    'note': 'trusts gcc 12 sanitizer runtimes and the harness reference model; no self-concat/self-swap; a visitor removes only the element it is visiting',
    'technique': 'runtime monitoring: closure + random workloads, both-direction reference-sequence oracle after every call, ASan/UBSan',
    'design_ref': 'DESIGN.md section 3 (C12)',
}
