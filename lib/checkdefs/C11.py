from checks import both

CHECK = {
    'level': 'exploration',
    'rule': ('(a) bounded-exhaustive: every array of length 0..7 over a 4-value key alphabet (thorough 0..8) for all 8 element '
             'sizes, length 8 (thorough 9) for two sizes rotating with the seed, plus longer arrays over 3 values (to 9, '
             'thorough 11), 2 values (to 11, thorough 14) and constant arrays to 14, x selectors {QUICK, QUICK_R, QUICK_M, '
             'HEAP, DEFAULT, 99, -3, 2897234 cast to the enum, and the inline cstl_vector_sort()} x element sizes '
             '{1,2,4,8 (typed cstl_swap paths), 3,5,16,24 (memcpy path)} x {raw array in exact-size heap blocks with a '
             'separate exact-size scratch block, cstl_vector whose scratch slot is index cap of its own block, cap-count '
             'in {0,1,4}}; for QUICK_R additionally every array over 3 (and 4) values up to length 6-7 (thorough 8) x every '
             'tape of the first three rand() draws (harness-defined rand(): tape first, fair PRNG afterwards). '
             'Probes of search/find live in a separate object, in an element of the searched array itself (every index in the small scopes), in an equal array, in the scratch element, one past the searched range; self-referential elements (key read through a pointer the caller\'s swap keeps consistent) through 6 selectors x 2 layouts x both APIs; in every second case the sort/search/find/reverse calls run with an allocator that refuses every request. '
             '(b) adversarial: sorted, reversed, constant, two-valued (random/alternating), organ-pipe, valley, sawtooth, '
             'rotated-by-one, random with many ties, n = 0..1000, ~2048/4096, 20000, 50000 (possibly quadratic '
             'selector/pattern pairs capped at 4096; quick tier runs the biggest lengths in 1 case of 8, rotating with the '
             'seed); almost sorted inputs at n = 64..5000 through every selector and both APIs: an ordered run followed by 1..16 arbitrary elements '
             '(every tail length x {arbitrary, a new strict maximum / minimum in 2nd, 3rd, last trailing position, duplicates of the maximum, only new maxima, only new minima}), '
             'arbitrary elements in front of an ordered run, an ordered run with 1..8 positions overwritten, two and three ordered runs, an ordered run with one element moved far; '
             'elements of 257, 300, 511, 513, 1000, 4097 and 5000 bytes (key at offset 0, 7, 507, 254, 501, 4093, 4096; every byte of the record depends on its tag) with 0..64 '
             'elements through every selector, both APIs, sort + search + find + reverse, the vector block must hold exactly one scratch slot of the element size behind its capacity. '
             '(c) seeded random arrays/selectors/sizes/tapes. After every sort: non-decreasing under the '
             'comparator, byte-wise permutation of the input records via unique tags (multiset for 1-byte records), vector '
             'slack slots untouched; array bytes equal a shadow permuted only by the observed swap calls (element bytes move '
             'through the caller swap only); one raw-array run in three uses a swap function with a private scratch and '
             'tmp == NULL (any library access through tmp crashes); every comparator/swap argument must be an element of [arr, arr+count*size), the '
             'scratch element or (searches) the probe; comparisons capped at 64*n*n+1024 (logical budget). Then binary '
             'search and linear find for every alphabet value and absent values below/between/above (all probes with '
             'selectors QUICK, HEAP and inline; two rotating probes with the others), find on the unsorted input and on '
             'the reversed output (first match required), reverse checked as exact byte-wise mirror; count 0 and 1 '
             'included everywhere. A case is distinct by hash(selector, element size, input bytes) and non-trivial when '
             'n >= 2.'
             ' Plus (harness/swapfn.c) cstl_swap() itself for every size 0..2200, 4095..4097, 8192/8193, 65536/65537 and seeded sizes up to 70000 (thorough 1 MiB): two objects whose patterns differ in every byte and a scratch buffer in exact-size blocks, with guard bytes, at odd addresses, at the end of a block, as neighbouring array elements, called directly, through a function pointer and with compile-time sizes: every byte exchanged, no guard byte changed, no allocator call; cstl_fls() for 0, every power of two +-1, masks, a sweep and random values against a shift-and-count reference.'
             ' Plus (harness/huge.c, the library as shipped without sanitizer) sorted arrays of 2^32+40, 2^31+40 and 1.5*2^30+40 one-byte elements in three runs (10, 20, 30): binary search through the raw-array and the vector API for each run, for absent values below/between/above (result inside the right run or -1, at most 80 comparisons, every comparator argument inside the array or the probe), linear find whose result is above 2^32, reverse of 2^31+40 elements checked as exact mirror.'),
    'assumptions': ['the huge scenarios need 3-12 GiB of free memory; one that the machine cannot back (MemAvailable too small, or the C library refuses the request) is skipped and counted (huge.skipped.*), nothing is concluded from it',
                    'comparison functions are total orders returning any negative/zero/positive int (-1/0/1 and INT_MIN/0/INT_MAX are both used)',
                    'element sizes >= 1',
                    'rand() is interposed by the harness: tape for the first draws, fair xoshiro256** afterwards',
                    'gcc 12 ASan/UBSan runtimes; dbg-asan keeps the library asserts live, rel-asan is the NDEBUG -O2 build'],
    'runs': [
        {'harness': 'sort', 'sources': ['harness/sort.c'], 'cflags': ['-O2'], 'configs': both(['dbg-asan', 'rel-asan'])},
        # cstl_swap() and cstl_fls() themselves: every size 0..2200 and some up to 65537 (thorough 1 MiB), aligned/misaligned/neighbouring objects,
        # guard bytes + red zones (harness/swapfn.c); checks.py adds clang-uchar-asan and rel-native
        {'harness': 'swapfn', 'sources': ['harness/swapfn.c'], 'cflags': ['-O2'], 'configs': both(['rel-asan'])},
        # objects of 2^31 .. 2^33 elements, the library as shipped (no sanitizer), own oracles (harness/huge.c)
        {'harness': 'huge', 'sources': ['harness/huge.c'], 'mode': 'search', 'configs': both(['rel-huge']), 'workers': 3},
    ],
}

LEVEL = {
    'text': ('Exploration: bounded-exhaustive inputs (all arrays up to length 8-9 over 4 key values, longer over 3/2/1 '
             'values, every QUICK_R pivot tape of the first three draws), large adversarial inputs up to 5*10^4 elements '
             'and seeded random arrays are sorted by the real library through every selector (named and out of range), '
             'eight element sizes and both the raw-array and the vector entry points under ASan+UBSan; sortedness, '
             'byte-wise permutation, callback-argument confinement, a logical comparison budget, search/find/reverse '
             'results are checked on every execution. Held means: on the executions observed.'),
    'note': 'trusts gcc 12 sanitizer runtimes and the harness oracle; rand() replaced by a controlled tape + fair PRNG; counts up to 5*10^4 only',
    'technique': 'runtime monitoring: bounded-exhaustive + adversarial + random inputs, callback-argument monitors, ASan/UBSan red zones on exact-size blocks',
    'design_ref': 'DESIGN.md section 3 (C11)',
}
