from checks import both, EX

CHECK = {
    'level': 'exploration',
    'rule': ('closure / bounded-exhaustive generator over shared (<=3), weak (<=3) and unique (<=2) pointer objects: every '
             'operation (alloc size>0 / size 0 into empty or occupied, share a->b, swap, reset, weak_from, weak_lock into '
             'empty/occupied/last-owner-of-the-same, weak_swap, weak_reset, unique alloc/release/swap/reset) applied in every '
             'reachable ownership state up to a depth cap, plus seeded random histories of 40 calls on the full pool; for '
             'every call an ownership model predicts the exact ordered sequence of clear-callback and free events, which must '
             'equal the sequence observed through the callback and the interposed allocator; get()/unique()/lock results and '
             'the number of live library blocks are audited after every call; every history ends by resetting everything '
             '(no live block may remain). Distinct = canonical ownership states (which pointer refers to which allocation, '
             'dead/alive) with >= 2 references. Repetition: 24 cases in which ONE allocation (live / expired; re-targeted; with a crowd of 70 000 weak references) sees 70 000 (thorough 300 000) cycles each of lock+reset, failed lock, share+reset, weak_from+weak_reset, swaps, unique() polls and mixtures, every call under the exact-event oracle, full audit at 2^k and 2^k +- 1; a call that yields 2^20 times single-threaded is a hang. Ownership graphs: managed blocks that embed 1-4 shared pointers and a weak pointer to OTHER allocations and reset them in their clear callback (chains to 400 / 1000 blocks, fans, diamonds, back-pointing weak references; own closure scopes and every random history): the predicted event sequence is nested (an inner block is destroyed inside the outer clear callback, exactly when its last owner is reset).'),
    'assumptions': ['self-share / self-swap (a == b) are outside the domain; every allocation request succeeds (failures are C16)',
                    'documented "destination is reset first" semantics for share/lock/from/alloc',
                    'the managed block is the one get() returns; the other block allocated by shared alloc is the bookkeeping block'],
    'runs': [
        {'harness': 'memory', 'sources': ['harness/memory.c'] + EX, 'configs': both(['dbg-asan', 'rel-asan'])},
    ],
}

LEVEL = {
    'text': ('Exploration: all ownership states of the pool reachable within the depth cap and tens of thousands of random '
             'histories, each call checked against an exact event prediction (never earlier, never later, exactly once) under '
             'ASan+UBSan; evidence lists the named hard orders that were driven.'),
    'note': 'trusts allocator interposition (--wrap), the ownership model and the sanitizer runtimes',
    'technique': 'runtime monitoring: ownership model predicting per-call clear/free event sequences, allocator interposition, ASan',
    'design_ref': 'DESIGN.md section 3 (C05)',
}
