from checks import both

CHECK = {
    'level': 'exploration',
    'rule': ('A: the real cstl_hash_div/cstl_hash_mul are evaluated and compared with m over (i) every k in [0,2^23) '
             '(thorough 2^25) x ~270 boundary table sizes, (ii) one key per single-precision value above 2^25 (quick: every '
             '97th) x 8 sizes, (iii) the keys with the largest fractional part x every float value of the scale factor '
             '(quick: every 257th), using the smallest m that converts to that float, (iv) boundary and random 64-bit pairs, (v) EVERY 32-bit key x 2 (thorough 8) table sizes and 2.7*10^8 (thorough 2*10^9) random 64-bit keys of random magnitude, so that the sweep does not depend on the single-precision structure of the current implementation; '
             'B: a matrix of {insert,find,erase} x {idle, pending with the bad function current, pending with it as the new '
             'function} x bad value {m, m+1, SIZE_MAX, 2^32 + an in-range value, 2^63 + an in-range value} x {bad for every key, the call\'s key, another element\'s key (relocation '
             'path)} x grow/shrink x 4 table sizes, each cell requiring arrival in the library\'s abort() iff the function '
             'returned an out-of-range value during the call; C: random histories on tables using the built-in functions where '
             'any abort is a violation; D: 8512 scripted table lives varying HOW the function came to be in force (direct, kept by one or two NULL resizes, passed again, swapped in from another table, across shrink_to_fit, clear + fresh resize, built-in then caller\'s and vice versa; rehash pending or finished) x the call that consults it (resize forcing the rehash, rehash, foreach, shrink_to_fit, insert, find, erase) x 8 kinds of function incl. key % larger-count (in range when installed, out of range for a later smaller count / for the old count still being swept): each call must abort iff a value >= the m it was called with arose. A6: keys adversarial for multiplicative hashing at any precision x 271 table sizes: all Fibonacci and Lucas numbers < 2^64 with multiples <= 64 and neighbours; +-j * A^-1 mod 2^b (j <= 4096) for 61 fixed-point golden multipliers (64-, 32-, 16-bit constants and floor/ceil(phi*2^b)); continued-fraction record keys of phi at float/double/long double/128-bit precision and of the library\'s literal, scaled into every magnitude 2^20..2^63; a sample lives in real tables (27 cases). Distinct = input slices and matrix cells in which the bad value arose.'),
    'assumptions': ['IEEE-754 single precision, round-to-nearest (the build platform); UBSan float-cast-overflow enabled',
                    'the range sweep is exhaustive over the scale factor only for the keys with the largest observed fractional parts (DESIGN section 7)',
                    'arrival in abort() is observed by link-time interposition (--wrap=abort); ASan red zone directly behind the exact-size bucket array'],
    'runs': [
        {'harness': 'hashrange', 'sources': ['harness/hashrange.c'], 'configs': both(['rel-asan'], ['rel-asan', 'dbg-asan'])},
    ],
}

LEVEL = {
    'text': ('Exploration by execution: range clause checked on >10^9 (quick) real evaluations incl. exhaustive small keys and '
             'float-grid sweeps; fail-stop clause checked on every cell of the entry x rehash-state x bad-value x path matrix '
             'under ASan with the abort interposed. Held = on the inputs evaluated.'),
    'note': 'trusts the compiler\'s float semantics being those of the shipped build (-O2 release flags in rel-asan), --wrap=abort, ASan',
    'technique': 'runtime monitoring: range oracle over enumerated/grid inputs + expected-abort matrix under ASan/UBSan',
    'design_ref': 'DESIGN.md section 3 (C17)',
}
