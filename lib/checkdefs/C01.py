from checks import both, EX

CHECK = {
    'level': 'exploration',
    'rule': ('[hints, big fills, re-entrancy] parent hints are also taken in batches and used after further finds and read-only calls (the oldest hint of the batch); red-black fills of 2^18+5000 (thorough 2^20+5000) descending / ascending / alternating / run-wise keys with the rules walker at every power of two and paths of more than 32 turns; traversal visitors call size/find/height and nested traversals on the same and another tree; comb-shaped deep trees; every second case runs with an allocator that refuses everything; '
             'closure generator over small scopes (one or two trees, pool of 4-12 elements over 2-7 key values, so many '
             'elements compare equal), separately for cstl_bintree_* and cstl_rbtree_*: insert unhinted, insert hinted with '
             'the parent reported by an immediately preceding find of the same key (key absent: would-be parent; key present: '
             'parent of the match, NULL when the match is the root), erase by probe for every key, clear and swap are applied in '
             'every reachable state; in every newly reached state every find (with and without par, incl. keys below/above all '
             'held ones) and FWD and REV foreach with the visitor stopping at every possible callback index are run. In the '
             '"two-offsets" scopes the two trees link elements through different embedded nodes (an element can be held by '
             'both), so swap has to carry the node offset. Plus seeded random histories (2000-6000 calls, pools of 3-256 '
             'elements, 1-64 key values, ascending/descending/organ-pipe/random fill phases and alternating/ascending/'
             'descending/random drain phases), plus 2 (quick) / 8 (thorough) deep degenerate plain trees: a spine of 4200-6000 '
             'ascending or descending keys (optionally with equal keys) with zig-zag children below depth 4100, then finds, '
             'erases and early-stop traversals down there. After every call the return value is compared with a reference multiset of '
             'element addresses; erased elements are poisoned and freed; the full audit (size, FWD+REV traversal with '
             'per-element PRE/MID/POST/LEAF state machine and monotonicity, link walker) runs after every call in closure mode '
             'and every 16th call in random mode. A case is distinct by the tree signature (shape + key per node, + colour for '
             'the red-black tree) and non-trivial when >= 2 elements are held; the same tree reached in two different closure '
             'scopes counts once per scope.'),
    'assumptions': ['comparison function is a total order on a small integer key (its result magnitude varies between cases)',
                    'hinted inserts: hint = the par out-parameter of a find of the same key with no mutation in between, other read-only calls allowed (found or '
                    'not), no mutation in between, as documented in bintree.h/rbtree.h',
                    'a library call that consumes 10 s of CPU time (not wall clock) without returning is reported as a hang',
                    'clear is always given a non-NULL callback',
                    'gcc 12 ASan/UBSan runtimes; harness reference model (unordered array of element pointers + per-key counts)',
                    'dbg-asan keeps the library asserts live; rel-asan is the NDEBUG build as shipped'],
    'runs': [
        {'harness': 'trees', 'mode': 'order', 'sources': ['harness/trees.c'] + EX,
         'configs': both(['dbg-asan', 'rel-asan']),
         # typical (idle, 16 cores): quick 3-5 s, thorough 70-90 s per configuration; generous because verdicts never depend on it
         'watchdog': {'quick': 1800, 'thorough': 7200}},
        # thorough only: the shipped (NDEBUG, -O2) build under valgrind memcheck with element nodes marked undefined;
        # the harness polls VALGRIND_COUNT_ERRORS after every operation (key <type>.memcheck.error)
        {'harness': 'trees', 'mode': 'order-mc', 'sources': ['harness/trees.c'] + EX,
         'configs': both([], ['rel-plain']), 'watchdog': {'quick': 1800, 'thorough': 7200}},
    ],
}

LEVEL = {
    'text': ('Exploration: every reachable tree state of several small scopes (closure over insert/hinted insert/erase/clear/'
             'swap, up to 7-12 elements quick / 8-20 thorough over 1-7 key values, both tree types, incl. two trees linking through different embedded nodes) plus thousands of seeded random '
             'histories with heavy key duplication are executed on the real library under ASan+UBSan in the assert-enabled and '
             'the NDEBUG build; find/erase/size results are compared with a reference multiset of element addresses after every '
             'call, traversals in both directions (and with every possible early stop in the small scopes) are checked for '
             'exactly-once, bracketing, order and stop value. Held means: on the executions observed.'),
    'note': 'trusts gcc 12 sanitizer runtimes and the harness reference model; total-order comparator; hints from a find of the same key with no mutation of the tree in between (other finds and read-only calls may intervene)',
    'technique': 'runtime monitoring: closure + random workloads, reference-multiset oracle after every call, traversal monitor, link walker, ASan/UBSan',
    'design_ref': 'DESIGN.md section 3 (C01)',
}
