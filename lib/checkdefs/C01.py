from checks import both, EX

CHECK = {
    'level': 'exploration',
    'rule': ('closure generator over small scopes (one or two trees, pool of 4-9 elements over 1-4 key values, so most '
             'elements compare equal), separately for cstl_bintree_* and cstl_rbtree_*: insert unhinted, insert hinted with '
             'the parent reported by an immediately preceding find that missed, erase by probe for every key, clear and swap '
             'are applied in every reachable state; in every newly reached state every find (with and without par, incl. keys '
             'below/above all held ones) and FWD and REV foreach with the visitor stopping at every possible callback index are '
             'run. Plus seeded random histories (2000-6000 calls, pools of 3-256 elements, 1-64 key values, ascending/'
             'descending/organ-pipe/random fill phases and alternating/ascending/descending/random drain phases). After every '
             'call the return value is compared with a reference multiset of element addresses; erased elements are poisoned '
             'and freed; the full audit (size, FWD+REV traversal with per-element PRE/MID/POST/LEAF state machine and '
             'monotonicity, link walker) runs after every call in closure mode and every 16th call in random mode. A case '
             'is distinct by the tree signature (shape + key per node, + colour for the red-black tree) and non-trivial '
             'when >= 2 elements are held; the same tree reached in two different closure scopes counts once per scope.'),
    'assumptions': ['comparison function is a total order on a small integer key (its result magnitude varies between cases)',
                    'hinted inserts follow the protocol of cstl_map_insert: hint = the par out-parameter of an immediately '
                    'preceding find of the same key that returned NULL, no mutation in between',
                    'clear is always given a non-NULL callback',
                    'gcc 12 ASan/UBSan runtimes; harness reference model (unordered array of element pointers + per-key counts)',
                    'dbg-asan keeps the library asserts live; rel-asan is the NDEBUG build as shipped'],
    'runs': [
        {'harness': 'trees', 'mode': 'order', 'sources': ['harness/trees.c'] + EX,
         'configs': both(['dbg-asan', 'rel-asan'])},
        # thorough only: the shipped (NDEBUG, -O2) build under valgrind memcheck with element nodes marked undefined;
        # the harness polls VALGRIND_COUNT_ERRORS after every operation (key <type>.memcheck.error)
        {'harness': 'trees', 'mode': 'order-mc', 'sources': ['harness/trees.c'] + EX,
         'configs': both([], ['rel-plain'])},
    ],
}

LEVEL = {
    'text': ('Exploration: every reachable tree state of several small scopes (closure over insert/hinted insert/erase/clear/'
             'swap, up to 7 elements quick / 9-10 thorough over 1-4 key values, both tree types) plus thousands of seeded random '
             'histories with heavy key duplication are executed on the real library under ASan+UBSan in the assert-enabled and '
             'the NDEBUG build; find/erase/size results are compared with a reference multiset of element addresses after every '
             'call, traversals in both directions (and with every possible early stop in the small scopes) are checked for '
             'exactly-once, bracketing, order and stop value. Held means: on the executions observed.'),
    'note': 'trusts gcc 12 sanitizer runtimes and the harness reference model; total-order comparator; hints only from a find that missed',
    'technique': 'runtime monitoring: closure + random workloads, reference-multiset oracle after every call, traversal monitor, link walker, ASan/UBSan',
    'design_ref': 'DESIGN.md section 3 (C01)',
}
