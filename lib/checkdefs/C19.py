from checks import both, EX

CHECK = {
    'level': 'exploration',
    'rule': ('[keys and shapes] a fourth key family of boundary keys (0, 1, SIZE_MAX, SIZE_MAX-1, 2^63+-1, 2^32+-1, 2^31 ...) in own closure scopes and a quarter of the random histories, tracked as FIRST key after init / resize / completed rehash / clear; exact doublings 3->6, 5->10, 7->14, 6->12, 4->8; cstl_hash_div/mul passed directly; visitors of find/foreach/foreach_const call size/load and a nested foreach_const on the same table and work a bystander table; everything but resize/shrink_to_fit runs with a refusing allocator in every second case; '
             '[work as memory touched] on tables of 2^15..2^17 buckets (bucket array of hundreds of pages) every keyed call of an incremental rehash -- including the call that completes it, after an odd and an even number of earlier rehashes -- runs with the pages of the bucket array access-protected; a SIGSEGV handler counts and re-opens each page touched: at most 64 pages per call (7 observed), whatever the table size (configuration rel-native); [nearly empty big table] the last three elements of a 2^15..2^17-bucket table with a pending resize are erased under the page monitor (also the erase that empties the table); [forced finish] a further resize far beyond the capacity while a grow is partly worked off; later lives of the table object (clear, large first resize, fill, geometry change) after odd and even numbers of resizes; on tables of 3000..16384 buckets a resize is followed by 1100..3600 keyed calls and then the rehash is forced to finish by rehash / foreach / a further resize / shrink_to_fit: every element is found and enumerated once afterwards; '
             'single-table and two-table closure over resize requests (grow, shrink, same size with another function, back '
             'to the previous geometry, repeated, f=NULL) interleaved with keyed calls on unique keys, every hash function '
             'wrapped by a logging trampoline; oracles: load == size/n right after each satisfiable resize; per keyed call the '
             'consultation log is split into lookups and relocations, a shadow element->bucket map gives the number of '
             'distinct source buckets relocated by one call (<= 3); after as many keyed calls as there were buckets (or after '
             'rehash()) every keyed call must consult exactly once, with the requested size and function; white-box '
             'cross-check of sweep index / clean bits under separate keys. Plus random histories with resize storms. '
             'Distinct = table-state signatures incl. the model\'s progress counter, >= 2 live elements.'),
    'assumptions': ['unique keys (C03 covers duplicates); requests small enough to be satisfiable',
                    'the first resize of a table names a function explicitly (the default cstl_hash_mul cannot be logged)',
                    'relocations are recognised as consultations of the new geometry for keys of live elements'],
    'runs': [
        {'harness': 'hash', 'mode': 'incr', 'sources': ['harness/hash.c'] + EX, 'configs': both(['dbg-asan', 'rel-asan'], ['dbg-asan', 'rel-asan', 'rel-plain']),
         # quick: the release build (what is shipped: -O2 -DNDEBUG) on the closure scopes and the first random histories
         'max_cases': {'rel-asan': {'quick': 260}}},
        # work bound observed as memory touched (page-protection monitor on the bucket array, needs the real page layout: rel-native)
        # and forced finishes after partial incremental progress on tables of thousands of buckets
        {'harness': 'hashwork', 'sources': ['harness/hashwork.c'], 'configs': both(['rel-native', 'rel-asan'])},
    ],
}

LEVEL = {
    'text': ('Exploration: all reachable (table, progress) states of the scope with second and third resizes arriving at '
             'every sweep position, decided at the boundary from the hash-function call log and cstl_hash_load; bounded '
             'progress form of "finishes": after no more keyed calls than there were buckets each lookup is a single '
             'consultation of the requested geometry.'),
    'note': 'trusts the logging trampolines (pure wrappers), the shadow map reconstruction and the sanitizer runtimes',
    'technique': 'runtime monitoring: call-log monitor (hash consultations) + shadow bucket map + load oracle over closure/random workloads',
    'design_ref': 'DESIGN.md section 3 (C19)',
}
