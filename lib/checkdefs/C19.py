from checks import both, EX

CHECK = {
    'level': 'exploration',
    'rule': ('single-table and two-table closure over resize requests (grow, shrink, same size with another function, back '
             'to the previous geometry, repeated, f=NULL) interleaved with keyed calls on unique keys, every hash function '
             'wrapped by a logging trampoline; oracles: load == size/n right after each satisfiable resize; per keyed call the '
             'consultation log is split into lookups and relocations, a shadow element->bucket map gives the number of '
             'distinct source buckets relocated by one call (<= 3); after as many keyed calls as there were buckets (or after '
             'rehash()) every keyed call must consult exactly once, with the requested size and function; white-box '
             'cross-check of sweep index / clean bits under separate keys. Plus random histories with resize storms. '
             'Distinct = table-state signatures incl. the model\'s progress counter, >= 2 live elements.'),
    'assumptions': ['unique keys (C03 covers duplicates); requests small enough to be satisfiable',
                    'the first resize of a table names a function explicitly (the default cstl_hash_mul cannot be logged)',
                    'relocations are recognised as consultations of the new geometry for keys of live elements'],
    'runs': [
        {'harness': 'hash', 'mode': 'incr', 'sources': ['harness/hash.c'] + EX, 'configs': both(['dbg-asan', 'rel-asan'], ['dbg-asan', 'rel-asan', 'rel-plain']),
         # quick: the release build (what is shipped: -O2 -DNDEBUG) on the closure scopes and the first random histories
         'max_cases': {'rel-asan': {'quick': 260}}},
    ],
}

LEVEL = {
    'text': ('Exploration: all reachable (table, progress) states of the scope with second and third resizes arriving at '
             'every sweep position, decided at the boundary from the hash-function call log and cstl_hash_load; bounded '
             'progress form of "finishes": after no more keyed calls than there were buckets each lookup is a single '
             'consultation of the requested geometry.'),
    'note': 'trusts the logging trampolines (pure wrappers), the shadow map reconstruction and the sanitizer runtimes',
    'technique': 'runtime monitoring: call-log monitor (hash consultations) + shadow bucket map + load oracle over closure/random workloads',
    'design_ref': 'DESIGN.md section 3 (C19)',
}
