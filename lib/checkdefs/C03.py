from checks import both, EX

CHECK = {
    'level': 'exploration',
    'rule': ('[keys and shapes] a fourth key family of boundary keys (0, 1, SIZE_MAX, SIZE_MAX-1, 2^63+-1, 2^32+-1, 2^31 ...) in own closure scopes and a quarter of the random histories, tracked as FIRST key after init / resize / completed rehash / clear; exact doublings 3->6, 5->10, 7->14, 6->12, 4->8; cstl_hash_div/mul passed directly; visitors of find/foreach/foreach_const call size/load and a nested foreach_const on the same table and work a bystander table; everything but resize/shrink_to_fit runs with a refusing allocator in every second case; '
             'closure generator over hash-table states: every operation of the alphabet (insert, find with no/rejecting/'
             'accepting visitor, erase of a member / of a non-member object, resize to 0..B buckets with NULL or one of two '
             'hash functions incl. while a rehash is pending, rehash, shrink_to_fit, swap) applied in every reachable table '
             'state of a small scope (signature = element count, bucket count, capacity, pending geometry, sweep index, '
             'per-bucket clean bit and key chain), each new state audited on a replica (rejecting-visitor find of every key '
             'must offer exactly the live elements of that key once each); plus seeded random histories with up to 512 '
             'elements, 6 hash functions and resize storms. Distinct = table-state signatures, non-trivial when >= 2 '
             'elements are live.'),
    'assumptions': ['tables get a successful resize before keyed use; erase only on objects whose key field is initialised',
                    'hash functions are pure and in range (out-of-range functions are C17)',
                    'bucket counts stay far below the point where sizeof(bucket)*n wraps (outside the stated properties)',
                    'gcc 12 ASan/UBSan runtimes; harness model = set of live element addresses per table'],
    'runs': [
        {'harness': 'hash', 'mode': 'lookup', 'sources': ['harness/hash.c'] + EX, 'configs': both(['dbg-asan', 'rel-asan'], ['dbg-asan', 'rel-asan', 'rel-plain']),
         # quick: the release build (what is shipped: -O2 -DNDEBUG) on the closure scopes and the first random histories
         'max_cases': {'rel-asan': {'quick': 260}}},
        # big tables: forced finishes after partial progress, later lives of a table object with large first resizes (harness/hashwork.c)
        {'harness': 'hashwork', 'sources': ['harness/hashwork.c'], 'configs': both(['rel-native', 'rel-asan'])},
    ],
}

LEVEL = {
    'text': ('Exploration: every reachable table state of the stated small scopes (all stages of grow/shrink/re-function '
             'sweeps, second resize while pending) is produced by real executions under ASan+UBSan and audited against a '
             'set model after every call and by a full per-key audit on a replica; random histories extend beyond the scope. '
             'Held = on the executions observed; the evidence lists states and keyed calls per rehash phase.'),
    'note': 'trusts sanitizer runtimes and the set model; white-box reads of the table struct are used only for the state signature/coverage',
    'technique': 'runtime monitoring: closure + random workloads, set-model oracle per call, replica audits, ASan/UBSan',
    'design_ref': 'DESIGN.md section 3 (C03)',
}
