from checks import both

CHECK = {
    'level': 'exploration',
    'rule': ('systematic matrix: for every element size {1,2,3,4,8,16,24,64} x constructor/destructor mode {none, both, '
             'constructor only, destructor only, THE SAME function in both roles (classified from the slot\'s own state), roles reversed between two vectors} x start state {never allocated, empty with buffer, cap == size, cap > size} '
             'x {small, few-hundred} contents x {reserve, resize} x every argument class {0, 1, in range, size-1, size, '
             'size+1, cap, cap+1, small, hundreds, large satisfiable, largest below the 64 MiB allocator cap, first above it, '
             'above it, SIZE_MAX/elem-1, SIZE_MAX/elem, SIZE_MAX/elem+1, (n+1)*elem wrapping to a small byte count, 2^62, '
             '2^63, SIZE_MAX-1, SIZE_MAX} x {allocator normal, every allocation request fails} one call followed by '
             'at/at_const of the same value, sort, reverse, resize(size+1), shrink_to_fit, resize(size-2), reserve(SIZE_MAX), '
             'clear, re-use; plus swap cells: two DIFFERENTLY initialised vectors (element size x element size x start '
             'state x start state x four constructor/destructor pairings, each with its own priv) are swapped (both '
             'argument orders), then each is grown, sorted, reversed, probed, shrunk, swapped back, cleared; plus seeded '
             'random histories (200-1500 calls) over one or two vectors (independent element size and xtor mode) mixing resize, reserve, '
             'shrink_to_fit, clear, swap, sort (all algorithms), reverse, at, at_const with the same argument classes and '
             'occasional failpoints. After EVERY call: size() equals the reference; cap >= size; data() is a live block '
             'allocated by the library whose requested size is >= (cap+1)*elem in 128-bit arithmetic (NULL only with '
             'cap == 0); no two vectors share a block; live library blocks == vectors with a buffer; every in-range element '
             'is fetched through at() and at_const() (must not abort, must be data()+i*elem), compared with the reference '
             'byte image (elements staying in range keep their bytes across reallocation; after sort the image is the '
             'sorted multiset, after reverse the mirrored one), overwritten through at() and read back (ASan red zones); '
             'spare capacity and the scratch slot are scribbled over; at()/at_const() of size, size+1, cap, cap+1, 2^62, '
             '2^63, SIZE_MAX-1, SIZE_MAX and of indices whose i*elem wraps into the buffer must abort. reserve: never '
             'aborts; a request the allocator cannot satisfy (byte count > 64 MiB, unrepresentable, or failpoint) leaves '
             'size, capacity and data() untouched; one it can satisfy ends with cap >= request. resize: a request that '
             'cannot be satisfied must abort, with no constructor/destructor call and size/cap/data() unchanged, and the '
             'vector is fully re-audited after the abort; one that can must not abort. Constructor/destructor wrappers '
             'check priv, slot address == data()+i*elem at the time of the call, i inside the entering/leaving range, the '
             'slot state machine dead->live->dead, and the per-call count; the destructor also checks that the element '
             'still holds its bytes. clear destroys every element and the live library block count drops by the buffer. '
             'swap exchanges the whole object, so the reference exchanges byte image, element size, xtor mode, slot '
             'liveness and priv identity; every audit afterwards uses the NEW element size (at(i) == data()+i*elem, '
             'storage >= (cap+1)*elem, constructor/destructor slot and priv). '
             'A case is distinct by (element size, operation, argument class, state class before the call; for swap: both '
             'element sizes, both state classes, argument order); all are '
             'non-trivial.'
             ' Plus (harness/huge.c, the library as shipped without sanitizer) vectors of 2^31+12 and (thorough) 2^32+12 one-byte elements with constructor/destructor: call counts equal the number of elements entering/leaving for grow, shrink, re-grow inside the capacity and clear, every element scanned for its constructed/destroyed mark; and untouched vectors of 1/8/24-byte elements whose byte size passes 2^32 and 2^34: at(i) == data()+i*elem for indices around 2^31 and 2^32, at(size) and at(size+2^32) abort, storage is a live block of >= capacity*elem bytes, shrink_to_fit and swap keep the geometry.'),
    'assumptions': ['the huge scenarios need 3-12 GiB of free memory; one that the machine cannot back (MemAvailable too small, or the C library refuses the request) is skipped and counted (huge.skipped.*), nothing is concluded from it',
                    'the allocator refuses every request above 64 MiB (vrt_alloc_cap); failpoints make every allocation request fail for one call',
                    'element counts that are really constructed stay <= 4096; one real 64 MiB reserve per matrix cell',
                    'swap only between two distinct vector objects (never self-swap); they may differ in element size, constructor/destructor and priv',
                    'the comparison function is memcmp over the element bytes (a total order), so the sorted image is unique',
                    'shrink_to_fit, sort, reverse, swap, clear are not expected to abort (an abort there is reported as unexpected)',
                    'a request below the allocator cap that the real allocator nevertheless fails (genuine out-of-memory, counted as alloc.genuine-out-of-memory) is treated as one that cannot be satisfied',
                    'rand() is defined by the harness (case-seeded) so that the randomised quicksort is reproducible',
                    'gcc 12 ASan/UBSan runtimes; harness reference model (byte image + per-slot live flag)',
                    'stack-use-after-return instrumentation is disabled for the harness/runtime translation units only (cost of longjmp out of expected aborts); library code keeps it',
                    'dbg-asan keeps the library asserts live; rel-asan is the NDEBUG build as shipped'],
    'runs': [
        # the abort probes longjmp out of the library ~50 times per audited call; with ASan's fake stacks
        # (detect_stack_use_after_return) every longjmp forces a fake-stack GC (~40 us).  The harness and
        # runtime TUs are therefore compiled without fake-stack frames; the library TUs keep them.
        {'harness': 'vector', 'sources': ['harness/vector.c'], 'configs': both(['dbg-asan', 'rel-asan']),
         'cflags': ['--param', 'asan-use-after-return=0']},
        # objects of 2^31 .. 2^33 elements, the library as shipped (no sanitizer), own oracles (harness/huge.c)
        {'harness': 'huge', 'sources': ['harness/huge.c'], 'mode': 'vector', 'configs': both(['rel-huge']), 'workers': 3},
    ],
}

LEVEL = {
    'text': ('Exploration: a full matrix of element size x constructor mode x start state x {reserve, resize} x 22 boundary '
             'argument classes (up to SIZE_MAX, around SIZE_MAX/elem and around the 64 MiB allocator cap) x failpoint, plus '
             'thousands of seeded random histories, executed on the real library under ASan+UBSan in the assert-enabled and '
             'the NDEBUG build. After every call the vector is audited through its public API against a byte-image '
             'reference and against the intercepted allocator table ((cap+1)*elem computed in 128 bits), with expected '
             'aborts captured and the state re-audited afterwards, and constructor/destructor calls checked per slot. '
             'Held means: on the executions observed.'),
    'note': 'trusts gcc 12 sanitizer runtimes, the allocator interposition table and the harness reference model; allocator cap 64 MiB stands for "cannot be satisfied"',
    'technique': 'runtime monitoring: systematic boundary matrix + random histories, reference-image oracle after every call, allocator/abort interposition, ASan/UBSan',
    'design_ref': 'DESIGN.md section 3 (C09)',
}
