from checks import both, EX

CHECK = {
    'level': 'exploration',
    'rule': ('[hints, big fills, re-entrancy] parent hints are also taken in batches and used after further finds and read-only calls (the oldest hint of the batch); red-black fills of 2^18+5000 (thorough 2^20+5000) descending / ascending / alternating / run-wise keys with the rules walker at every power of two and paths of more than 32 turns; traversal visitors call size/find/height and nested traversals on the same and another tree; comb-shaped deep trees; every second case runs with an allocator that refuses everything; '
             'closure generator over small scopes of cstl_rbtree (6-24 elements over 1-9 key values; unhinted insert, hinted '
             'insert (key absent or present) and erase for every key applied in every reachable state, the state signature being '
             'shape + key + colour per node; one scope has two trees linking through different embedded nodes plus swap), plus seeded random histories with heavy duplication on pools of 8-4096 elements with ascending/'
             'descending/organ-pipe/random fills and alternating/ascending/descending/random drains. After every insert and '
             'erase (every 8th above 256 elements, and at every phase boundary) a walker over the header-visible c/p/l/r fields '
             'checks: root black, no red node with a red child, equal black count below both children of every node (i.e. for '
             'every missing-child slot), child->p == parent, reachable nodes == size == reference count, and '
             'cstl_rbtree_height max == longest path walked with 2^max <= (n+1)^2. Before each erase the walker classifies the '
             'situation (children of the erased node, colour of the removed position, sibling colour, nephew colours, level of '
             'the repair loop); the counters erase.rb.* / insert.rb.* show the textbook cases driven. A case is distinct by '
             'the (shape, key, colour) signature and non-trivial when >= 2 elements are held; the same tree reached in two different closure scopes counts once per scope.'),
    'assumptions': ['comparison function is a total order on a small integer key',
                    'hinted inserts only with the parent reported by a find of the same key (found or not), no mutation in between (other finds and read-only calls may intervene)',
                    'a library call that consumes 10 s of CPU time (not wall clock) without returning is reported as a hang',
                    'the erase/insert case classification is computed from header-visible fields before the call and is evidence only, never an oracle',
                    'gcc 12 ASan/UBSan runtimes; dbg-asan keeps the library asserts live; rel-asan is the NDEBUG build as shipped'],
    'runs': [
        {'harness': 'trees', 'mode': 'rb', 'sources': ['harness/trees.c'] + EX,
         'configs': both(['dbg-asan', 'rel-asan']),
         # typical (idle, 16 cores): quick 3-5 s, thorough 70-90 s per configuration; generous because verdicts never depend on it
         'watchdog': {'quick': 1800, 'thorough': 7200}},
    ],
}

LEVEL = {
    'text': ('Exploration: all red-black trees (shape, keys and colouring) reachable by inserts and erases within several small '
             'scopes are explored to closure, and thousands of seeded random histories drive trees of up to 4096 elements with '
             'heavy key duplication; after every insert and erase a structural walker checks the red-black rules for every '
             'missing-child slot, the parent links, the node count and the cstl_rbtree_height bound, under ASan+UBSan in the '
             'assert-enabled and the NDEBUG build. Held means: on the executions observed.'),
    'note': 'trusts gcc 12 sanitizer runtimes; structural oracle reads the colour/link fields declared in the public headers',
    'technique': 'runtime monitoring: closure + random workloads, structural walker after every mutating call, ASan/UBSan',
    'design_ref': 'DESIGN.md section 3 (C02)',
}
