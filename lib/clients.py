def run_pipeline(pid, tier, seed, repo, broot):
    raise NotImplementedError
def replay(rp, repo, broot):
    raise NotImplementedError
