"""C18 pipeline: public headers are usable by client programs that link the library.

The "execution" monitored here is compile -> link -> load -> run of generated client
programs against libcstl.a / libcstl.so as produced by the project's own `make build`
(run in a scratch copy of the working tree).  See DESIGN.md section 3, entry C18.

Entry points used by ./check:
    run_pipeline(pid, tier, seed, repo, broot) -> result dict (harness-result shaped)
    replay(rp, repo, broot)                    -> 1 if the stored configuration still fails

What is generated (everything derived from the CURRENT tree under `repo`):
  * bare TUs (`#include "cstl/x.h"` only) for every header alone and all headers together,
    compiled with `gcc -aux-info`: the compiler's own list of declared functions;
  * client TUs for every header alone / every ordered pair / all headers in several orders
    (thorough: + a seeded sample of ordered triples, -O0 and -O2, both TU link orders), as one
    TU and as two TUs that both include the headers; every client TU stores the address of
    every function (extern prototypes AND static inline definitions) that the included headers
    themselves declare into a volatile table (externs pull the library member in, inlines get
    their body instantiated) and runs a small per-header "use" snippet (clients/use_<h>.c);
  * an address-of-everything client over all headers, also built with ASan+UBSan;
  * nm cross-checks of libcstl.a / libcstl.so against the declared list and of every client
    object against "defines a global symbol it should not".
"""
import itertools
import json
import os
import random
import re
import shutil
import signal
import subprocess
import sys
import tempfile
import time
from concurrent.futures import ThreadPoolExecutor

VERIF = os.path.dirname(os.path.dirname(os.path.abspath(__file__)))
TPL = os.path.join(VERIF, 'clients')
WORKERS = 16
# the project's flags for clients + -pedantic-errors: diagnostics ISO C99 requires (constraint violations) are
# errors; ordinary -Wall/-Wextra warnings stay counters
CLIENT_CFLAGS = ['-Wall', '-Wextra', '-std=c99', '-pedantic', '-pedantic-errors', '-D_POSIX_C_SOURCE=199309L']
PP_CFLAGS = ['-std=c99', '-D_POSIX_C_SOURCE=199309L']
PUBLIC_MACRO = re.compile(r'^(DECLARE_CSTL_|CSTL_)')
# What the CLIENT's compiler flags are is the client's business: optimisation levels and common code-generation / feature
# flags change predefined macros (__OPTIMIZE__, __OPTIMIZE_SIZE__, __NO_INLINE__, __FAST_MATH__, __PIC__, _REENTRANT,
# __CHAR_UNSIGNED__, _FORTIFY_SOURCE ...) that a header may key on.  The all-headers address-table client is built with each.
FLAG_SWEEP = ['-Os', '-O1', '-O3', '-Og', '-Ofast', '-O2 -D_FORTIFY_SOURCE=2', '-O2 -fPIC', '-O2 -fPIE', '-O2 -pthread',
              '-O2 -funsigned-char', '-O2 -fno-inline', '-O2 -ffast-math', '-O2 -fgnu89-inline', '-O2 -fno-common',
              '-O0 -DNDEBUG', '-O2 -DNDEBUG']


def optname(opt):
    return re.sub(r'[^A-Za-z0-9_=-]+', '', opt)
SAN = ['-g', '-fsanitize=address,undefined', '-fno-sanitize=nonnull-attribute',
       '-fno-sanitize-recover=all', '-fno-omit-frame-pointer']
EXCLUDED_HEADERS = ('_string.h',)       # guard-less template instantiated by string.h
TIMEOUT_RC = -999
N_TRIPLES = 200
OWN_GLOBALS = ('main', 'c18_tu2')
SAN_SYM = re.compile(r'(__odr_asan|__asan|__ubsan|__sanitizer|__lsan|_GLOBAL__)')   # instrumentation artefacts in -fsanitize objects
INFRA_PAT = re.compile(r'internal compiler error|No space left on device|Cannot allocate memory|'
                       r'cannot execute|Killed signal|out of memory allocating|ld: final link failed: No space')


def log(*a):
    print(*a, file=sys.stderr, flush=True)


def base_env():
    env = dict(os.environ)
    for k in ('MAKEFLAGS', 'MFLAGS', 'MAKELEVEL', 'ASAN_OPTIONS', 'UBSAN_OPTIONS', 'LSAN_OPTIONS',
              'LD_BIND_NOW', 'LD_PRELOAD', 'LD_LIBRARY_PATH', 'CFLAGS', 'LDFLAGS', 'CC', 'AR',
              'C_INCLUDE_PATH', 'CPATH', 'LIBRARY_PATH'):
        env.pop(k, None)
    env['LC_ALL'] = 'C'
    return env


def sh(cmd, env=None, cwd=None, timeout=300):
    """returns (rc, merged output); rc < 0: killed by signal -rc; TIMEOUT_RC: timed out"""
    try:
        p = subprocess.run(cmd, stdout=subprocess.PIPE, stderr=subprocess.STDOUT, env=env or base_env(),
                           cwd=cwd, timeout=timeout, errors='replace', text=True)
        return p.returncode, p.stdout
    except subprocess.TimeoutExpired as e:
        out = e.stdout if isinstance(e.stdout, str) else (e.stdout or b'').decode('utf-8', 'replace')
        return TIMEOUT_RC, out + '\n[timeout after %ds]' % timeout
    except OSError as e:
        return 127, 'cannot execute %s: %s' % (cmd[0], e)


def cmdstr(cmd, env_extra=None):
    pre = ''.join('%s=%s ' % kv for kv in sorted((env_extra or {}).items()))
    return pre + ' '.join(cmd)


def hname(h):
    return h[:-2] if h.endswith('.h') else h


def hjoin(headers):
    return '+'.join(hname(h) for h in headers)


# --------------------------------------------------------------------------- project build

def build_project(repo, scratch, verbose=False):
    """copy Makefile, src, include, benches -> scratch; make build.  returns (ok, message)"""
    for d in ('src', 'include', 'benches'):
        if os.path.isdir(os.path.join(repo, d)):
            shutil.copytree(os.path.join(repo, d), os.path.join(scratch, d), symlinks=False)
    for need in ('Makefile', 'src', 'include'):
        if not os.path.exists(os.path.join(repo, need)):
            return False, 'working tree %s has no %s: cannot run the project build' % (repo, need)
    shutil.copy2(os.path.join(repo, 'Makefile'), os.path.join(scratch, 'Makefile'))
    os.makedirs(os.path.join(scratch, 'build', 'test'), exist_ok=True)
    os.makedirs(os.path.join(scratch, 'build', 'benches'), exist_ok=True)
    cmd = ['make', '-j%d' % WORKERS, 'build']
    rc, out = sh(cmd, cwd=scratch, timeout=600)
    if verbose:
        log('$ (cd %s && %s)  -> rc %d' % (scratch, ' '.join(cmd), rc))
    a = os.path.join(scratch, 'build', 'libcstl.a')
    so = os.path.join(scratch, 'build', 'libcstl.so')
    if rc != 0 or not os.path.exists(a) or not os.path.exists(so):
        why = 'project `make build` failed in a scratch copy of %s (rc %d)' % (repo, rc)
        m = re.search(r'^(\S+\.[ch]):\d+:\d+: (?:fatal )?error: .*$', out, re.M)
        if m:
            why += '; first compiler error: ' + m.group(0).replace(scratch + '/', '')
        m2 = re.search(r"No rule to make target '([^']+)'", out)
        if m2:
            why += '; a source the Makefile needs is missing: ' + m2.group(1)
        tail = ' | '.join(l.strip() for l in out.replace(scratch + '/', '').splitlines() if re.search(r'error|\*\*\*', l))[:600]
        return False, why + ' [' + tail + ']'
    return True, ''


def list_headers(scratch):
    d = os.path.join(scratch, 'include', 'cstl')
    if not os.path.isdir(d):
        return []
    return sorted(f for f in os.listdir(d) if f.endswith('.h') and f not in EXCLUDED_HEADERS)


# --------------------------------------------------------------------------- aux-info

AUX_LINE = re.compile(r'^/\* (.+?):(\d+):([NOI])([CF]) \*/ (.*)$')
FN_NAME = re.compile(r'\b((?:__)?cstl_\w+) \((?!\*)')
ANY_NAME = re.compile(r'\b([A-Za-z_]\w*) \((?!\*)')


def parse_aux(path, incdir):
    """-> list of dicts {name, file, line, defined, storage}; only files under incdir/cstl"""
    out = []
    other = 0
    pre = os.path.join(os.path.realpath(incdir), 'cstl') + os.sep
    try:
        text = open(path, errors='replace').read()
    except OSError:
        return out, other
    for line in text.splitlines():
        m = AUX_LINE.match(line)
        if not m:
            continue
        f = os.path.realpath(m.group(1))
        if not f.startswith(pre):
            continue
        kr = re.search(r'/\* \(([^)]*)\)', m.group(5))
        decl = re.sub(r'/\*.*?\*/', '', m.group(5)).strip()
        storage = 'static' if re.match(r'static\b', decl) else 'extern'
        n = FN_NAME.search(decl)
        if not n:
            other += 1
            continue
        out.append({'name': n.group(1), 'file': os.path.basename(f), 'line': int(m.group(2)),
                    'defined': m.group(4) == 'F', 'storage': storage, 'decl': decl,
                    'pnames': [x.strip() for x in kr.group(1).split(',')] if kr and kr.group(1).strip() else []})
    return out, other



def param_types(rec):
    """parameter type strings of a gcc -aux-info declaration record (names of a definition removed); None if not parseable"""
    decl = rec.get('decl') or ''
    i = decl.find(rec['name'] + ' (')
    if i < 0:
        return None
    j = i + len(rec['name']) + 2
    depth, k = 1, j
    while k < len(decl) and depth:
        depth += decl[k] == '('
        depth -= decl[k] == ')'
        k += 1
    if depth:
        return None
    inner = decl[j:k - 1].strip()
    if inner in ('', 'void'):
        return []
    parts, depth, cur = [], 0, ''
    for ch in inner:
        if ch == ',' and depth == 0:
            parts.append(cur.strip()); cur = ''
            continue
        depth += ch == '('
        depth -= ch == ')'
        cur += ch
    parts.append(cur.strip())
    names = rec.get('pnames') or []
    out = []
    for idx, t in enumerate(parts):
        if t == '...':
            return None
        if idx < len(names) and names[idx]:
            # `T *const x` or, for pointers to functions, `F (*const x)`: the name is the last identifier, closing parentheses may follow
            t = re.sub(r'\b%s\b\s*(\)*)$' % re.escape(names[idx]), r'\1', t).strip()
        t = re.sub(r'\b(const|volatile)(\s+\1\b)+', r'\1', t)
        out.append(t)
    return out


def shape_arg(t, literal):
    """an argument expression of type t for a call that is compiled but never executed; literal: pointer arguments are
    compound literals whose initialiser list contains a comma at top level"""
    if '(*' in t or re.search(r'_func_t\b', t):
        return '(%s)0' % t
    if '*' in t:
        return '(%s)(void *)&(struct c18_two){ 1, 2 }' % t if literal else '(%s)(void *)&c18_obj' % t
    return '(%s)0' % t

# --------------------------------------------------------------------------- source generation

def parse_macros(text, incdir):
    """`gcc -dD -E` output -> ordered [(name, file basename, body)] of macros defined by files under incdir/cstl
    and still defined at the end of the TU (an #undef removes the entry)"""
    pre = os.path.join(os.path.realpath(incdir), 'cstl') + os.sep
    cur = None
    live = {}
    order = []
    for line in text.splitlines():
        m = re.match(r'# \d+ "([^"]*)"', line)
        if m:
            f = m.group(1)
            cur = os.path.basename(f) if os.path.realpath(f).startswith(pre) else None
            continue
        m = re.match(r'#\s*define\s+([A-Za-z_]\w*)(\([^)]*\))?\s*(.*)$', line)
        if m and cur is not None:
            if m.group(1) not in live:
                order.append(m.group(1))
            live[m.group(1)] = (cur, m.group(3).strip())
            continue
        m = re.match(r'#\s*undef\s+([A-Za-z_]\w*)', line)
        if m and m.group(1) in live:
            del live[m.group(1)]
            order.remove(m.group(1))
    return [(n, live[n][0], live[n][1]) for n in order]


def parse_objects(text, incdir):
    """`gcc -E` output -> names of OBJECTS declared `extern` by files under incdir/cstl (no parentheses in the declaration)"""
    pre = os.path.join(os.path.realpath(incdir), 'cstl') + os.sep
    own, keep = False, []
    for line in text.splitlines():
        m = re.match(r'# \d+ "([^"]*)"', line)
        if m:
            own = os.path.realpath(m.group(1)).startswith(pre)
            continue
        if line.startswith('#'):
            continue
        if own:
            keep.append(line)
    names = []
    for m in re.finditer(r'\bextern\b([^;{}()]*);', ' '.join(keep)):
        d = re.sub(r'\[[^\]]*\]', '', m.group(1)).strip()
        n = re.search(r'([A-Za-z_]\w*)\s*$', d)
        if n and n.group(1) not in names:
            names.append(n.group(1))
    return names


def load_macro_table():
    try:
        return json.load(open(os.path.join(TPL, 'macros.json')))
    except (OSError, ValueError):
        return None


def gen_macro_section(macros, table, declared):
    """expand every listed public macro as file-scope static, automatic and static-local object (clients/macros.json)
    -> (lines, number of expansions); the section uses nothing but the cstl headers (no system header, no NULL,
    no offsetof of its own)"""
    L = ['/* ---- every public macro the included headers define themselves, expanded BEFORE any system header:',
         ' *      %s */' % (' '.join(macros) or '(none)')]
    pre_done = []
    fs, au, sl, q = [], [], [], []
    nexp = 0
    k = 0
    for mac in macros:
        ent = table.get(mac) or {}
        for pk in ent.get('preludes', []):
            if pk not in pre_done:
                pre_done.append(pk)
                L.append(table['_preludes'][pk])
        for e in ent.get('exprs', []):
            fs.append('static const int c18m_fx_%d = (%s);' % (k, e))
            q.append('    bad += (%s) ? 1 : 0;' % e)
            q.append('    bad += c18m_fx_%d;' % k)
            nexp += 2
            k += 1
        for u in ent.get('uses', []):
            have = all(n in declared for n in u.get('needs', []))
            for lst, pfx, sto, ind in ((fs, 'fs', 'static ', ''), (au, 'au', '', '    '), (sl, 'sl', 'static ', '    ')):
                name = 'c18m_%s_%d' % (pfx, k)
                lst.append('%s%s%s;' % (ind, sto, u['decl'].replace('{name}', name)))
                if have and u.get('query'):
                    q.append('    bad += %s ? 1 : 0;' % u['query'].replace('{name}', name))
                else:
                    q.append('    bad += ((const void *)&%s == (const void *)0) ? 1 : 0;' % name)
                nexp += 1
            k += 1
    L += fs
    L.append('static int c18_macros(void)')
    L.append('{')
    L.append('    int bad = 0;')
    L += au + sl + q
    L.append('    return bad;')
    L.append('}')
    L.append('/* ---- end of the macro section */')
    return L, nexp


def load_snippets():
    """-> {header: (needs, text)} from clients/use_<header>.c"""
    sn = {}
    if not os.path.isdir(TPL):
        return sn
    for f in sorted(os.listdir(TPL)):
        m = re.match(r'use_(\w+)\.c$', f)
        if not m:
            continue
        text = open(os.path.join(TPL, f)).read()
        nm = re.match(r'\s*/\*\s*needs:\s*(.*?)\*/', text, re.S)
        needs = nm.group(1).split() if nm else []
        sn[m.group(1) + '.h'] = (needs, text)
    return sn


def gen_source(headers, role, table_funcs, use_headers, snippets, declared, macro_lines=None):
    """headers: include order; table_funcs: function names whose address is stored;
    use_headers: headers whose use-snippet is pasted (if its needs are all declared);
    macro_lines: the macro section (gen_macro_section), placed before the first system include"""
    L = ['/* generated by verif C18 (lib/clients.py); role=%s; includes in this order: %s */'
         % (role, ' '.join(headers))]
    for h in headers:
        L.append('#include "cstl/%s"' % h)
    L.append('/* nothing but the cstl headers above this line */')
    L += macro_lines if macro_lines is not None else ['static int c18_macros(void)', '{', '    return 0;', '}']
    L.append('/* system headers the client itself needs (offsetof, size_t, printf) come only now */')
    L.append('#include <stddef.h>')
    L.append('#include <stdlib.h>')
    if role == 'addr':
        L.append('#include <stdio.h>')
    L.append('')
    L.append('typedef void (*c18_fn_t)(void);')
    L.append('static volatile c18_fn_t c18_table[] = {')
    for n in table_funcs:
        L.append('    (c18_fn_t)%s,' % n)
    L.append('    (c18_fn_t)0')
    L.append('};')
    L.append('')
    used = []
    skipped = 0
    for h in use_headers:
        if h not in snippets:
            continue
        needs, text = snippets[h]
        if all(n in declared for n in needs):
            L.append(text.rstrip())
            L.append('')
            used.append(h)
        else:
            skipped += 1
    L.append('static int c18_body(void)')
    L.append('{')
    L.append('    unsigned n = 0;')
    L.append('    size_t i;')
    L.append('    for (i = 0; i < sizeof(c18_table) / sizeof(c18_table[0]); i++) {')
    L.append('        if (c18_table[i] != (c18_fn_t)0) {')
    L.append('            n++;')
    L.append('        }')
    L.append('    }')
    L.append('    if (n != %du) {' % len(table_funcs))
    L.append('        return 90;')
    L.append('    }')
    if role == 'addr':
        L.append('    printf("c18: %u function addresses stored\\n", n);')
    L.append('    if (c18_macros() != 0) {')
    L.append('        return 91;')
    L.append('    }')
    for idx, h in enumerate(used):
        L.append('    if (c18_use_%s() != 0) {' % hname(h))
        L.append('        return %d;' % (100 + idx))
        L.append('    }')
    L.append('    return 0;')
    L.append('}')
    L.append('')
    if role in ('main1', 'addr'):
        L += ['int main(void)', '{', '    return c18_body();', '}']
    elif role == 'main2':
        L += ['int c18_tu2(void);', '', 'int main(void)', '{', '    const int r = c18_body();',
              '    if (r != 0) {', '        return r;', '    }', '    return c18_tu2();', '}']
    else:
        L += ['int c18_tu2(void);', '', 'int c18_tu2(void)', '{', '    const int r = c18_body();',
              '    return (r != 0) ? (r + 128) : 0;', '}']
    return '\n'.join(L) + '\n', skipped


# --------------------------------------------------------------------------- the pipeline

class Pipeline:
    def __init__(self, tier, seed, repo, broot, only=None, verbose=False):
        self.tier, self.seed, self.repo, self.broot = tier, seed, repo, broot
        self.only, self.verbose = only, verbose
        self.scratch = None
        self.counters = {'warnings': 0}
        self.violations = []
        self.vkeys = set()
        self.infra = []
        self.explained = {}
        self.samples = []
        self.configs = []
        self.objects = {}
        self.obj_cfg = {}
        self.dirs = {}
        self.done_distinct = set()
        self.done_tuples = set()
        self.ncases = self.cases_done = self.cases_failed = 0
        self.lib_ok = False

    # ---- small helpers
    def count(self, k, n=1):
        self.counters[k] = self.counters.get(k, 0) + n

    def vlog(self, cmd, rc, out):
        if self.verbose:
            log('$ ' + cmd)
            if out.strip():
                log(out.rstrip())
            log('  -> %s' % self.rcstr(rc))

    @staticmethod
    def rcstr(rc):
        if rc == TIMEOUT_RC:
            return 'timeout'
        if rc < 0:
            try:
                return 'signal %s' % signal.Signals(-rc).name
            except ValueError:
                return 'signal %d' % -rc
        return 'exit %d' % rc

    def scrub(self, s):
        """paths out of messages (scratch dir name is random)"""
        s = s.replace(self.scratch + '/', '<project>/') if self.scratch else s
        return s.replace(self.broot + '/', '<build>/')

    def violate(self, key, msg, case, trace, diag, extra, cls=None, hs=None):
        """record a violation; cls/hs: suppress when a strictly smaller header set already failed
        in the same class (the smaller configuration is the witness)"""
        if cls is not None and hs is not None and self.only is None:
            s = frozenset(hs)
            prior = self.explained.setdefault(cls, [])
            hit = any(f < s for f in prior)
            prior.append(s)
            if hit:
                self.count('failures-explained-by-smaller-configuration')
                return
        if key in self.vkeys:
            self.count('violations-same-key-suppressed')
            return
        self.vkeys.add(key)
        self.violations.append({'key': key, 'msg': self.scrub(msg), 'case': case, 'op': 0,
                                'note': extra.get('desc', ''), 'trace': self.scrub(trace),
                                'stderr': self.scrub(diag)[:2000], 'extra': extra})

    def is_infra(self, rc, out):
        # compiler/link editor killed, timed out or out of resources: not a statement about the headers
        return bool(rc < 0 or INFRA_PAT.search(out or ''))

    # ---- stage: the client's own surroundings: language dialect, feature-test macros, system headers included first
    DIALECTS = [
        ('c99-posix-std-headers-first', ['-std=c99', '-pedantic-errors', '-D_POSIX_C_SOURCE=199309L'], True),
        ('c99-gnu-source', ['-std=c99', '-D_GNU_SOURCE'], False),
        ('c99-gnu-source-std-headers-first', ['-std=c99', '-D_GNU_SOURCE'], True),
        ('c99-default-source', ['-std=c99', '-D_DEFAULT_SOURCE'], True),
        ('gnu99', ['-std=gnu99'], True),
        ('c11', ['-std=c11', '-pedantic-errors'], True),
        ('gnu11-compiler-default', [], True),
        ('gnu17', ['-std=gnu17', '-D_XOPEN_SOURCE=700'], True),
    ]
    STD_HEADERS = ['assert.h', 'complex.h', 'ctype.h', 'errno.h', 'fenv.h', 'float.h', 'inttypes.h', 'iso646.h', 'limits.h',
                   'locale.h', 'math.h', 'setjmp.h', 'signal.h', 'stdarg.h', 'stdbool.h', 'stddef.h', 'stdint.h', 'stdio.h',
                   'stdlib.h', 'string.h', 'tgmath.h', 'time.h', 'wchar.h', 'wctype.h',
                   'sys/types.h', 'unistd.h', 'pthread.h', 'strings.h', 'sched.h']

    def stage_dialects(self):
        """The property is about C99 programs in general, not about programs compiled exactly like the project itself:
        each header alone and all together must also compile (syntax check, -Wall -Wextra) when the client selects
        another feature-test macro or dialect that gcc accepts for C99-compatible code, and when the standard C99 (and
        the common POSIX) headers have been included BEFORE the cstl header: an identifier used by a cstl header that
        a standard header defines as a macro (complex, I, bool, and, or, ...), or a helper that clashes with a
        declaration glibc only makes visible under _DEFAULT_SOURCE/_GNU_SOURCE, breaks such clients only."""
        inc = os.path.join(self.scratch, 'include')
        d = os.path.join(self.broot, 'dialects')
        os.makedirs(d, exist_ok=True)
        sets = [(hname(h), (h,)) for h in self.headers] + [('all', tuple(self.headers))]
        jobs = []
        for nm, hs in sets:
            for dn, flags, std_first in self.DIALECTS:
                jobs.append((nm, hs, dn, flags, std_first))

        def one(job):
            nm, hs, dn, flags, std_first = job
            src = os.path.join(d, '%s.%s.c' % (nm, dn))
            with open(src, 'w') as f:
                f.write('/* verif C18: %s under %s */\n' % (nm, dn))
                if std_first:
                    f.write(''.join('#include <%s>\n' % x for x in self.STD_HEADERS))
                f.write(''.join('#include "cstl/%s"\n' % h for h in hs))
                f.write('int c18_dialect_anchor;\n')
            cmd = ['gcc', '-Wall', '-Wextra'] + flags + ['-I' + inc, '-fsyntax-only', src]
            rc, out = sh(cmd)
            return job, cmd, rc, out
        with ThreadPoolExecutor(max_workers=WORKERS) as ex:
            results = list(ex.map(one, jobs))
        # a control: the standard headers alone must compile under every dialect (otherwise the dialect is not usable here)
        usable = {}
        for dn, flags, std_first in self.DIALECTS:
            src = os.path.join(d, 'control.%s.c' % dn)
            with open(src, 'w') as f:
                if std_first:
                    f.write(''.join('#include <%s>\n' % x for x in self.STD_HEADERS))
                f.write('int c18_dialect_anchor;\n')
            rc, out = sh(['gcc', '-Wall', '-Wextra'] + flags + ['-fsyntax-only', src])
            usable[dn] = rc == 0
            if rc != 0:
                self.count('dialects.unusable-on-this-machine')
        for (nm, hs, dn, flags, std_first), cmd, rc, out in results:
            self.vlog(' '.join(cmd), rc, out)
            if not usable[dn]:
                continue
            if rc == 0:
                self.count('dialects.compiled')
                if std_first:
                    self.count('dialects.compiled.std-headers-first')
            elif self.is_infra(rc, out):
                self.infra.append('compiler failure (not a diagnostic) on %s under %s: %s' % (nm, dn, out[-300:]))
            else:
                self.count('dialects.compile-failed')
                key = 'compile.error.dialect.%s.%s' % (dn, hname(hs[0]) if len(hs) == 1 else 'all')
                self.violate(key, 'a client that includes %s%s does not compile with gcc %s (%s)'
                             % ('the standard headers and then ' if std_first else '', ' '.join('"cstl/%s"' % h for h in hs),
                                ' '.join(flags) or '(default dialect)', self.first_error(out)),
                             -1, ' '.join(cmd), out,
                             {'client': 'dialect', 'kind': dn, 'headers': list(hs), 'desc': 'dialect %s: %s' % (dn, hjoin(hs))},
                             cls='compile-dialect-' + dn, hs=hs)

    # ---- stage: bare includes + aux-info
    def stage_bare(self):
        """compile `#include "cstl/x.h"` alone (per header) and all together with -aux-info"""
        inc = os.path.join(self.scratch, 'include')
        d = os.path.join(self.broot, 'bare')
        os.makedirs(d, exist_ok=True)
        jobs = []
        for h in self.headers:
            jobs.append((hname(h), (h,)))
        jobs.append(('all', tuple(self.headers)))

        def one(job):
            nm, hs = job
            src = os.path.join(d, nm + '.c')
            with open(src, 'w') as f:
                f.write('/* verif C18: bare include test */\n' + ''.join('#include "cstl/%s"\n' % h for h in hs))
            res = {}
            for opt in self.opts:
                obj = os.path.join(d, '%s%s.o' % (nm, opt))
                cmd = ['gcc'] + CLIENT_CFLAGS + [opt, '-I' + inc]
                if opt == self.opts[0]:
                    cmd += ['-aux-info', os.path.join(d, nm + '.X')]
                cmd += ['-c', src, '-o', obj]
                rc, out = sh(cmd)
                res[opt] = (cmd, rc, out, obj)
            prc, pout = sh(['gcc'] + PP_CFLAGS + ['-I' + inc, '-dD', '-E', src])
            res['macros'] = parse_macros(pout, inc) if prc == 0 else None
            res['objects'] = parse_objects(pout, inc) if prc == 0 else []
            return nm, hs, res
        with ThreadPoolExecutor(max_workers=WORKERS) as ex:
            results = list(ex.map(one, jobs))

        self.bare_objs = []
        funcs = {}          # name -> record (merged)
        own = {}            # header -> ordered list of names
        pub = set(self.headers)
        aux_by = {}
        for nm, hs, res in results:
            for opt in self.opts:
                cmd, rc, out, obj = res[opt]
                self.vlog(' '.join(cmd), rc, out)
                self.note_warnings(out)
                if rc == 0:
                    self.count('objects.compiled')
                    self.bare_objs.append((obj, {'client': 'bare', 'desc': 'bare include of %s, %s' % (nm, opt)}))
                elif self.is_infra(rc, out):
                    self.infra.append('compiler failure (not a diagnostic) on bare include of %s: %s'
                                      % (nm, out[-300:]))
                else:
                    self.count('objects.compile-failed')
                    kind = 'alone' if len(hs) == 1 else 'all'
                    key = 'compile.error.%s.alone' % hname(hs[0]) if kind == 'alone' else 'compile.error.all'
                    self.violate(key, 'a translation unit consisting only of %s does not compile (%s)'
                                 % (' '.join('#include "cstl/%s"' % h for h in hs), self.first_error(out)),
                                 -1, ' '.join(cmd), out,
                                 {'client': 'bare', 'kind': kind, 'headers': list(hs), 'opt': opt,
                                  'desc': 'bare include: ' + hjoin(hs)}, cls='compile', hs=hs)
            recs, other = parse_aux(os.path.join(d, nm + '.X'), inc) if res[self.opts[0]][1] == 0 else ([], 0)
            aux_by[nm] = recs
            if nm == 'all':
                self.count('declared-names-without-cstl-prefix', other)
            for r in recs:
                o = funcs.get(r['name'])
                if o is None:
                    funcs[r['name']] = dict(r)
                else:
                    o['defined'] = o['defined'] or r['defined']
                    if r['storage'] == 'static':
                        o['storage'] = 'static'
        # ownership: functions a header brings itself (its own file, or a non-public file such as _string.h)
        for h in self.headers:
            recs = aux_by.get(hname(h)) or []
            names = []
            if recs:
                for r in recs:
                    if (r['file'] == h or r['file'] not in pub) and r['name'] not in names:
                        names.append(r['name'])
            else:   # header does not compile alone: fall back to the all-headers list
                try:
                    text = open(os.path.join(inc, 'cstl', h), errors='replace').read()
                except OSError:
                    text = ''
                sub = set(x for x in re.findall(r'#\s*include\s*"cstl/([^"]+)"', text) if x not in pub)
                for r in aux_by.get('all') or []:
                    if (r['file'] == h or r['file'] in sub) and r['name'] not in names:
                        names.append(r['name'])
            own[h] = names
        self.funcs, self.own = funcs, own
        self.extern_objects = []
        for nm, hs, res in results:
            for n in res.get('objects') or []:
                if n not in self.extern_objects:
                    self.extern_objects.append(n)
        self.count('declared-extern-objects', len(self.extern_objects))
        self.all_funcs = []
        src_recs = aux_by.get('all') or [r for h in self.headers for r in (aux_by.get(hname(h)) or [])]
        for r in src_recs:
            if r['name'] not in self.all_funcs:
                self.all_funcs.append(r['name'])
        self.extern_decl = [n for n in self.all_funcs if funcs[n]['storage'] == 'extern' and not funcs[n]['defined']]
        self.inline_def = [n for n in self.all_funcs if funcs[n]['storage'] == 'static' and funcs[n]['defined']]
        self.extern_def = [n for n in self.all_funcs if funcs[n]['storage'] == 'extern' and funcs[n]['defined']]
        for n in self.extern_def:
            f = funcs[n]
            self.violate('decl.non-static-definition-in-header.%s' % n,
                         'the compiler reports a non-static function DEFINITION of %s at %s:%d (gcc -aux-info: "extern", '
                         'definition): every TU including the header emits it (plain definition) or depends on an '
                         'external definition nobody provides (C99 inline without static)' % (n, f['file'], f['line']),
                         -1, 'gcc %s -I<project>/include -aux-info bare/<header>.X -c bare/<header>.c' % ' '.join(CLIENT_CFLAGS),
                         '%s:%d: %s %s (defined in header)' % (f['file'], f['line'], f['storage'], n),
                         {'client': 'bare', 'check': 'non-static-definition', 'symbol': n,
                          'desc': 'declaration list of the bare includes'})
        # public macros (from the preprocessor: gcc -dD -E), owned like the functions
        mac_by = dict((nm, res.get('macros')) for nm, hs, res in results)
        self.own_macros = {}
        known = self.macro_table
        skip = set(known.get('_skip', [])) if known else set()
        allpub = []
        for h in self.headers:
            lst = mac_by.get(hname(h))
            if lst is None:
                lst = [x for x in (mac_by.get('all') or []) if x[1] == h]
            names = []
            for n, f, body in lst:
                if not (f == h or f not in pub) or not PUBLIC_MACRO.match(n):
                    continue
                if (body == '' and n.endswith('_H')) or n in skip:      # include guard / helper
                    continue
                names.append(n)
                if n not in allpub:
                    allpub.append(n)
            self.own_macros[h] = names
        self.all_macros = allpub
        if known is None:
            self.infra.append('clients/macros.json missing or unreadable: public macros cannot be expanded')
        else:
            unknown = [n for n in allpub if n not in known]
            if unknown:
                self.infra.append('public macro(s) %s defined by the headers but unknown to clients/macros.json: '
                                  'add an invocation template (the table is stale)' % ' '.join(unknown))
        self.count('public-macros', len(allpub))
        self.count('headers', len(self.headers))
        self.count('declared-functions', len(self.all_funcs))
        self.count('declared-extern-functions', len(self.extern_decl))
        self.count('declared-inline-functions', len(self.inline_def))
        self.count('declared-external-definitions-in-headers', len(self.extern_def))

    def stage_callshapes(self):
        """every declared function is CALLED (in code that is compiled but never executed) with pointer arguments that are
        compound literals `&(struct c18_two){ 1, 2 }`: a top-level comma inside an argument is ordinary C99, but splits the
        argument list of a function-like macro that shadows the function.  A control TU makes the same calls with plain
        object addresses; only "control compiles, literal variant does not" is a violation."""
        inc = os.path.join(self.scratch, 'include')
        d = os.path.join(self.broot, 'shapes')
        os.makedirs(d, exist_ok=True)

        def gen(h, literal):
            L = ['/* verif C18: call shapes, %s */' % ('compound-literal arguments' if literal else 'control'),
                 '#include "cstl/%s"' % h, '#include <stddef.h>',
                 'struct c18_two { long a, b; };', 'static struct c18_two c18_obj;', 'static volatile int c18_never;',
                 'void c18_shapes_%s(void);' % hname(h), 'void c18_shapes_%s(void)' % hname(h), '{', '    (void)c18_obj;']
            n = 0
            for name in self.own.get(h) or []:
                pt = param_types(self.funcs[name])
                if pt is None:
                    self.count('call-shapes.unparsed-declarations')
                    continue
                L.append('    if (c18_never) { (void)%s(%s); }' % (name, ', '.join(shape_arg(t, literal) for t in pt)))
                n += 1
            L.append('}')
            return '\n'.join(L) + '\n', n

        def one(h):
            res = []
            for literal in (False, True):
                text, n = gen(h, literal)
                src = os.path.join(d, '%s_%s.c' % (hname(h), 'lit' if literal else 'ctl'))
                open(src, 'w').write(text)
                cmd = ['gcc'] + CLIENT_CFLAGS + [self.opts[-1], '-I' + inc, '-c', src, '-o', src[:-2] + '.o']
                rc, out = sh(cmd)
                res.append((cmd, rc, out, n))
            return h, res
        with ThreadPoolExecutor(max_workers=WORKERS) as ex:
            results = list(ex.map(one, [h for h in self.headers if self.own.get(h)]))
        for h, ((ccmd, crc, cout, n), (lcmd, lrc, lout, _)) in results:
            self.vlog(' '.join(lcmd), lrc, lout)
            self.count('call-shapes.functions-called', n)
            if crc != 0:
                self.count('call-shapes.control-does-not-compile')
                if not self.is_infra(crc, cout):
                    self.vlog(' '.join(ccmd), crc, cout)
                continue
            self.count('call-shapes.headers')
            if lrc != 0 and not self.is_infra(lrc, lout):
                self.violate('compile.error.call-shape.%s' % hname(h),
                             'calls of the functions declared by cstl/%s whose pointer arguments are compound literals with a comma in their '
                             'initialiser list do not compile, the same calls with plain object addresses do (%s)' % (h, self.first_error(lout)),
                             -1, ' '.join(lcmd), lout,
                             {'client': 'shapes', 'kind': 'call-shape', 'headers': [h], 'desc': 'call shapes: ' + h}, cls='compile', hs=(h,))

    def stage_pollution(self):
        """what a cstl header may NOT change for the code that follows it: (a) feature-test macros -- a strict ISO C99 client
        (no _POSIX_C_SOURCE, no _GNU_SOURCE) owns the identifiers that POSIX/GNU add to the standard headers (getline, strdup,
        strnlen, dprintf, stpcpy ...) and may define them itself; (b) diagnostics -- code that only draws WARNINGS under the
        project's flags (shadowing, unused things, sign comparison ...) must still compile after a cstl include.  Each header
        comes FIRST, then the ISO headers, then the client's code.  A control TU without the cstl include decides whether the
        client code is acceptable to this compiler/libc at all."""
        inc = os.path.join(self.scratch, 'include')
        d = os.path.join(self.broot, 'pollution')
        os.makedirs(d, exist_ok=True)
        body = """
#include <stdio.h>
#include <string.h>
#include <stdlib.h>
#include <stddef.h>
/* identifiers that ISO C99 leaves to the program */
static int getline(int a) { return a + 1; }
static int getdelim(int a) { return a + 2; }
static int strdup(int a) { return a + 3; }
static int strndup(int a) { return a + 4; }
static int strnlen(int a) { return a + 5; }
static int stpcpy(int a) { return a + 6; }
static int dprintf(int a) { return a + 7; }
static int fmemopen(int a) { return a + 8; }
static int strsignal(int a) { return a + 9; }
static int ssize_of(int a) { return a; }
/* legal code that draws warnings only */
static size_t count;
static int sloppy(int count_, unsigned u)
{
    int i, unused_local;
    int r = 0;
    for (i = 0; i < 3; i++) { int i = 7; r += i; }           /* -Wshadow */
    { size_t count = 2; r += (int)count; }                   /* shadows a file-scope object */
    if (count_ < u) r++;                                     /* -Wsign-compare */
    return r;
}
int main(void)
{
    count = 1;
    return (getline(1) + getdelim(1) + strdup(1) + strndup(1) + strnlen(1) + stpcpy(1) + dprintf(1) + fmemopen(1) + strsignal(1)
            + ssize_of(0) + sloppy(1, 2u) == 2 + 3 + 4 + 5 + 6 + 7 + 8 + 9 + 10 + 0 + 24) ? 0 : 1;
}
"""
        flags = ['-std=c99', '-pedantic', '-Wall', '-Wextra']           # the project's warning flags, NO feature-test macro
        ctl = os.path.join(d, 'control.c')
        open(ctl, 'w').write('/* verif C18: control (no cstl header) */' + body)
        rc, out = sh(['gcc'] + flags + ['-c', ctl, '-o', ctl[:-2] + '.o'])
        if rc != 0:
            self.count('pollution.control-does-not-compile')
            self.vlog('gcc %s -c %s' % (' '.join(flags), ctl), rc, out)
            return

        def one(h):
            src = os.path.join(d, 'after_%s.c' % hname(h))
            open(src, 'w').write('/* verif C18: client code after a cstl header */\n#include "cstl/%s"\n' % h + body)
            cmd = ['gcc'] + flags + ['-I' + inc, '-c', src, '-o', src[:-2] + '.o']
            rc, out = sh(cmd)
            return h, cmd, rc, out
        with ThreadPoolExecutor(max_workers=WORKERS) as ex:
            results = list(ex.map(one, self.headers))
        for h, cmd, rc, out in results:
            self.vlog(' '.join(cmd), rc, out)
            self.count('pollution.headers')
            if rc != 0 and not self.is_infra(rc, out):
                self.violate('compile.error.client-code-after.%s' % hname(h),
                             'strict C99 client code (own getline/strdup/...; constructs that only draw warnings) compiles on its own but not after '
                             '#include "cstl/%s": the header changes feature-test macros or diagnostics for the code that follows it (%s)'
                             % (h, self.first_error(out)), -1, ' '.join(cmd), out,
                             {'client': 'pollution', 'kind': 'client-code-after-header', 'headers': [h], 'desc': 'client code after ' + h},
                             cls='compile', hs=(h,))

    def note_warnings(self, out):
        for m in re.finditer(r'warning: .*?(?:\[(-W[^\]]+)\])?$', out or '', re.M):
            self.count('warnings')
            if m.group(1):
                self.count('warning.' + m.group(1))

    @staticmethod
    def first_error(out):
        m = re.search(r'^.*\berror: .*$', out or '', re.M)
        if m:
            s = m.group(0)
            s = re.sub(r'^\S*?([^/\s]+\.[ch]):(\d+):\d+:', r'\1:\2:', s)
            return s.strip()[:200]
        return ((out or '').strip().splitlines() or ['no diagnostic'])[0][:200]

    # ---- configuration enumeration
    def enumerate(self):
        H = self.headers
        rng = random.Random((self.seed * 1000003) ^ 0xC18)
        combos = []
        if self.only is not None:
            o = self.only
            if o.get('client') == 'combo':
                self.add_configs(o['kind'], tuple(o['headers']), [o['opt']], [o['ntu']], [o['mode']],
                                 [o.get('order', 'mt')])
            elif o.get('client') == 'addr':
                self.add_addr([o['opt']], [bool(o.get('san'))], [o['mode']])
            return
        for h in H:
            combos.append(('alone', (h,)))
        for a, b in itertools.permutations(H, 2):
            combos.append(('pair', (a, b)))
        if len(H) >= 3 and self.tier == 'thorough':
            trip = list(itertools.permutations(H, 3))
            for t in rng.sample(trip, min(N_TRIPLES, len(trip))):
                combos.append(('triple', t))
        orders = [tuple(H), tuple(reversed(H))]
        tries = 0
        want = 5 if self.tier == 'quick' else 8
        while len(orders) < want and tries < 50 and len(H) > 2:
            p = list(H)
            rng.shuffle(p)
            tries += 1
            if tuple(p) not in orders:
                orders.append(tuple(p))
        seen = set()
        for o in orders:
            if o not in seen:
                seen.add(o)
                combos.append(('all', o))
        tu_orders = ['mt'] if self.tier == 'quick' else ['mt', 'tm']
        for kind, hs in combos:
            self.add_configs(kind, hs, self.opts, [1, 2], ['static', 'shared'], tu_orders)
        self.add_addr(self.opts, [False, True], ['static', 'shared'])
        self.add_addr([f for f in FLAG_SWEEP if f not in self.opts], [False], ['static', 'shared'])

    def obj_for(self, kind, hs, role, opt, san=False):
        key = (hs, role, opt, san)
        o = self.objects.get(key)
        if o is None:
            dk = (kind, hs)
            if dk not in self.dirs:
                self.dirs[dk] = os.path.join(self.broot, 'c', '%04d-%s' % (len(self.dirs), kind))
            d = self.dirs[dk]
            o = {'key': key, 'kind': kind, 'headers': hs, 'role': role, 'opt': opt, 'san': san,
                 'src': os.path.join(d, role + '.c'), 'obj': os.path.join(d, '%s%s%s.o' % (role, optname(opt), '-san' if san else '')),
                 'dir': d, 'rc': None, 'out': '', 'cmd': None}
            self.objects[key] = o
        return o

    def add_configs(self, kind, hs, opts, ntus, modes, tu_orders):
        for opt in opts:
            for ntu in ntus:
                roles = ['main1'] if ntu == 1 else ['main2', 'tu2']
                objs = [self.obj_for(kind, hs, r, opt) for r in roles]
                for mode in modes:
                    for order in (tu_orders if ntu == 2 else ['m']):
                        self.configs.append({
                            'idx': len(self.configs), 'client': 'combo', 'kind': kind, 'headers': hs,
                            'ntu': ntu, 'mode': mode, 'opt': opt, 'order': order, 'san': False,
                            'objs': objs if order != 'tm' else list(reversed(objs)),
                            'name': ('all.%dtu.%s' % (ntu, mode)) if kind == 'all'
                                    else '%s.%s.%dtu.%s' % (hjoin(hs), kind, ntu, mode)})
                        for o in objs:
                            self.obj_cfg.setdefault(o['key'], self.configs[-1])
                        self.count('config.%s.%dtu.%s' % (kind, ntu, mode))

    def add_addr(self, opts, sans, modes):
        hs = tuple(self.headers)
        for opt in opts:
            for san in sans:
                o = self.obj_for('addr', hs, 'addr', opt, san)
                for mode in modes:
                    self.configs.append({
                        'idx': len(self.configs), 'client': 'addr', 'kind': 'addr', 'headers': hs, 'ntu': 1,
                        'mode': mode, 'opt': opt, 'order': 'm', 'san': san, 'objs': [o],
                        'name': 'addr-of-everything.%s%s' % (mode, '.asan-ubsan' if san else '')})
                    self.obj_cfg.setdefault(o['key'], self.configs[-1])
                    self.count('config.addr.1tu.%s%s' % (mode, '.asan-ubsan' if san else ''))

    def cfg_desc(self, c):
        return ('%s client, headers in order [%s], %d TU%s%s, %s link, %s%s'
                % (c['kind'], ' '.join(c['headers']), c['ntu'], '' if c['ntu'] == 1 else 's',
                   ' (second TU first on the link line)' if c['order'] == 'tm' else '', c['mode'], c['opt'],
                   ', ASan+UBSan' if c['san'] else ''))

    def cfg_extra(self, c, stage):
        return {'client': c['client'], 'kind': c['kind'], 'headers': list(c['headers']), 'ntu': c['ntu'],
                'mode': c['mode'], 'opt': c['opt'], 'order': c['order'], 'san': c['san'], 'stage': stage,
                'desc': self.cfg_desc(c)}

    # ---- stage: compile client objects
    def stage_compile(self):
        inc = os.path.join(self.scratch, 'include')
        declared = set(self.all_funcs)

        written = set()

        def prepare(o):
            os.makedirs(o['dir'], exist_ok=True)
            if o['role'] == 'addr':
                table = list(self.all_funcs)
            else:
                table = []
                for h in sorted(set(o['headers'])):
                    for n in self.own.get(h, []):
                        if n not in table:
                            table.append(n)
            if o['role'] == 'addr':
                macs = list(self.all_macros)
            else:
                macs = []
                for h in sorted(set(o['headers'])):
                    for n in self.own_macros.get(h, []):
                        if n not in macs:
                            macs.append(n)
            macs = [n for n in macs if self.macro_table and n in self.macro_table]
            mlines, nexp = gen_macro_section(macs, self.macro_table or {}, declared)
            o['nexp'] = nexp
            text, skipped = gen_source(list(o['headers']), o['role'], table, sorted(set(o['headers'])),
                                       self.snippets, declared, mlines)
            o['table'] = table
            o['skipped'] = skipped
            if o['src'] not in written:         # one source per (headers, role); shared by the -O/-fsanitize variants
                written.add(o['src'])
                with open(o['src'], 'w') as f:
                    f.write(text)

        def one(o):
            cmd = ['gcc'] + CLIENT_CFLAGS + o['opt'].split() + (SAN if o['san'] else []) + ['-I' + inc, '-c', o['src'], '-o', o['obj']]
            o['cmd'] = cmd
            o['rc'], o['out'] = sh(cmd)
            return o
        objs = list(self.objects.values())
        for o in objs:                          # sources are written serially, before any compiler starts
            prepare(o)
        with ThreadPoolExecutor(max_workers=WORKERS) as ex:
            list(ex.map(one, objs))
        for o in objs:
            self.vlog(' '.join(o['cmd']), o['rc'], o['out'])
            self.note_warnings(o['out'])
            self.count('snippets.skipped', o['skipped'])
            if o['rc'] == 0:
                self.count('objects.compiled')
                self.count('macro-expansions-compiled', o['nexp'])
                continue
            if self.is_infra(o['rc'], o['out']):
                self.infra.append('compiler failure (not a diagnostic): %s' % o['out'][-300:])
                continue
            self.count('objects.compile-failed')
            hs, kind = o['headers'], o['kind']
            if kind == 'all':
                key = 'compile.error.all'
            elif kind == 'addr':
                key = 'compile.error.addr-of-everything'
            else:
                key = 'compile.error.%s.%s' % (hjoin(hs), kind)
            c = self.obj_cfg.get(o['key'])
            extra = self.cfg_extra(c, 'compile') if c else {'desc': ''}
            self.violate(key, 'client TU (%s) including [%s] does not compile with the project flags %s: %s'
                         % (o['role'], ' '.join(hs), o['opt'], self.first_error(o['out'])),
                         c['idx'] if c else -1, ' '.join(o['cmd']), o['out'], extra, cls='compile', hs=hs)

    # ---- stage: link
    def stage_link(self):
        bdir = os.path.join(self.scratch, 'build')

        def one(c):
            if any(o['rc'] != 0 for o in c['objs']):
                c['link_rc'] = None
                return c
            exe = os.path.join(c['objs'][0]['dir'] if c['order'] != 'tm' else c['objs'][1]['dir'],
                               'client-%dtu-%s-%s%s%s' % (c['ntu'], c['mode'], c['order'], optname(c['opt']),
                                                          '-san' if c['san'] else ''))
            cmd = ['gcc'] + [f for f in c['opt'].split() if not f.startswith('-D')] + (SAN if c['san'] else []) + ['-o', exe] + [o['obj'] for o in c['objs']]
            if c['mode'] == 'static':
                cmd += [os.path.join(bdir, 'libcstl.a'), '-lm']
            else:
                cmd += ['-L' + bdir, '-lcstl', '-lm']
            c['exe'], c['link_cmd'] = exe, cmd
            c['link_rc'], c['link_out'] = sh(cmd)
            return c
        with ThreadPoolExecutor(max_workers=WORKERS) as ex:
            list(ex.map(one, self.configs))
        for c in self.configs:
            if c.get('link_rc') is None:
                continue
            self.vlog(' '.join(c['link_cmd']), c['link_rc'], c['link_out'])
            if c['link_rc'] == 0:
                self.count('clients.linked')
                continue
            out = c['link_out']
            if self.is_infra(c['link_rc'], out) and 'multiple definition' not in out and 'undefined reference' not in out:
                self.infra.append('link editor failure (not a diagnostic): %s' % out[-300:])
                continue
            self.count('clients.link-failed')
            trace = '\n'.join([' '.join(o['cmd']) for o in c['objs']] + [' '.join(c['link_cmd'])])
            dups = []
            for m in re.finditer(r"multiple definition of [`']([^`']+)'", out):
                if m.group(1) not in dups:
                    dups.append(m.group(1))
            undef = []
            for m in re.finditer(r"undefined reference to [`']([^`']+)'", out):
                if m.group(1) not in undef:
                    undef.append(m.group(1))
            for s in dups:
                self.violate('link.duplicate-symbol.%s.%s.%dtu' % (s, c['mode'], c['ntu']),
                             'duplicate symbol %s linking a %d-TU client including [%s] against the %s library'
                             % (s, c['ntu'], ' '.join(c['headers']), c['mode']),
                             c['idx'], trace, out, self.cfg_extra(c, 'link'))
            for s in undef:
                self.violate('link.undefined.%s.%s' % (s, c['mode']),
                             'undefined symbol %s linking a client including [%s] against the %s library'
                             % (s, ' '.join(c['headers']), c['mode']),
                             c['idx'], trace, out, self.cfg_extra(c, 'link'))
            if not dups and not undef:
                self.violate('link.error.%s' % c['name'],
                             'client including [%s] does not link against the %s library: %s'
                             % (' '.join(c['headers']), c['mode'], self.first_error(out)),
                             c['idx'], trace, out, self.cfg_extra(c, 'link'),
                             cls=('link', c['ntu'], c['mode'], c['san']), hs=c['headers'])

    # ---- stage: run
    def stage_run(self):
        bdir = os.path.join(self.scratch, 'build')

        def one(c):
            c['runs'] = []
            if c.get('link_rc') != 0:
                return c
            variants = [{}] if c['mode'] == 'static' else [{'LD_LIBRARY_PATH': bdir},
                                                           {'LD_LIBRARY_PATH': bdir, 'LD_BIND_NOW': '1'}]
            for ev in variants:
                env = base_env()
                env.update(ev)
                rc, out = sh([c['exe']], env=env, timeout=60)
                c['runs'].append((ev, rc, out))
            return c
        with ThreadPoolExecutor(max_workers=WORKERS) as ex:
            list(ex.map(one, self.configs))
        for c in self.configs:
            ok = bool(c['runs'])
            for ev, rc, out in c['runs']:
                self.vlog(cmdstr([c['exe']], ev), rc, out)
                if rc == 0:
                    self.count('clients.run')
                    continue
                ok = False
                self.count('clients.run-failed')
                bn = '.bind-now' if ev.get('LD_BIND_NOW') else ''
                trace = '\n'.join([' '.join(o['cmd']) for o in c['objs']] + [' '.join(c['link_cmd']),
                                                                              cmdstr([c['exe']], ev)])
                extra = self.cfg_extra(c, 'run')
                extra['bind_now'] = bool(bn)
                m = re.search(r'undefined symbol: (\w+)', out or '')
                if m:
                    self.violate('run.undefined-symbol.%s.%s' % (m.group(1), c['mode']),
                                 'loader cannot resolve %s starting a client including [%s]' % (m.group(1), ' '.join(c['headers'])),
                                 c['idx'], trace, out, extra)
                    continue
                if rc == TIMEOUT_RC:
                    what, msg = 'timeout', 'did not finish within 60 s'
                elif rc < 0:
                    what, msg = 'crash', 'was killed by ' + self.rcstr(rc)
                elif 'Sanitizer' in (out or '') or 'runtime error:' in (out or ''):
                    what, msg = 'sanitizer', 'was stopped by a sanitizer report: ' + self.first_san(out)
                elif rc == 127 and 'error while loading shared libraries' in (out or ''):
                    what, msg = 'load-failed', 'could not be loaded: ' + out.strip()[:160]
                else:
                    what, msg = 'exit-nonzero', ('returned %d (90: address table incomplete; 91: an object declared through a public macro is not empty; 100+i / 228+i: use snippet i '
                                                 'failed in the first / second TU)' % rc)
                self.violate('run.%s.%s%s' % (what, c['name'], bn),
                             '%s %s' % (self.cfg_desc(c), msg), c['idx'], trace, out, extra,
                             cls=('run', what, c['ntu'], c['mode'], c['san'], bn), hs=c['headers'])
            c['ok'] = ok

    @staticmethod
    def first_san(out):
        m = re.search(r'^.*(?:runtime error:|ERROR: \w+Sanitizer:).*$', out or '', re.M)
        return m.group(0).strip()[:200] if m else ''

    # ---- stage: nm
    def stage_nm(self):
        bdir = os.path.join(self.scratch, 'build')
        lib_defs = {}
        so_defs = {}
        if self.lib_ok:
            a = os.path.join(bdir, 'libcstl.a')
            so = os.path.join(bdir, 'libcstl.so')
            cmd_a = ['nm', '-A', '--defined-only', '-g', a]
            rc, out = sh(cmd_a)
            self.vlog(' '.join(cmd_a), rc, out if self.verbose and len(out) < 400 else '(%d lines)' % out.count('\n'))
            if rc != 0:
                self.infra.append('nm failed on libcstl.a: ' + out[-200:])
            for line in out.splitlines():
                p = line.rsplit(None, 2)
                if len(p) == 3 and len(p[1]) == 1:
                    member = p[0].split(':')[-2] if p[0].count(':') >= 2 else '?'
                    lib_defs.setdefault(p[2], []).append((member, p[1]))
            cmd_so = ['nm', '-D', '--defined-only', so]
            rc, out2 = sh(cmd_so)
            self.vlog(' '.join(cmd_so), rc, '(%d lines)' % out2.count('\n'))
            if rc != 0:
                self.infra.append('nm failed on libcstl.so: ' + out2[-200:])
            for line in out2.splitlines():
                p = line.split()
                if len(p) >= 3 and len(p[-2]) == 1:
                    so_defs[p[-1].split('@')[0]] = p[-2]
            resolved = 0
            for n in self.extern_decl:
                f = self.funcs[n]
                where = '%s:%d' % (f['file'], f['line'])
                d = [x for x in lib_defs.get(n, []) if x[1] in 'TWi']
                good = True
                if not d:
                    good = False
                    self.violate('nm.declared-not-defined.%s' % n,
                                 '%s is declared by %s but no member of libcstl.a defines it' % (n, where),
                                 -1, ' '.join(cmd_a), 'no T/W entry for %s; entries: %s' % (n, lib_defs.get(n, [])),
                                 {'client': 'nm', 'check': 'declared-not-defined', 'symbol': n, 'desc': 'nm libcstl.a'})
                elif len(d) > 1:
                    good = False
                    self.violate('nm.defined-more-than-once.%s' % n,
                                 '%s (declared by %s) is defined by %d members of libcstl.a: %s'
                                 % (n, where, len(d), ' '.join(x[0] for x in d)), -1, ' '.join(cmd_a), str(d),
                                 {'client': 'nm', 'check': 'defined-more-than-once', 'symbol': n, 'desc': 'nm libcstl.a'})
                if so_defs.get(n) not in ('T', 'W', 'i'):
                    good = False
                    self.violate('nm.declared-not-exported.%s' % n,
                                 '%s is declared by %s but libcstl.so does not export a definition' % (n, where),
                                 -1, ' '.join(cmd_so), 'dynamic symbol table entry for %s: %s' % (n, so_defs.get(n)),
                                 {'client': 'nm', 'check': 'declared-not-exported', 'symbol': n, 'desc': 'nm -D libcstl.so'})
                if good:
                    resolved += 1
            self.count('extern-functions-resolved', resolved)
            # objects the headers declare `extern` must be defined by the library too (a client may refer to them)
            for n in getattr(self, 'extern_objects', []):
                d = [x for x in lib_defs.get(n, []) if x[1] in 'DBRSGCVW']
                if not d:
                    self.violate('nm.declared-object-not-defined.%s' % n,
                                 'the headers declare the object `extern ... %s;` but no member of libcstl.a defines it: a client that refers to it gets an undefined symbol' % n,
                                 -1, ' '.join(cmd_a), 'no data-symbol entry for %s; entries: %s' % (n, lib_defs.get(n, [])),
                                 {'client': 'nm', 'check': 'declared-object-not-defined', 'symbol': n, 'desc': 'nm libcstl.a'})
                elif so_defs.get(n) is None:
                    self.violate('nm.declared-object-not-exported.%s' % n,
                                 'the headers declare the object %s but libcstl.so does not export it' % n,
                                 -1, ' '.join(cmd_so), 'no dynamic symbol table entry for %s' % n,
                                 {'client': 'nm', 'check': 'declared-object-not-exported', 'symbol': n, 'desc': 'nm -D libcstl.so'})
                else:
                    self.count('extern-objects-resolved')
            # ---- the library's global symbols outside its own name space
            # A client may use any identifier that is neither reserved nor declared by the headers it includes.  Every global
            # symbol libcstl.a defines outside (__)cstl_* is such an identifier: a client that defines a function of that name
            # and uses anything from the same archive member must still link (and run) -- otherwise "duplicate symbols".
            foreign = sorted(n for n in lib_defs if not re.match(r'(__)?cstl_', n) and not SAN_SYM.match(n)
                             and any(t in 'TDBRSGC' for _, t in lib_defs[n]))
            self.count('library-globals-outside-cstl-namespace', len(foreign))
            by_member = {}
            for n, lst in lib_defs.items():
                for member, t in lst:
                    if t == 'T' and re.match(r'cstl_', n):
                        by_member.setdefault(member, []).append(n)
            nsd = os.path.join(self.broot, 'namespace')
            os.makedirs(nsd, exist_ok=True)
            for n in foreign:
                member = lib_defs[n][0][0]
                anchor = sorted(by_member.get(member) or [])
                src = os.path.join(nsd, 'ns_%s.c' % re.sub(r'\W', '_', n))
                exe = src[:-2]
                with open(src, 'w') as f:
                    f.write('/* verif C18: a client with an identifier of its own that the library also defines globally */\n')
                    f.write('int %s(void);\nint %s(void)\n{\n    return 41;\n}\n' % (n, n))
                    if anchor:
                        f.write('extern void %s(void);\nstatic void (*volatile c18_anchor)(void) = %s;\n' % (anchor[0], anchor[0]))
                    f.write('int main(void)\n{\n    return (%s() == 41%s) ? 0 : 1;\n}\n' % (n, ' && c18_anchor != 0' if anchor else ''))
                cmd = ['gcc', '-std=c99', '-O1', src, '-o', exe, a, '-lm']
                rc, out = sh(cmd)
                self.vlog(' '.join(cmd), rc, out)
                self.count('namespace-clients-linked')
                if rc != 0 and not self.is_infra(rc, out):
                    self.violate('link.error.namespace.%s' % n,
                                 'libcstl.a (member %s) defines the global symbol %s, which is outside the library\'s cstl_ name space: '
                                 'a client that has a function of that name and uses %s no longer links (%s)'
                                 % (member, n, anchor[0] if anchor else 'the member', self.first_error(out)),
                                 -1, ' '.join(cmd), out,
                                 {'client': 'namespace', 'check': 'client-identifier-collides', 'symbol': n, 'desc': 'nm libcstl.a'},
                                 cls='link')
                elif rc == 0:
                    rc2, out2r = sh([exe])
                    if rc2 != 0:
                        self.violate('run.error.namespace.%s' % n, 'the client defining its own %s linked against libcstl.a but exited with %s'
                                     % (n, self.rcstr(rc2)), -1, exe, out2r,
                                     {'client': 'namespace', 'check': 'client-identifier-collides', 'symbol': n, 'desc': 'nm libcstl.a'}, cls='run')
        # client objects
        objs = list(self.bare_objs)
        for o in self.objects.values():
            if o['rc'] == 0:
                c = self.obj_cfg.get(o['key'])
                objs.append((o['obj'], self.cfg_extra(c, 'nm') if c else {'client': 'bare', 'desc': ''}))
        paths = [p for p, _ in objs]
        chunks = [paths[i:i + 100] for i in range(0, len(paths), 100)]

        def one(ch):
            return sh(['nm', '-A', '--defined-only'] + ch)
        with ThreadPoolExecutor(max_workers=WORKERS) as ex:
            outs = list(ex.map(one, chunks))
        by_obj = {}
        for rc, out in outs:
            if rc != 0:
                self.infra.append('nm failed on client objects: ' + out[-200:])
            for line in out.splitlines():
                p = line.rsplit(None, 2)
                if len(p) == 3 and len(p[1]) == 1 and ':' in p[0]:
                    by_obj.setdefault(p[0].split(':')[0], []).append((p[1], p[2]))
        inst = set()
        inl = set(self.inline_def)
        for path, extra in objs:
            for t, s in by_obj.get(path, []):
                if t == 't' and s in inl:
                    inst.add(s)
                if SAN_SYM.match(s):
                    continue
                if t in 'TDBCRSG' and s not in OWN_GLOBALS:
                    inlib = s in lib_defs
                    key = ('nm.library-function-defined-in-client.%s' if inlib else 'nm.external-definition-in-client.%s') % s
                    ex2 = dict(extra)
                    ex2['check'] = 'client-object-defines'
                    ex2['symbol'] = s
                    self.violate(key, 'a client object that only includes cstl headers (%s) defines the global symbol %s '
                                      '(nm type %s)%s: every TU including the header emits it'
                                 % (extra.get('desc', ''), s, t, ', which libcstl.a also defines' if inlib else ''),
                                 -1, 'nm --defined-only ' + path, '%s %s' % (t, s), ex2)
                elif t in 'WV' and s not in OWN_GLOBALS:
                    self.count('client-object-weak-definitions')
        self.count('client-objects-inspected-with-nm', len(paths))
        self.count('inline-functions-instantiated', len(inst))
        self.inline_missing = sorted(inl - inst)

    # ---- driver
    def run(self):
        t0 = time.time()
        for tool in ('gcc', 'make', 'nm', 'ar'):
            if shutil.which(tool) is None:
                self.infra.append('tool missing: ' + tool)
        if self.infra:
            return
        self.opts = ['-O0'] if self.tier == 'quick' else ['-O0', '-O2']
        if self.only is not None and self.only.get('opt') in ('-O0', '-O2'):
            self.opts = [self.only['opt']]
        self.snippets = load_snippets()
        self.macro_table = load_macro_table()
        self.scratch = tempfile.mkdtemp(prefix='verif-c18-')
        try:
            ok, msg = build_project(self.repo, self.scratch, self.verbose)
            self.lib_ok = ok
            if not ok:
                self.infra.append(msg)
            tb = time.time()
            self.headers = list_headers(self.scratch)
            if not self.headers:
                self.infra.append('no public headers found under include/cstl of ' + self.repo)
                return
            os.makedirs(self.broot, exist_ok=True)
            self.stage_bare()
            self.stage_dialects()
            self.stage_callshapes()
            self.stage_pollution()
            self.enumerate()
            self.ncases = len(self.configs)
            self.stage_compile()
            tc = time.time()
            if self.lib_ok:
                self.stage_link()
                tl = time.time()
                self.stage_run()
                tr = time.time()
            else:
                tl = tr = tc
                for c in self.configs:
                    c['runs'] = []
            self.stage_nm()
            for c in self.configs:
                if c.get('ok'):
                    self.cases_done += 1
                    self.done_distinct.add((c['client'], c['headers'], c['ntu'], c['mode'], c['opt'], c['san']))
                    self.done_tuples.add(c['headers'])
                elif any(o['rc'] != 0 for o in c['objs']) or c.get('link_rc') not in (None, 0) or c['runs']:
                    self.cases_failed += 1
            self.pick_samples()
            log('[clients.project] make build %.1fs, bare+compile %.1fs (%d objects), link %.1fs, run %.1fs, nm %.1fs; '
                '%d/%d configurations built+linked+run, %d declared functions (%d extern, %d inline), violations %d'
                % (tb - t0, tc - tb, len(self.objects), tl - tc, tr - tl, time.time() - tr, self.cases_done,
                   self.ncases, len(self.all_funcs), len(self.extern_decl), len(self.inline_def), len(self.violations)))
        finally:
            shutil.rmtree(self.scratch, ignore_errors=True)

    def pick_samples(self):
        want = [('alone', 1, 'static'), ('pair', 2, 'shared'), ('all', 2, 'static'), ('addr', 1, 'shared')]
        for kind, ntu, mode in want:
            for c in self.configs:
                if c['kind'] == kind and c['ntu'] == ntu and c['mode'] == mode and c.get('ok'):
                    cmds = [' '.join(o['cmd']) for o in c['objs']] + [' '.join(c['link_cmd'])] + \
                           [cmdstr([c['exe']], ev) for ev, _, _ in c['runs']]
                    self.samples.append(self.scrub('%s: %s' % (self.cfg_desc(c), ' && '.join(cmds))))
                    break

    def result(self, wall):
        inconclusive = bool(self.infra)
        return {
            'harness': 'clients', 'config': 'project', 'mode': '', 'pipeline': 'clients', 'tag': 'clients.project',
            'tier': self.tier, 'seed': self.seed, 'workers': WORKERS,
            'ncases': self.ncases, 'cases_done': self.cases_done, 'cases_failed': self.cases_failed,
            'worker_deaths': 0, 'wall_s': round(wall, 2),
            'inconclusive': inconclusive,
            'inconclusive_msg': self.scrub('; '.join(self.infra))[:3000] if inconclusive else '',
            'counters': dict(sorted(self.counters.items())),
            'distinct': {'client-configurations': len(self.done_distinct), 'header-tuples': len(self.done_tuples)},
            'distinct_nontrivial': len([d for d in self.done_distinct if len(d[1]) >= 1]),
            'required_missing': [k for k in ('call-shapes.functions-called', 'call-shapes.headers') if not self.counters.get(k)] if not self.infra else [],
            'samples': self.samples, 'violations': self.violations,
        }


def run_pipeline(pid, tier, seed, repo, broot):
    t0 = time.time()
    p = Pipeline(tier, seed, repo, broot)
    try:
        p.run()
    except Exception as e:                      # a bug here must not look like "held"
        import traceback
        p.infra.append('clients pipeline raised %s: %s' % (type(e).__name__, e))
        log(traceback.format_exc())
    res = p.result(time.time() - t0)
    if res['inconclusive']:
        log('INCONCLUSIVE: clients.project: ' + res['inconclusive_msg'])
    if getattr(p, 'inline_missing', None):
        log('[clients.project] inline functions never seen as a local definition in a client object: '
            + ' '.join(p.inline_missing[:20]))
    return res


def replay(rp, repo, broot):
    extra = rp.get('extra') or {}
    key = rp.get('key', '')
    log('replay C18: key=%s' % key)
    log('  recorded: %s' % rp.get('msg', ''))
    log('  configuration: %s' % extra.get('desc', extra))
    p = Pipeline(rp.get('tier', 'quick'), int(rp.get('seed', 1)), repo, broot, only=extra, verbose=True)
    try:
        p.run()
    except Exception as e:
        import traceback
        log(traceback.format_exc())
        log('replay: pipeline raised %s' % e)
        return 2
    finally:
        shutil.rmtree(broot, ignore_errors=True)
    if p.infra:
        log('replay: INCONCLUSIVE: ' + '; '.join(p.infra)[:2000])
    same = [v for v in p.violations if v['key'] == key]
    for v in p.violations:
        log('%s key=%s: %s' % ('STILL FAILS' if v['key'] == key else 'also observed', v['key'], v['msg']))
        if v['key'] == key:
            log(v['stderr'])
    if same:
        return 1
    if p.infra:
        return 2
    log('replay: the configuration builds, links and runs; key %s not reproduced' % key)
    return 0
