#!/usr/bin/env python3
"""Regenerate MANIFEST.json from lib/checks.py (run from /verif)."""
import json, os, sys
here = os.path.dirname(os.path.abspath(__file__))
sys.path.insert(0, here)
from checks import CHECKS, LEVEL_TEXT, NOT_APPLICABLE

root = os.path.dirname(here)
props = [json.loads(l) for l in open(os.path.join(root, 'properties.jsonl'))]
checks = []
na = []
enabled = set(open(os.path.join(here, 'enabled.txt')).read().split())
for p in props:
    pid = p['id']
    if pid in CHECKS and pid in enabled:
        c = CHECKS[pid]
        lt = LEVEL_TEXT.get(pid, {})
        checks.append({
            'property_id': pid,
            'quick_cmd': './check %s --tier quick' % pid,
            'thorough_cmd': './check %s --tier thorough' % pid,
            'evidence_file': 'evidence/%s.json' % pid,
            'replay_cmd_template': './check %s --replay {path}' % pid,
            'engine': 'vrt',
            'level_claimed': {'category': c['level'], 'text': lt.get('text', c['rule']),
                              'design_ref': lt.get('design_ref', 'DESIGN.md section 3, ' + pid)},
            'level_note': lt.get('note', '; '.join(c.get('assumptions', []))),
            'technique': lt.get('technique', 'runtime monitoring: reference-model oracle + ASan/UBSan over generated workloads'),
        })
    else:
        na.append({'property_id': pid, 'reason': NOT_APPLICABLE.get(pid, 'check not implemented yet in this revision of /verif (planned, see DESIGN.md section 3)')})
m = {
    'version': 1,
    'setup_cmd': './setup.sh',
    'hooks': {
        'guard': 'LIBCSTL_VERIF',
        'enable': 'checks compile /repo/src/*.c themselves with -DLIBCSTL_VERIF; no hook exists in the library source (all observation is by link-time interposition and shadow headers)',
        'baseline_off_cmd': 'make -C /repo test',
        'source_commits': [],
        'add_only': True,
    },
    'engines': [
        {'name': 'vrt', 'path': 'rt/', 'serves_properties': [c['property_id'] for c in checks],
         'kind_free_text': 'forking harness supervisor with allocator/abort/assert interposition, reference-model monitors, closure workload generator, controlled scheduler; sanitizers as memory oracles'},
    ],
    'checks': checks,
    'not_applicable': na,
    'notes': 'All checks rebuild the library from /repo (or $VERIF_REPO) on every invocation. VERIF_SEED and VERIF_TIER are honoured. exit 0 held / 1 violation / 2 inconclusive.',
}
json.dump(m, open(os.path.join(root, 'MANIFEST.json'), 'w'), indent=1)
print('checks:', len(checks), 'not_applicable:', len(na))
