/* Shadow <sched.h>: sched_yield() in library code becomes a scheduler yield. */
#ifndef VERIF_SHIM_SCHED_H
#define VERIF_SHIM_SCHED_H
#include_next <sched.h>
int vsched_yield(void);
#define sched_yield() vsched_yield()
#endif
