/*
 * Shadow <stdatomic.h> for the C06 harnesses (DESIGN.md 2.5): placed first on
 * the include path when compiling the *unmodified* library sources, it wraps
 * every generic atomic operation (the ones src/memory.c uses today and the ones
 * a rewrite of it would plausibly use: exchange, compare-exchange, fetch-or/and/xor
 * and all the _explicit forms) with a call to vsched_point(kind, address)
 * immediately before the real operation.  The harness defines vsched_point
 * (schedule point of the controlled scheduler, or injected delay in the
 * real-thread runs).
 *
 * The operands are evaluated BEFORE the schedule point of the operation itself, so
 * that in atomic_store(&c, atomic_load(&c) + 1) other threads can run between the
 * load and the store.  The operation itself is the compiler builtin with the
 * memory order the library asked for.
 */
#ifndef VERIF_SHIM_STDATOMIC_H
#define VERIF_SHIM_STDATOMIC_H
#include_next <stdatomic.h>

void vsched_point(int kind, const volatile void *addr);
enum { VSP_LOAD = 1, VSP_ADD, VSP_SUB, VSP_TAS, VSP_CLEAR, VSP_STORE, VSP_YIELD, VSP_FREE, VSP_CLRCB, VSP_OP, VSP_XCHG, VSP_CAS, VSP_RMW };

#undef atomic_load_explicit
#define atomic_load_explicit(p, mo) \
    __extension__ ({ __typeof__(p) vs_p_ = (p); vsched_point(VSP_LOAD, vs_p_); __atomic_load_n(vs_p_, (mo)); })
#undef atomic_load
#define atomic_load(p) atomic_load_explicit((p), memory_order_seq_cst)

#undef atomic_store_explicit
#define atomic_store_explicit(p, v, mo) \
    __extension__ ({ __typeof__(p) vs_p_ = (p); __typeof__(__atomic_load_n((p), 0)) vs_v_ = (v); \
        vsched_point(VSP_STORE, vs_p_); __atomic_store_n(vs_p_, vs_v_, (mo)); })
#undef atomic_store
#define atomic_store(p, v) atomic_store_explicit((p), (v), memory_order_seq_cst)

#define VS_RMW_(builtin, kind, p, v, mo) \
    __extension__ ({ __typeof__(p) vs_p_ = (p); __typeof__(__atomic_load_n((p), 0)) vs_v_ = (v); \
        vsched_point((kind), vs_p_); builtin(vs_p_, vs_v_, (mo)); })
#undef atomic_fetch_add_explicit
#define atomic_fetch_add_explicit(p, v, mo) VS_RMW_(__atomic_fetch_add, VSP_ADD, p, v, mo)
#undef atomic_fetch_add
#define atomic_fetch_add(p, v) atomic_fetch_add_explicit((p), (v), memory_order_seq_cst)
#undef atomic_fetch_sub_explicit
#define atomic_fetch_sub_explicit(p, v, mo) VS_RMW_(__atomic_fetch_sub, VSP_SUB, p, v, mo)
#undef atomic_fetch_sub
#define atomic_fetch_sub(p, v) atomic_fetch_sub_explicit((p), (v), memory_order_seq_cst)
#undef atomic_fetch_or_explicit
#define atomic_fetch_or_explicit(p, v, mo) VS_RMW_(__atomic_fetch_or, VSP_RMW, p, v, mo)
#undef atomic_fetch_or
#define atomic_fetch_or(p, v) atomic_fetch_or_explicit((p), (v), memory_order_seq_cst)
#undef atomic_fetch_and_explicit
#define atomic_fetch_and_explicit(p, v, mo) VS_RMW_(__atomic_fetch_and, VSP_RMW, p, v, mo)
#undef atomic_fetch_and
#define atomic_fetch_and(p, v) atomic_fetch_and_explicit((p), (v), memory_order_seq_cst)
#undef atomic_fetch_xor_explicit
#define atomic_fetch_xor_explicit(p, v, mo) VS_RMW_(__atomic_fetch_xor, VSP_RMW, p, v, mo)
#undef atomic_fetch_xor
#define atomic_fetch_xor(p, v) atomic_fetch_xor_explicit((p), (v), memory_order_seq_cst)
#undef atomic_exchange_explicit
#define atomic_exchange_explicit(p, v, mo) VS_RMW_(__atomic_exchange_n, VSP_XCHG, p, v, mo)
#undef atomic_exchange
#define atomic_exchange(p, v) atomic_exchange_explicit((p), (v), memory_order_seq_cst)

#define VS_CAS_(weak, p, e, d, s, f) \
    __extension__ ({ __typeof__(p) vs_p_ = (p); __typeof__(e) vs_e_ = (e); __typeof__(__atomic_load_n((p), 0)) vs_d_ = (d); \
        vsched_point(VSP_CAS, vs_p_); __atomic_compare_exchange_n(vs_p_, vs_e_, vs_d_, (weak), (s), (f)); })
#undef atomic_compare_exchange_strong_explicit
#define atomic_compare_exchange_strong_explicit(p, e, d, s, f) VS_CAS_(0, p, e, d, s, f)
#undef atomic_compare_exchange_strong
#define atomic_compare_exchange_strong(p, e, d) VS_CAS_(0, p, e, d, memory_order_seq_cst, memory_order_seq_cst)
#undef atomic_compare_exchange_weak_explicit
#define atomic_compare_exchange_weak_explicit(p, e, d, s, f) VS_CAS_(1, p, e, d, s, f)
#undef atomic_compare_exchange_weak
#define atomic_compare_exchange_weak(p, e, d) VS_CAS_(1, p, e, d, memory_order_seq_cst, memory_order_seq_cst)

#undef atomic_flag_test_and_set_explicit
#define atomic_flag_test_and_set_explicit(p, mo) \
    __extension__ ({ __typeof__(p) vs_p_ = (p); vsched_point(VSP_TAS, vs_p_); (_Bool)__atomic_test_and_set((void *)vs_p_, (mo)); })
#undef atomic_flag_test_and_set
#define atomic_flag_test_and_set(p) atomic_flag_test_and_set_explicit((p), memory_order_seq_cst)
#undef atomic_flag_clear_explicit
#define atomic_flag_clear_explicit(p, mo) \
    __extension__ ({ __typeof__(p) vs_p_ = (p); vsched_point(VSP_CLEAR, vs_p_); __atomic_clear((void *)vs_p_, (mo)); })
#undef atomic_flag_clear
#define atomic_flag_clear(p) atomic_flag_clear_explicit((p), memory_order_seq_cst)

#endif
