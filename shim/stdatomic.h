/*
 * Shadow <stdatomic.h> for the C06 harnesses (DESIGN.md 2.5): placed first on
 * the include path when compiling the *unmodified* library sources, it wraps
 * every generic atomic operation src/memory.c uses with a call to
 * vsched_point(kind, address) immediately before the real, sequentially
 * consistent operation.  The harness defines vsched_point (schedule point of
 * the controlled scheduler, or injected delay in the real-thread runs).
 */
#ifndef VERIF_SHIM_STDATOMIC_H
#define VERIF_SHIM_STDATOMIC_H
#include_next <stdatomic.h>

void vsched_point(int kind, const volatile void *addr);
enum { VSP_LOAD = 1, VSP_ADD, VSP_SUB, VSP_TAS, VSP_CLEAR, VSP_STORE, VSP_YIELD, VSP_FREE, VSP_CLRCB, VSP_OP };

#undef atomic_load
#define atomic_load(p) \
    (vsched_point(VSP_LOAD, (p)), atomic_load_explicit((p), memory_order_seq_cst))
#undef atomic_store
#define atomic_store(p, v) \
    (vsched_point(VSP_STORE, (p)), atomic_store_explicit((p), (v), memory_order_seq_cst))
#undef atomic_fetch_add
#define atomic_fetch_add(p, v) \
    (vsched_point(VSP_ADD, (p)), atomic_fetch_add_explicit((p), (v), memory_order_seq_cst))
#undef atomic_fetch_sub
#define atomic_fetch_sub(p, v) \
    (vsched_point(VSP_SUB, (p)), atomic_fetch_sub_explicit((p), (v), memory_order_seq_cst))
#undef atomic_flag_test_and_set
#define atomic_flag_test_and_set(p) \
    (vsched_point(VSP_TAS, (p)), atomic_flag_test_and_set_explicit((p), memory_order_seq_cst))
#undef atomic_flag_clear
#define atomic_flag_clear(p) \
    (vsched_point(VSP_CLEAR, (p)), atomic_flag_clear_explicit((p), memory_order_seq_cst))

#endif
