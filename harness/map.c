/*
 * C08 -- the map keeps exactly one entry per key and never replaces or loses
 * one silently.  (Also used by C15 via mode "clear".)
 *
 * Keys are boxed integers: for every key VALUE there are `no` distinct key
 * OBJECTS (separate vrt_alloc blocks) and `no` distinct value objects, so
 * "the stored key/value pointers stay untouched" is observable by address.
 * The NULL pointer is itself one legal key (key object 0 of value 0; the
 * comparison maps NULL to value 0 without dereferencing it), stored and reported
 * like any other key pointer.
 * A share of the entries is inserted with a NULL value pointer (legal: the
 * value is an opaque void *); the model then stores NULL as the value pointer
 * and every report (insert-existing, find, erase, clear callback) must show it.
 *
 * Oracles (after every call):
 *   - reference model  value -> (stored key pointer, stored value pointer,
 *     library block allocated by the insert); return codes and iterator
 *     contents compared field by field, end = cstl_map_iterator_end(map);
 *   - allocator events: new-key insert = exactly one block (net), existing-key
 *     insert / find / failed erase = no net change, erase = exactly the block
 *     the insert allocated, clear = all of them; vrt_lib_live() == size;
 *   - out-iterators are ONE variable re-used by every operation; on entry it holds a sentinel, the previous call's
 *     result, an older result for the same / another value (live, erased since, left over from erase_iterator, node
 *     memory handed out again), the iterator of the same key object in ANOTHER map, or that map's end (section
 *     "the out-iterator"); the expected outcome never depends on it, and the other map must be left alone;
 *   - clear callback: exactly-once per entry with its stored (key, value);
 *     the boxed objects are poisoned and freed inside the callback;
 *   - ASan/UBSan; erased key/value objects are poisoned and freed right after
 *     the erase, so any later comparison against a "lost" entry is a report;
 *   - extra (white box, own keys map.walker.*): red-black rules, parent links,
 *     order and node<->entry correspondence on the embedded tree.
 *
 * cases: [0, nccases)     closure scopes (one case each; signature = model, or model +
 *                         shape/colours of the embedded tree) and bounded-exhaustive
 *                         sequence scopes (signature = history; partitioned into one
 *                         case per first operation so that they spread over the workers)
 *        [nccases, ...)   seeded random histories (10^4 ops over <= 64 values, insertion
 *                         sweeps ascending / descending / shuffled, both comparisons)
 * mode "clear" (C15): closure with two probes per new state (clear with the freeing
 * callback / with NULL, then re-use), plus large random maps (up to 4096 entries).
 */
#include "vrt.h"
#include "explore.h"
#include "cstl/map.h"
#include <string.h>
#include <stdio.h>

#define MAXV 4096
#define MAXO 3
#define VO_NULL 3               /* value-object index meaning "the value pointer is NULL" (legal: val is opaque) */
#define KMAGIC 0x4b455921u
#define VMAGIC 0x56414c21u

struct kobj { uint32_t magic; int val, obj, stored; uint64_t pad; };
struct vobj { uint32_t magic; int val, obj, stored; uint64_t pad; };

struct ment {
    int present;                /* the value is in the map */
    struct kobj *k;             /* stored key pointer; NULL for the NULL-pointer key (value 0, key object 0) */
    struct vobj *v;             /* stored value pointer; may be NULL while the value is present */
    void *blk;                  /* library block allocated by the insert */
    const void *handed_k;       /* clear bookkeeping: key pointer handed over (never dereferenced) */
    int handed;
};

static struct kobj *K[MAXV][MAXO];
static struct vobj *V[MAXV][MAXO];
static struct ment M[MAXV];
static int Mn;                  /* number of present values */
static int nv, no, desc, sigmode;
static cstl_map_t *map;         /* own heap block; never moved after init */
#define CLR_COOKIE_VALUE 0x636c7221
static int cmp_cookie, clr_cookie = CLR_COOKIE_VALUE;
static uint64_t hist;           /* hash of the ops applied so far (history signature) */
static int cleared_once;        /* a clear happened earlier in this state's history */
static uint64_t ncmp;
static int in_closure;          /* running under vex_closure (state accounting is done there) */

enum { SIG_ABSTRACT = 0, SIG_SHAPE = 1, SIG_HISTORY = 2 };

#define END (cstl_map_iterator_end(map))
#define FAILK(ctx, what, ...) do { char _k[160];                         \
        snprintf(_k, sizeof(_k), "map.%s.%s", (ctx), (what));            \
        vrt_fail(_k, __VA_ARGS__); } while (0)

/* ------------------------------------------------------------------ */
/* boxed keys and values                                               */
/* ------------------------------------------------------------------ */
/* The NULL pointer is one legal key (the `(void *)(intptr_t)id` idiom with id 0: keys are opaque to
 * the map, only the caller's comparison interprets them): key object 0 of value 0 IS the NULL pointer. */
static int is_null_key(int v, int o) { return v == 0 && o == 0; }
static struct kobj *getk(int v, int o)
{
    struct kobj *k;
    if (is_null_key(v, o)) return NULL;
    k = K[v][o];
    if (k == NULL) {
        k = vrt_alloc(sizeof(*k));
        memset(k, 0x4b, sizeof(*k));
        k->magic = KMAGIC; k->val = v; k->obj = o; k->stored = 0;
        K[v][o] = k;
    }
    return k;
}
static struct vobj *getv(int v, int o)
{
    struct vobj *x;
    if (o == VO_NULL) return NULL;
    x = V[v][o];
    if (x == NULL) {
        x = vrt_alloc(sizeof(*x));
        memset(x, 0x56, sizeof(*x));
        x->magic = VMAGIC; x->val = v; x->obj = o; x->stored = 0;
        V[v][o] = x;
    }
    return x;
}
/* the map has given the entry up: poison and free its boxed key and value */
static void release_objs(int v)
{
    struct kobj *k = M[v].k;
    struct vobj *x = M[v].v;
    if (k != NULL) {            /* the NULL-pointer key has no object */
        K[v][k->obj] = NULL;
        memset(k, 0xa5, sizeof(*k));
        vrt_free(k);
    }
    if (x != NULL) {            /* entries may carry a NULL value pointer */
        V[v][x->obj] = NULL;
        memset(x, 0xa5, sizeof(*x));
        vrt_free(x);
    }
    M[v].k = NULL; M[v].v = NULL; M[v].present = 0;
}

/* value of a key as the comparison sees it: the NULL pointer is the key of value 0 (never dereferenced),
 * anything else must be a live key object */
static int key_value(const void *a)
{
    const struct kobj *x = a;
    if (x == NULL) { VRT_COUNT("cmp.null-key-argument"); return 0; }
    VRT_CHECK(x->magic == KMAGIC, "map.cmp.non-key", "comparison called with something that is not a live key object");
    return x->val;
}
static int cmp_common(const void *a, const void *b, void *p)
{
    int x, y;
    VRT_CHECK(p == (void *)&cmp_cookie, "map.cmp.priv", "comparison called with priv %p, map was initialised with %p",
              p, (void *)&cmp_cookie);
    x = key_value(a); y = key_value(b);
    ncmp++;
    return (x > y) - (x < y);
}
/* two different functions: ascending returns magnitudes on the edges of the integer types (1 .. INT_MAX, INT_MIN), descending +-1 */
static int cmp_asc(const void *a, const void *b, void *p) { return vrt_cmp_result(cmp_common(a, b, p), (unsigned)(key_value(a) * 5 + key_value(b) * 3) | (unsigned)key_value(a) << 16); }
static int cmp_desc(const void *a, const void *b, void *p) { return -cmp_common(a, b, p); }

/* ------------------------------------------------------------------ */
/* allocator-event checker                                             */
/* ------------------------------------------------------------------ */
struct evsum {
    int nnew; void *newblk[8];
    int nfreed; void *freed[VRT_EV_MAX];
    int transient, overflow, reallocs;
};
static int other_n;                     /* node blocks that belong to the OTHER map (see "the out-iterator" below) */
static void other_map_verify(void);
static void ev_sum(struct evsum *s)
{
    int n = vrt_ev_n(), i, j;
    other_map_verify();         /* (once per build) the call on `map` left the other map alone; allocates nothing */
    memset(s, 0, offsetof(struct evsum, freed));
    s->transient = s->overflow = s->reallocs = 0;
    if (n > VRT_EV_MAX) { s->overflow = 1; n = VRT_EV_MAX; }
    for (i = 0; i < n; i++) {
        const struct vrt_aev *e = vrt_ev(i);
        switch (e->kind) {
        case 'm': case 'c':
            if (!e->failed && e->p != NULL) {
                if (s->nnew < 8) s->newblk[s->nnew] = e->p;
                s->nnew++;
            }
            break;
        case 'r':
            s->reallocs++;
            break;
        case 'f':
            if (e->p == NULL) break;
            for (j = 0; j < s->nnew && j < 8; j++) if (s->newblk[j] == e->p) break;
            if (j < s->nnew && j < 8) {
                memmove(&s->newblk[j], &s->newblk[j + 1], (7 - j) * sizeof(s->newblk[0]));
                s->nnew--; s->transient++;
            } else {
                s->freed[s->nfreed++] = e->p;
            }
            break;
        }
    }
    if (s->transient) VRT_COUNT_N("alloc.transient-blocks", s->transient);
}
static size_t lib_live(void) { return vrt_lib_live() - (size_t)other_n; }
/* The allocator events are compared with the CURRENT implementation's pattern (one block per entry, allocated by its insert,
 * freed by its erase, nothing else).  C08 states none of that: it demands that clear releases everything the map allocated (and
 * C16 that failure is reported the documented way).  A map that pools its nodes is just as correct, so a deviation from the
 * pattern is an OBSERVATION (counted in the evidence, the pattern is then no longer applied in this case), not a violation;
 * what stays a violation: library blocks live after clear / at the end, and whatever the sanitizers see. */
static int alloc_model_off;
#define SOFTK(ctx, what) do { char _k[160]; snprintf(_k, sizeof(_k), "alloc.pattern-deviation.%s", (what)); (void)(ctx); \
        vrt_count_dyn(_k, 1); alloc_model_off = 1; VRT_COUNT("alloc.pattern.abandoned-for-the-case"); } while (0)
static void alloc_live(const char *ctx)
{
    if (alloc_model_off) return;
    if (lib_live() != (size_t)Mn) SOFTK(ctx, "live-count");
}
/* the call must not have changed the set of live library blocks */
static void alloc_none(const char *ctx)
{
    struct evsum s;
    if (alloc_model_off) return;
    ev_sum(&s);
    if (s.reallocs) { SOFTK(ctx, "realloc"); return; }
    if (s.nnew != 0) { SOFTK(ctx, "block-kept-by-a-call-that-adds-no-entry"); return; }
    if (s.nfreed != 0) { SOFTK(ctx, "block-freed-by-a-call-that-removes-no-entry"); return; }
    alloc_live(ctx);
}
/* exactly one block gained: returns it */
static void *alloc_one(const char *ctx)
{
    struct evsum s;
    if (alloc_model_off) return NULL;
    ev_sum(&s);
    if (s.reallocs) { SOFTK(ctx, "realloc"); return NULL; }
    if (s.nnew != 1) { SOFTK(ctx, "insert-kept-other-than-one-new-block"); return NULL; }
    if (s.nfreed != 0) { SOFTK(ctx, "block-freed-by-an-insert"); return NULL; }
    VRT_COUNT("alloc.node-malloc");
    return s.newblk[0];
}
/* exactly the block of entry v released */
static void alloc_freed(const char *ctx, int v)
{
    struct evsum s;
    if (alloc_model_off) return;
    ev_sum(&s);
    if (s.reallocs) { SOFTK(ctx, "realloc"); return; }
    if (s.nnew != 0) { SOFTK(ctx, "block-kept-by-an-erase"); return; }
    if (s.nfreed == 0) { SOFTK(ctx, "erase-freed-nothing"); return; }
    if (s.nfreed != 1 || s.freed[0] != M[v].blk) { SOFTK(ctx, "erase-freed-another-block"); return; }
    VRT_COUNT("alloc.node-free");
}

/* ------------------------------------------------------------------ */
/* checked calls                                                       */
/* ------------------------------------------------------------------ */
static void check_size(const char *ctx)
{
    const size_t sz = cstl_map_size(map);
    if (sz != (size_t)Mn) FAILK(ctx, "size", "cstl_map_size = %zu, reference holds %d entries", sz, Mn);
}

static void is_end(const cstl_map_iterator_t *i, const char *ctx, int v)
{
    if (!cstl_map_iterator_eq(i, END))
        FAILK(ctx, "absent.not-end", "value %d is not in the map but the iterator does not compare equal to end", v);
    if (i->key != END->key || i->val != END->val)
        FAILK(ctx, "absent.end-fields", "value %d: iterator compares equal to end but carries key %p / val %p",
              v, i->key, i->val);
}

/* ------------------------------------------------------------------ */
/* the out-iterator: ONE variable for every call, and what it holds on entry */
/* ------------------------------------------------------------------ */
/* The iterator arguments of insert / find / erase are [out]: whatever they hold on entry must not matter.  Every
 * operation of the workload hands the library the SAME variable CI; on entry it holds, chosen from the history hash:
 *   a sentinel pattern; whatever the previous call left in it (never reset); the last iterator this map produced for the
 *   SAME value (still the live entry = benign, or the entry has been erased since: reported by erase, left over from
 *   erase_iterator, node memory possibly handed out again to a later insert); the last iterator produced for ANOTHER
 *   value; the iterator of the very same key object in ANOTHER map (which holds a different value for it); that map's end.
 * The expected outcome is the model's, exactly as with a sentinel.  The independent finds of the oracle (then-find, audit)
 * keep their own sentinel-filled local. */
enum { IT_SENTINEL = 0, IT_ENTRY, IT_ERASE_REPORT, IT_ERASE_IT_LEFTOVER, IT_END, IT_OTHER_MAP, IT_OTHER_END };
enum { EP_INSERT = 0, EP_FIND, EP_ERASE };
struct itdesc { int how, v; unsigned gen; const void *blk; };   /* what an iterator content is, by the model's knowledge */
static cstl_map_iterator_t CI;
static struct itdesc CId;
static cstl_map_iterator_t last_it[MAXV];       /* last iterator content produced for the value */
static struct itdesc last_d[MAXV];
static unsigned gen[MAXV];                      /* incarnation of the value's entry (bumped when the entry goes) */
static unsigned arrivals, other_serial;
static int lean;                                /* rebuilding a known state (closure replay): no other-map builds */
static cstl_map_t other;                        /* the other map: same comparison, shares key objects, own values */
static int other_fresh;
static cstl_map_iterator_t other_it;
static struct kobj *other_k;
static int foreign_val[2];

/* "the caller changes a key object it still owns" (do_rekey below): no call on any map between the two calls, and
 * violations seen by the second call are reported under map.changed-probe-key.* */
static int no_other, rekeyed;
static const char *RK(const char *key)
{
    static char b[160];
    if (!rekeyed) return key;
    snprintf(b, sizeof(b), "map.changed-probe-key.%s", key + 4);        /* every key starts with "map." */
    return b;
}

#define ARR(ep, what) do {                                                      \
        if ((ep) == EP_INSERT) VRT_COUNT("op.insert.arrives." what);            \
        else if ((ep) == EP_FIND) VRT_COUNT("op.find.arrives." what);           \
        else VRT_COUNT("op.erase.arrives." what); } while (0)

/* CI now holds what the call just produced for value v */
static void it_now(int how, int v)
{
    CId.how = how; CId.v = v; CId.gen = gen[v]; CId.blk = M[v].blk;
    last_it[v] = CI; last_d[v] = CId;
}
static void it_now_end(void) { CId.how = IT_END; CId.v = 0; CId.gen = 0; CId.blk = NULL; }

static void other_map_drop(void)
{
    size_t before;
    if (other_n == 0) return;
    before = vrt_lib_live();
    vrt_state("other-map");
    VRT_OP1("map.other-map.clear", "entries=%ld", other_n);
    cstl_map_clear(&other, NULL, NULL);         /* never looks at the keys (some may be gone by now) */
    VRT_CHECK(vrt_lib_live() + (size_t)other_n == before && cstl_map_size(&other) == 0, "map.other-map.clear",
              "clear of the other map (%d entries) released %zu blocks", other_n, before - vrt_lib_live());
    other_n = 0; other_fresh = 0;
}
/* the other map holds key object k (of value v) with a value of its own; CI = its iterator there */
static void other_map_build(int v, struct kobj *k, unsigned sel)
{
    size_t before;
    int r, want = 1;
    other_map_drop();
    before = vrt_lib_live();
    memset(&other, 0xc3, sizeof(other));
    vrt_state("other-map");
    VRT_OP2("map.other-map.build", "v%ld neighbour=%ld", v, sel & 1);
    cstl_map_init(&other, desc ? cmp_desc : cmp_asc, &cmp_cookie);
    if (sel & 1) {              /* a neighbour first: the shared key is not the root then */
        const int u = (v + 1 + (int)(sel >> 1 & 1)) % nv;
        r = cstl_map_insert(&other, getk(u, no - 1), &foreign_val[1], NULL);
        VRT_CHECK(r == 0, "map.other-map.build", "insert into the fresh other map returned %d", r);
        want = 2;
    }
    if (sel & 4) {
        r = cstl_map_insert(&other, k, &foreign_val[0], &CI);
    } else {
        r = cstl_map_insert(&other, k, &foreign_val[0], NULL);
        cstl_map_find(&other, k, &CI);
    }
    VRT_CHECK(r == 0 && !cstl_map_iterator_eq(&CI, cstl_map_iterator_end(&other)) && CI.key == (const void *)k
              && CI.val == (void *)&foreign_val[0] && vrt_lib_live() == before + (size_t)want
              && cstl_map_size(&other) == (size_t)want, "map.other-map.build",
              "other map: insert of value %d returned %d, iterator key %p (offered %p), %zu new blocks", v, r, CI.key,
              (void *)k, vrt_lib_live() - before);
    other_n = want; other_fresh = 1; other_k = k; other_it = CI; other_serial++;
    CId.how = IT_OTHER_MAP; CId.v = v; CId.gen = other_serial; CId.blk = NULL;
    VRT_COUNT("other-map.built");
}
/* right after the call on `map` that was handed the other map's iterator: the other map is as it was */
static void other_map_verify(void)
{
    cstl_map_iterator_t j;
    if (!other_fresh) return;
    other_fresh = 0;
    vrt_state("other-map");
    VRT_OP1("map.other-map.check", "entries=%ld", other_n);
    VRT_CHECK(cstl_map_size(&other) == (size_t)other_n, "map.other-map.size",
              "a call on the map changed the size of ANOTHER map (whose iterator the out-parameter held on entry) from %d to %zu",
              other_n, cstl_map_size(&other));
    memset(&j, 0x5a, sizeof(j));
    cstl_map_find(&other, other_k, &j);
    VRT_CHECK(j._ == other_it._ && j.key == other_it.key && j.val == other_it.val, "map.other-map.entry",
              "after a call on the map, the entry of ANOTHER map (whose iterator the out-parameter held on entry) reads key %p / val %p, it was %p / %p",
              j.key, j.val, other_it.key, other_it.val);
    VRT_COUNT("other-map.verified");
}

/* load CI for a call of entry point ep that is about to get key object k of value v */
static void arrive(int ep, int v, struct kobj *k)
{
    const unsigned sel = (unsigned)(vrt_mix(hist, 0xa77100u + arrivals++) >> 9);
    int kind = (int)(sel & 15), u, j, names;
    struct itdesc d;

    if ((lean || no_other) && (kind == 11 || kind == 13)) kind = 2;
    if (no_other && kind == 14) kind = 2;
    if (((kind >= 6 && kind <= 8) || kind == 12 || kind == 15) && last_d[v].how == IT_SENTINEL) kind = 2;      /* nothing produced for v yet: carried */
    if (kind == 9 || kind == 10) {
        u = (v + 1 + (int)((sel >> 4) % (unsigned)(nv - 1))) % nv;
        for (j = 0; j < 4 && (u == v || last_d[u].how == IT_SENTINEL); j++) u = (u + 1) % nv;
        if (u == v || last_d[u].how == IT_SENTINEL) kind = 2;
        else { CI = last_it[u]; CId = last_d[u]; }
    }
    switch (kind) {
    case 0: case 1:
        memset(&CI, 0x5a, sizeof(CI));
        CId.how = IT_SENTINEL;
        break;
    case 6: case 7: case 8: case 12: case 15:
        CI = last_it[v]; CId = last_d[v];
        break;
    case 11:
        other_map_build(v, k, sel >> 4);
        break;
    case 13:                    /* the key object the map has stored, where that is a different one */
        other_map_build(v, M[v].present ? M[v].k : k, sel >> 4);
        break;
    case 14:
        other_map_drop();
        memset(&other, 0x3c, sizeof(other));
        cstl_map_init(&other, desc ? cmp_desc : cmp_asc, &cmp_cookie);
        CI = *cstl_map_iterator_end(&other);
        CId.how = IT_OTHER_END;
        break;
    default:                    /* 2..5 (and fallbacks): the variable is simply used again */
        VRT_COUNT("arrive.carried");
        break;
    }
    d = CId;
    names = CI.key == (const void *)k && (d.how == IT_ENTRY || d.how == IT_ERASE_IT_LEFTOVER || d.how == IT_OTHER_MAP);
    switch (d.how) {
    case IT_SENTINEL: ARR(ep, "sentinel"); break;
    case IT_END: ARR(ep, "end"); break;
    case IT_OTHER_END: ARR(ep, "other-map-end"); break;
    case IT_ERASE_REPORT: ARR(ep, "erase-report"); break;
    case IT_OTHER_MAP:
        ARR(ep, "other-map-entry");     /* always fresh: any call in between would have overwritten CI */
        break;
    default:
        if (M[d.v].present && gen[d.v] == d.gen) {
            if (d.v == v) ARR(ep, "same-entry"); else ARR(ep, "another-live-entry");
        } else {
            ARR(ep, "gone-entry");
            if (d.how == IT_ERASE_IT_LEFTOVER) ARR(ep, "gone-entry.erase_iterator-leftover");
            if (d.v == v && M[v].present) ARR(ep, "gone-entry.value-inserted-again");
            if (nv <= 64) {
                for (u = 0; u < nv; u++) if (M[u].present && M[u].blk == d.blk) break;
                if (u < nv) {
                    ARR(ep, "gone-entry.node-memory-reused");
                    if (u == v) ARR(ep, "gone-entry.node-memory-reused.by-this-value");
                }
            }
        }
        break;
    }
    if (names) {
        ARR(ep, "names-key-pointer");
        if (!M[v].present) ARR(ep, "names-key-pointer.value-absent");
    }
}

/* find value v with key object po and compare with the model; shared: the out-iterator is CI (see above), else a local */
#define check_find(v, po, ctx, out) check_find_x(v, po, ctx, out, 0)
static void check_find_x(int v, int po, const char *ctx, cstl_map_iterator_t *out, int shared)
{
    struct kobj *k = getk(v, po);
    cstl_map_iterator_t loc, *const ip = shared ? &CI : &loc;
    if (shared) arrive(EP_FIND, v, k); else memset(&loc, 0x5a, sizeof(loc));
    vrt_state(M[v].present ? (M[v].k == k ? "present-same-key-object" : "present-other-key-object") : (Mn ? "absent" : "empty"));
    VRT_OP2("map.find", "v%ld key#%ld", v, po);
    vrt_ev_begin();
    cstl_map_find(map, k, ip);
    if (M[v].present) {
        if (cstl_map_iterator_eq(ip, END))
            FAILK(ctx, "present.is-end", "value %d is in the map but find yields the end iterator", v);
        if (ip->key != M[v].k)
            FAILK(ctx, "present.key", "value %d: find yields key pointer %p, the stored key pointer is %p (object #%d)",
                  v, ip->key, (void *)M[v].k, M[v].k ? M[v].k->obj : 0);
        if (ip->val != M[v].v)
            FAILK(ctx, "present.val", "value %d: find yields value pointer %p, the stored value pointer is %p",
                  v, ip->val, (void *)M[v].v);
        VRT_COUNT("op.find.present");
        if (M[v].k != k) VRT_COUNT("op.find.present.other-key-object");
        if (M[v].v == NULL) VRT_COUNT("op.find.present.null-value");
        if (M[v].k == NULL) VRT_COUNT("op.find.null-key.present");          /* the stored key pointer is NULL */
        else if (k == NULL) VRT_COUNT("op.find.null-key.probe-other-stored");
    } else {
        is_end(ip, ctx, v);
        VRT_COUNT("op.find.absent");
        if (k == NULL) VRT_COUNT("op.find.null-key.absent");
    }
    if (shared) { if (M[v].present) it_now(IT_ENTRY, v); else it_now_end(); }
    alloc_none(ctx);
    if (out) *out = *ip;
}

static void where_counts(int v)
{
    int lo = 0, hi = 0, u;
    for (u = v - 1; u >= 0 && !lo; u--) lo = M[u].present;
    for (u = v + 1; u < nv && !hi; u++) hi = M[u].present;
    if (lo && hi) VRT_COUNT("op.insert.new.between");
    else if (lo) VRT_COUNT("op.insert.new.above-all");
    else if (hi) VRT_COUNT("op.insert.new.below-all");
    else VRT_COUNT("op.insert.new.into-empty");
}

static void do_insert(int v, int ko, int vo, int with_it, cstl_map_iterator_t *out, int level)
{
    struct kobj *k = getk(v, ko);
    struct vobj *x = getv(v, vo);
    struct kobj *const ok = M[v].k;
    struct vobj *const ov = M[v].v;
    const int present = M[v].present;
    int r;

    if (with_it) arrive(EP_INSERT, v, k);
    vrt_state(present ? (ok == k ? "existing-same-key-object" : "existing-other-key-object") : (Mn ? "new" : "new-into-empty"));
    VRT_OP4("map.insert", "v%ld key#%ld val#%ld iter=%ld", v, ko, vo, with_it);
    vrt_ev_begin();
    r = cstl_map_insert(map, k, x, with_it ? &CI : NULL);
    if (present) {
        VRT_CHECK(r == 1, RK("map.insert.existing.ret"), "insert of existing value %d returned %d, expected 1", v, r);
        if (with_it) {
            VRT_CHECK(!cstl_map_iterator_eq(&CI, END), RK("map.insert.existing.iter-is-end"),
                      "insert of existing value %d yields the end iterator", v);
            VRT_CHECK(CI.key == ok, RK("map.insert.existing.iter-key"),
                      "insert of existing value %d: iterator key %p is not the stored key pointer %p (inserted key object %p)",
                      v, CI.key, (void *)ok, (void *)k);
            VRT_CHECK(CI.val == ov, RK("map.insert.existing.iter-val"),
                      "insert of existing value %d: iterator value %p is not the stored value pointer %p (offered value %p)",
                      v, CI.val, (void *)ov, (void *)x);
        }
        alloc_none("insert.existing");
        VRT_COUNT("op.insert.existing");
        if (ok != k) VRT_COUNT("op.insert.existing.other-key-object");
        if (ok == NULL) VRT_COUNT("op.insert.existing.stored-null-key");
        if (ok == NULL && k != NULL) VRT_COUNT("op.insert.existing.stored-null-key.other-key-object");
        if (ok != NULL && k == NULL) VRT_COUNT("op.insert.existing.offered-null-key");
        if (ov != x) VRT_COUNT("op.insert.existing.other-value-object");
        if (ov == NULL) VRT_COUNT("op.insert.existing.stored-null-value");
        if (x == NULL && ov != NULL) VRT_COUNT("op.insert.existing.offered-null-value");
        if (level >= 1) {
            /* stored pointers untouched, observed through an independent find with the other key object */
            check_find(v, (ko + 1) % no, "insert.existing.then-find", NULL);
        }
    } else {
        VRT_CHECK(r == 0, RK("map.insert.new.ret"), "insert of new value %d returned %d, expected 0", v, r);
        if (with_it) {
            VRT_CHECK(!cstl_map_iterator_eq(&CI, END), RK("map.insert.new.iter-is-end"),
                      "insert of new value %d yields the end iterator", v);
            VRT_CHECK(CI.key == k, RK("map.insert.new.iter-key"), "insert of new value %d: iterator key %p, inserted %p",
                      v, CI.key, (void *)k);
            VRT_CHECK(CI.val == x, RK("map.insert.new.iter-val"), "insert of new value %d: iterator value %p, inserted %p",
                      v, CI.val, (void *)x);
        }
        M[v].blk = alloc_one("insert.new");
        M[v].present = 1; M[v].k = k; M[v].v = x;
        if (k != NULL) k->stored = 1; else VRT_COUNT("op.insert.null-key");
        if (x != NULL) x->stored = 1; else VRT_COUNT("op.insert.null-value");
        Mn++;
        alloc_live("insert.new");
        VRT_COUNT("op.insert.new");
        if (nv <= 64) where_counts(v);
        if (cleared_once) VRT_COUNT("op.insert.after-clear");
        if (level >= 1) check_find(v, (ko + 1) % no, "insert.new.then-find", NULL);
    }
    if (!with_it) VRT_COUNT("op.insert.no-iterator");
    else it_now(IT_ENTRY, v);
    check_size("insert");
    if (out) *out = CI;
}

/* the model forgets entry v, the boxed objects are destroyed */
static void model_remove(int v)
{
    gen[v]++;
    M[v].blk = NULL;
    release_objs(v);
    Mn--;
}

static void do_erase(int v, int po, int with_it, int level)
{
    struct kobj *k = getk(v, po);
    struct kobj *const ok = M[v].k;
    struct vobj *const ov = M[v].v;
    const int present = M[v].present;
    int r;

    if (with_it) arrive(EP_ERASE, v, k);
    vrt_state(present ? (ok == k ? "present-same-key-object" : "present-other-key-object") : (Mn ? "absent" : "empty"));
    VRT_OP3("map.erase", "v%ld key#%ld iter=%ld", v, po, with_it);
    vrt_ev_begin();
    r = cstl_map_erase(map, k, with_it ? &CI : NULL);
    if (present) {
        VRT_CHECK(r == 0, RK("map.erase.present.ret"), "erase of present value %d returned %d, expected 0", v, r);
        if (with_it) {
            VRT_CHECK(CI.key == ok, RK("map.erase.present.iter-key"),
                      "erase of value %d reports key pointer %p, the removed entry stored %p", v, CI.key, (void *)ok);
            VRT_CHECK(CI.val == ov, RK("map.erase.present.iter-val"),
                      "erase of value %d reports value pointer %p, the removed entry stored %p", v, CI.val, (void *)ov);
            if (cstl_map_iterator_eq(&CI, END)) VRT_COUNT("op.erase.present.iter-detached");
        }
        alloc_freed("erase.present", v);
        if (ov == NULL) VRT_COUNT("op.erase.present.null-value");
        if (ok == NULL) VRT_COUNT("op.erase.null-key");
        if (with_it) it_now(IT_ERASE_REPORT, v);
        model_remove(v);
        alloc_live("erase.present");
        VRT_COUNT("op.erase.present");
        if (level >= 1) check_find(v, po, "erase.then-find", NULL);
    } else {
        VRT_CHECK(r == -1, RK("map.erase.absent.ret"), "erase of absent value %d returned %d, expected -1", v, r);
        if (with_it) { is_end(&CI, rekeyed ? "changed-probe-key.erase" : "erase", v); it_now_end(); }
        alloc_none("erase.absent");
        VRT_COUNT("op.erase.absent");
    }
    if (!with_it) VRT_COUNT("op.erase.no-iterator");
    check_size("erase");
}

static void do_erase_it(int v, int po, int vo, int via_insert, int level)
{
    const int was_present = M[v].present;

    if (via_insert) do_insert(v, po, vo, 1, NULL, 0);
    else check_find_x(v, po, "erase_iterator.find", NULL, 1);
    /* no mutation in between: CI refers to the entry of value v */
    vrt_state(via_insert ? (was_present ? "from-insert-existing" : "from-insert-new") : "from-find");
    VRT_OP2("map.erase_iterator", "v%ld via-insert=%ld", v, via_insert);
    vrt_ev_begin();
    cstl_map_erase_iterator(map, &CI);
    alloc_freed("erase_iterator", v);
    if (M[v].v == NULL) VRT_COUNT("op.erase_iterator.null-value");
    if (M[v].k == NULL) VRT_COUNT("op.erase_iterator.null-key");
    it_now(IT_ERASE_IT_LEFTOVER, v);    /* whatever erase_iterator left in CI: its entry is gone */
    model_remove(v);
    alloc_live("erase_iterator");
    if (!via_insert) VRT_COUNT("op.erase_iterator.from-find");
    else if (was_present) VRT_COUNT("op.erase_iterator.from-insert-existing");
    else VRT_COUNT("op.erase_iterator.from-insert-new");
    VRT_COUNT("op.erase_iterator");
    if (level >= 1) check_find(v, po, "erase_iterator.then-find", NULL);
    check_size("erase_iterator");
}

/* ---- the caller changes a key object it still owns ----
 * A key object that is not stored in the map is the caller's.  find(P) misses while *P holds the absent value a; the
 * caller rewrites *P to value b (absent or present; below, between or above the stored keys) and calls insert(P) /
 * find(P) / erase(P) with the very same pointer, no call on any map in between.  The model goes by the CONTENT of *P at
 * each call: the second call behaves exactly like one with any other key object of value b.  (Stored key objects are
 * never changed.)  second: 0 insert, 1 find or erase (by the history hash), 2 find, 3 erase.  Returns 0 = not applicable. */
static int tied_vo(int v, int o, int nobjs);
static int do_rekey(int b, int second, int vo, int with_it, int level)
{
    const unsigned sel = (unsigned)(vrt_mix(hist, 0x4e4b00u + (unsigned)b) >> 11);
    int a = -1, oa, ob = -1, u, n = 0, pick, lo = 0, hi = 0;
    struct kobj *k;

    for (u = 0; u < no && ob < 0; u++) {        /* a slot of b that does not hold the stored key object (nor the NULL pointer) */
        const int o = (int)(((sel >> 8) + (unsigned)u) % (unsigned)no);
        if (is_null_key(b, o) || (M[b].present && M[b].k != NULL && M[b].k->obj == o)) continue;
        ob = o;
    }
    if (ob < 0) return 0;
    for (u = 0; u < nv; u++) if (u != b && !M[u].present && !(u == 0 && no == 1)) n++;
    if (n == 0) return 0;
    pick = (int)(sel % (unsigned)n);
    for (u = 0; u < nv; u++) if (u != b && !M[u].present && !(u == 0 && no == 1) && pick-- == 0) { a = u; break; }
    oa = (int)((sel >> 4) % (unsigned)no);
    if (is_null_key(a, oa)) oa = 1;
    if (second == 1) second = 2 + (int)((sel >> 6) & 1);
    if (in_closure) { vo = tied_vo(b, ob, no); with_it = (int)((sel >> 3) & 1); }
    for (u = b - 1; u >= 0 && !lo; u--) lo = M[u].present;
    for (u = b + 1; u < nv && !hi; u++) hi = M[u].present;

    no_other = 1;
    k = getk(a, oa);
    check_find_x(a, oa, "changed-probe-key.first-find", NULL, 1);      /* misses */
    /* the caller's object now holds value b (whatever unstored object sat in that slot of b goes) */
    if (K[b][ob] != NULL) { memset(K[b][ob], 0xa5, sizeof(struct kobj)); vrt_free(K[b][ob]); }
    K[a][oa] = NULL; K[b][ob] = k;
    VRT_OP3("map.caller-rewrites-probe-key", "the key object of the miss now holds v%ld (was v%ld), next call: %ld", b, a, second);
    k->val = b; k->obj = ob;
    rekeyed = 1;
    if (second == 0) {
        if (M[b].present) VRT_COUNT("rekey.insert.existing"); else VRT_COUNT("rekey.insert.new");
        do_insert(b, ob, vo, with_it, NULL, level);
    } else if (second == 2) {
        if (M[b].present) VRT_COUNT("rekey.find.present"); else VRT_COUNT("rekey.find.absent");
        check_find_x(b, ob, "changed-probe-key.find", NULL, 1);
    } else {
        if (M[b].present) VRT_COUNT("rekey.erase.present"); else VRT_COUNT("rekey.erase.absent");
        do_erase(b, ob, with_it, level);
    }
    rekeyed = 0; no_other = 0;
    {
        if (lo && hi) VRT_COUNT("rekey.new-content.between-stored-keys");
        else if (lo) VRT_COUNT("rekey.new-content.above-all-stored-keys");
        else if (hi) VRT_COUNT("rekey.new-content.below-all-stored-keys");
        else VRT_COUNT("rekey.new-content.map-empty");
    }
    if (a < b) VRT_COUNT("rekey.old-content-smaller"); else VRT_COUNT("rekey.old-content-larger");
    VRT_COUNT("op.rekey");
    return 1;
}

/* ---- nested maps (mode "clear", C15): entries whose value owns a map of its own ----
 * Right before a clear with a callback some of the entries (all, several, one; the smallest and the largest key among
 * them) are given a private, non-empty map with individually allocated keys, a comparison function and a priv of its
 * own.  The outer clear callback destroys what the entry owns first: it clears the inner map through the library with
 * ANOTHER callback function and ANOTHER priv (the inner map's own descriptor), or with the NULL callback.  That is a
 * clear of another map running inside a clear: every outer entry must still reach the outer callback exactly once
 * with the outer priv, every inner entry the callback of its own clear call exactly once with that call's priv (none
 * at all under the NULL callback), nothing the wrong function, nothing after its callback returned, and both maps
 * end empty and usable.  Half of the inner maps keep the overwritten keys until their clear has returned and verify
 * the overwrite then, the others free them at once. */
#define SMAGIC 0x5ab4a9e5u
#define SUBMAX 4
struct subm;
struct fkey { uint32_t magic; int val; struct subm *owner; uint64_t pad; };
struct subm {
    uint32_t magic;
    int n, seen, hold, nullcb, owner_v;
    struct fkey *se[SUBMAX];            /* stored keys (NULL once handed over) */
    struct fkey *held[SUBMAX];          /* hold: handed over and overwritten, not freed yet */
    struct fkey *spare;                 /* for the insert that proves the cleared inner map usable */
    cstl_map_t m;
};
static struct subm *SUB[MAXV];          /* by value */
static struct subm *cur_sub;            /* the inner map being cleared right now */
static int outer_running, inner_done, nsubs, sub_token, clr_total, clr_nomem;
static int is_clear_mode;
static void nest_reset(int n)
{
    int i;
    for (i = 0; i < n; i++) SUB[i] = NULL;
    cur_sub = NULL; outer_running = 0; inner_done = 0; nsubs = 0;
}
static int sub_cmp(const void *a, const void *b, void *p)
{
    const struct fkey *x = a, *y = b;
    VRT_CHECK(p == (void *)&sub_token, "map.nested.cmp.priv", "comparison of an inner map called with priv %p", p);
    VRT_CHECK(x != NULL && y != NULL && x->magic == SMAGIC && y->magic == SMAGIC && x->owner == y->owner, "map.nested.cmp.non-key",
              "comparison of an inner map called with something that is not a live key of that map");
    return (x->val > y->val) - (x->val < y->val);
}
static void *sub_val(struct subm *s, int i) { return (i & 1) ? NULL : (void *)&s->se[i]; }
static struct fkey *new_fkey(struct subm *s, int val)
{
    struct fkey *x = vrt_alloc(sizeof(*x));
    memset(x, 0x5e, sizeof(*x));
    x->magic = SMAGIC; x->val = val; x->owner = s;
    return x;
}
static void sub_attach(int v, unsigned salt)
{
    struct subm *s = vrt_alloc(sizeof(*s));
    int i, r;
    memset(s, 0x5e, sizeof(*s));
    s->magic = SMAGIC; s->n = 1 + (int)(salt % SUBMAX); s->seen = 0; s->hold = (salt >> 3) & 1; s->nullcb = (salt >> 4) % 3 == 0; s->owner_v = v;
    VRT_OP2("map.nested.fill", "inner map of the entry of value %ld, %ld entries", v, s->n);
    cstl_map_init(&s->m, sub_cmp, &sub_token);
    for (i = 0; i < SUBMAX; i++) s->se[i] = s->held[i] = NULL;
    for (i = 0; i < s->n; i++) {
        s->se[i] = new_fkey(s, (int)((salt >> 6) + (unsigned)i * 5u) % 7 * SUBMAX + i);      /* distinct, in no particular order */
        r = cstl_map_insert(&s->m, s->se[i], sub_val(s, i), NULL);
        VRT_CHECK(r == 0, "harness.nested.fill", "insert of a new key into an inner map returned %d", r);
    }
    s->spare = new_fkey(s, 1000);
    SUB[v] = s; nsubs++;
    VRT_COUNT("nested.attached");
}
static void sub_clear_cb(void *ev, void *p)
{
    const cstl_map_iterator_t *const it = ev;
    struct fkey *x;
    int i, k = -1;
    VRT_CHECK(cur_sub != NULL, "map.clear.nested.callback-outside-its-clear",
              "the callback given to the clear of an inner map was invoked while no inner clear is running (priv %p)", p);
    VRT_CHECK(!cur_sub->nullcb, "map.clear.nested.callback-under-null-callback", "a callback was invoked by the clear of an inner map that was given the NULL callback");
    VRT_CHECK(p == (void *)cur_sub, "map.clear.nested.priv", "inner clear callback got priv %p, not the one passed to its own clear call", p);
    VRT_CHECK(it != NULL, "map.clear.nested.null-iterator", "inner clear callback got a NULL iterator");
    for (i = 0; i < cur_sub->n; i++) if (cur_sub->se[i] != NULL && (const void *)cur_sub->se[i] == it->key) k = i;
    VRT_CHECK(k >= 0, "map.clear.nested.foreign-entry", "inner clear callback was handed a key that is not a stored key of the inner map being cleared (or an entry twice)");
    x = cur_sub->se[k];
    VRT_CHECK(x->magic == SMAGIC && x->owner == cur_sub, "map.clear.nested.key-damaged", "key handed to the inner clear callback does not carry its owner's marks any more");
    VRT_CHECK(it->val == sub_val(cur_sub, k), "map.clear.nested.val", "inner clear callback got value pointer %p, stored was %p", it->val, sub_val(cur_sub, k));
    cur_sub->se[k] = NULL;
    cur_sub->seen++;
    memset(x, 0xa5, sizeof(*x));
    if (cur_sub->hold) cur_sub->held[k] = x; else vrt_free(x);
    VRT_CHECK(it->key == (const void *)x && it->val == sub_val(cur_sub, k) && p == (void *)cur_sub && cur_sub->magic == SMAGIC,
              "map.clear.nested.iterator-changed-while-the-callback-runs", "inner clear callback: at its end the iterator argument reads key %p / val %p, at entry %p / %p",
              it->key, it->val, (void *)x, sub_val(cur_sub, k));
    VRT_COUNT("clear.nested.handed-over");
}
/* the owning entry is being destroyed (inside the outer clear callback): clear its map through the library */
static void sub_destroy(int v)
{
    struct subm *s = SUB[v], *prev = cur_sub;
    cstl_map_iterator_t it;
    const int outer_before = clr_total;
    int i, r;
    size_t k, live;
    cur_sub = s; s->seen = 0;
    live = vrt_lib_live();
    VRT_OP3("map.nested.clear", "inner map of the entry of value %ld (%ld entries, callback=%ld), from the clear callback of the outer map", v, s->n, !s->nullcb);
    if (s->nullcb) cstl_map_clear(&s->m, NULL, NULL); else cstl_map_clear(&s->m, sub_clear_cb, s);
    cur_sub = prev;
    VRT_CHECK(clr_total == outer_before, "map.clear.nested.wrong-callback", "the clear of an inner map invoked the callback given to the clear of the outer map");
    if (s->nullcb) {
        /* nothing was handed over: the keys are still the owner's */
        for (i = 0; i < s->n; i++) { memset(s->se[i], 0xa5, sizeof(struct fkey)); vrt_free(s->se[i]); s->se[i] = NULL; }
        VRT_COUNT("clear.nested.null-callback");
    } else VRT_CHECK(s->seen == s->n, "map.clear.nested.count", "inner clear handed over %d of %d entries", s->seen, s->n);
    for (i = 0; i < s->n; i++) if (s->held[i] != NULL) {
        const unsigned char *b = (const unsigned char *)s->held[i];
        for (k = 0; k < sizeof(struct fkey) && b[k] == 0xa5; k++) ;
        VRT_CHECK(k == sizeof(struct fkey), "map.clear.nested.touched-after-callback", "key of an inner map written at byte %zu after its clear callback had returned", k);
        vrt_free(s->held[i]); s->held[i] = NULL;
        VRT_COUNT("clear.nested.overwrite-verified");
    }
    VRT_CHECK(cstl_map_size(&s->m) == 0, "map.clear.nested.not-empty", "inner map reports size %zu after its clear", cstl_map_size(&s->m));
    VRT_CHECK(vrt_lib_live() + (size_t)s->n == live, "map.clear.nested.alloc.live-after-clear", "clear of an inner map with %d entries released %zu blocks", s->n, live - vrt_lib_live());
    /* usable like a fresh one (the insert needs memory: refused while the outer clear runs under an allocator that refuses everything) */
    cstl_map_find(&s->m, s->spare, &it);
    VRT_CHECK(cstl_map_iterator_eq(&it, cstl_map_iterator_end(&s->m)), "map.clear.nested.reuse", "find on the cleared inner map found something");
    r = cstl_map_insert(&s->m, s->spare, s, &it);
    if (r == 0) {
        VRT_CHECK(cstl_map_size(&s->m) == 1 && it.key == (const void *)s->spare && it.val == (void *)s, "map.clear.nested.reuse", "insert into the cleared inner map: size %zu, iterator does not show the pair", cstl_map_size(&s->m));
        r = cstl_map_erase(&s->m, s->spare, NULL);
        VRT_CHECK(r == 0 && cstl_map_size(&s->m) == 0 && vrt_lib_live() + (size_t)s->n == live, "map.clear.nested.reuse", "erase of the only entry of the re-used inner map returned %d, size %zu", r, cstl_map_size(&s->m));
        VRT_COUNT("clear.nested.reused");
    } else {
        VRT_CHECK(r == -1 && clr_nomem && cstl_map_size(&s->m) == 0, "map.clear.nested.reuse", "insert into the cleared inner map returned %d, size %zu", r, cstl_map_size(&s->m));
        VRT_COUNT("clear.nested.reuse-refused-by-allocator");
    }
    vrt_free(s->spare);
    memset(s, 0xa5, sizeof(*s));
    vrt_free(s);
    SUB[v] = NULL; nsubs--;
    inner_done++;
    VRT_COUNT("clear.nested.maps-cleared");
}
/* give some entries a map of their own; which ones changes from clear to clear */
static void sub_attach_some(void)
{
    const unsigned salt = vrt_case_tick() * 2654435761u + 0x9e37u;
    const int variant = (int)((salt >> 28) % 4), small = nv <= 64;
    int v, lo = -1, hi = -1, owners = 0, idx = 0;
    for (v = 0; v < nv; v++) if (M[v].present) { if (lo < 0) lo = v; hi = v; }
    for (v = 0; v < nv; v++) {
        const unsigned h = (salt ^ (unsigned)v * 40503u) * 2246822519u >> 16;
        int own;
        if (!M[v].present) continue;
        switch (variant) {
        case 0: own = small || v == lo || v == hi || h % 8 == 0; break;                /* all (large maps: both ends, every eighth) */
        case 1: own = v == lo || v == hi; break;                                        /* smallest and largest key */
        case 2: own = small ? h % 2 == 0 : h % 16 == 0; break;                          /* some */
        default: own = small ? ((salt >> 8) % (unsigned)Mn == (unsigned)idx) : h % 32 == 0; break;   /* one, anywhere */
        }
        idx++;
        if (!own) continue;
        sub_attach(v, h ^ (salt >> 7));
        owners++;
    }
    if (owners >= 2) VRT_COUNT("clear.nested.several-owners");
    if (owners > 0 && owners < Mn) VRT_COUNT("clear.nested.owners-and-plain-entries");
}

/* clear callback: exactly-once state machine over the entries, poison, free */
static int clr_seen, clr_size;
static void clear_cb(void *e, void *p)
{
    const cstl_map_iterator_t *const i = e;
    const struct kobj *k;
    const void *const key_at_entry = i != NULL ? i->key : NULL;         /* what the arguments show when the callback starts */
    void *const val_at_entry = i != NULL ? i->val : NULL;
    const void *const it_at_entry = i != NULL ? i->_ : NULL;
    int v, inner_cb = 0;

    clr_total++;
    VRT_CHECK(cur_sub == NULL, "map.clear.nested.wrong-callback", "the clear of an inner map invoked the callback given to the clear of the outer map");
    VRT_CHECK(outer_running, "map.clear.callback-outside-its-clear", "clear callback invoked while its clear is not running");
    VRT_CHECK(p == (void *)&clr_cookie, "map.clear.cb-priv", "clear callback got priv %p, expected %p", p, (void *)&clr_cookie);
    VRT_CHECK(*(const int *)p == CLR_COOKIE_VALUE, "map.clear.priv-changed-while-the-callback-runs", "the caller's object behind the clear priv reads %#x at the start of the callback", (unsigned)*(const int *)p);
    VRT_CHECK(i != NULL, "map.clear.cb-null-iterator", "clear callback got a NULL iterator");
    if (nv <= 64) {
        /* classify by address before touching anything */
        for (v = 0; v < nv; v++) if (M[v].present && (const void *)M[v].k == i->key) break;
        if (v == nv) {
            for (v = 0; v < nv; v++)
                VRT_CHECK(!(M[v].handed && M[v].handed_k == i->key), "map.clear.cb-twice",
                          "clear callback invoked a second time for the entry of value %d", v);
            vrt_fail("map.clear.cb-not-an-entry", "clear callback got key pointer %p which is no entry's stored key", i->key);
        }
    }
    k = i->key;
    if (k == NULL) {
        v = 0;                  /* the NULL-pointer key identifies the entry of value 0 */
    } else {
        VRT_CHECK(k->magic == KMAGIC, "map.clear.cb-non-key",
                  "clear callback got a key pointer that is not a live key object (not stored, or handed over before)");
        v = k->val;
    }
    VRT_CHECK(!(v >= 0 && v < nv && M[v].handed && M[v].handed_k == (const void *)k), "map.clear.cb-twice",
              "clear callback invoked a second time for the entry of value %d", v);
    VRT_CHECK(v >= 0 && v < nv && M[v].present && M[v].k == k, "map.clear.cb-not-an-entry",
              "clear callback got key pointer %p (value %d) which is not the stored key of that entry", (const void *)k, v);
    VRT_CHECK(!M[v].handed, "map.clear.cb-twice", "clear callback invoked a second time for the entry of value %d", v);
    VRT_CHECK(i->val == (void *)M[v].v, "map.clear.cb-val",
              "clear callback for value %d got value pointer %p, the stored value pointer is %p", v, i->val, (void *)M[v].v);
    if (cstl_map_iterator_eq(i, END)) VRT_COUNT("clear.cb-iterator-detached");
    M[v].handed = 1;
    M[v].handed_k = k;
    clr_seen++;
    if (M[v].v == NULL) VRT_COUNT("clear.handed-over.null-value");
    if (k == NULL) VRT_COUNT("clear.handed-over.null-key");
    if (inner_done) VRT_COUNT("clear.nested.outer-went-on-after-inner-clear");
    if (SUB[v] != NULL) {
        if (clr_seen == 1) VRT_COUNT("clear.nested.first-handed-over-owns-a-map");
        if (clr_seen == clr_size) VRT_COUNT("clear.nested.last-handed-over-owns-a-map");
        if (clr_seen > 1 && clr_seen < clr_size) VRT_COUNT("clear.nested.inner-entry-owns-a-map");
        inner_cb = !SUB[v]->nullcb;
        sub_destroy(v);
        /* the callback is still running: its arguments must still show the entry's own key and value */
        VRT_CHECK(i->key == key_at_entry && i->val == val_at_entry && i->_ == it_at_entry, "map.clear.iterator-changed-while-the-callback-runs",
                  "clear callback for value %d: after clearing the entry's own inner map the iterator argument reads key %p / val %p, at entry it read %p / %p",
                  v, i->key, i->val, key_at_entry, val_at_entry);
        VRT_CHECK(*(const int *)p == CLR_COOKIE_VALUE, "map.clear.priv-changed-while-the-callback-runs", "the caller's object behind the clear priv reads %#x after the nested clear", (unsigned)*(const int *)p);
        VRT_COUNT("clear.nested.arguments-reread-after-inner-clear");
        if (inner_cb) VRT_COUNT("clear.nested.arguments-reread-after-inner-clear-with-callback");
        VRT_OP2("map.clear", "callback=1 entries=%ld (goes on after the nested clear in the callback for value %ld)", clr_size, v);
    }
    release_objs(v);            /* poison + free: the map must not look at them again */
    VRT_CHECK(i->key == key_at_entry && i->val == val_at_entry && i->_ == it_at_entry, "map.clear.iterator-changed-while-the-callback-runs",
              "clear callback for value %d: at its end the iterator argument reads key %p / val %p, at entry it read %p / %p",
              v, i->key, i->val, key_at_entry, val_at_entry);
    VRT_COUNT("clear.handed-over");
}

static void do_clear(int nullcb, int level)
{
    const int before = Mn;
    struct evsum s;
    int v, j, cnt;

    other_map_drop();           /* outside the event window; the callback is about to free key objects it may hold */
    for (v = 0; v < nv; v++) { M[v].handed = 0; M[v].handed_k = NULL; if (M[v].present) gen[v]++; }
    clr_seen = 0; clr_size = before; inner_done = 0;
    if (is_clear_mode && !nullcb && Mn > 0) sub_attach_some();
    vrt_state(Mn == 0 ? "empty" : Mn == 1 ? "one-entry" : "several-entries");
    VRT_OP2("map.clear", "callback=%ld entries=%ld", !nullcb, Mn);
    vrt_ev_begin();
    outer_running = 1; clr_nomem = 0;
    if (vrt_case_tick() & 1) {
        if (nullcb) cstl_map_clear(map, NULL, NULL);
        else cstl_map_clear(map, clear_cb, &clr_cookie);
    } else {
        /* clear has no way to fail: every second one runs while the allocator refuses everything */
        clr_nomem = 1;
        VRT_NOMEM(if (nullcb) cstl_map_clear(map, NULL, NULL); else cstl_map_clear(map, clear_cb, &clr_cookie));
    }
    outer_running = 0;
    if (!nullcb) {
        VRT_CHECK(clr_seen == before, "map.clear.cb-count", "clear handed over %d of %d entries", clr_seen, before);
    }
    VRT_CHECK(nsubs == 0, "map.clear.nested.owner-not-handed-over", "%d entries that own a map were not handed to the clear callback", nsubs);
    if (inner_done) VRT_COUNT("op.clear.with-nested-clears");
    /* every node block released, nothing else touched */
    ev_sum(&s);
    VRT_CHECK(s.nnew == 0, "map.clear.alloc.leaked-block", "clear allocated and kept %d block(s)", s.nnew);
    if (!s.overflow && !alloc_model_off && !inner_done) {        /* (nested clears released the nodes of the inner maps in this window) */
        /* the per-entry pattern (an observation, see SOFTK); the statement itself is checked below: nothing live after clear */
        if (s.nfreed != before) SOFTK("clear", "clear-freed-another-number-of-blocks-than-entries");
        for (j = 0; j < s.nfreed && !alloc_model_off; j++) {
            for (v = 0; v < nv; v++) if (M[v].blk == s.freed[j]) break;
            if (v >= nv) { SOFTK("clear", "clear-freed-a-block-no-insert-of-a-held-entry-allocated"); break; }
            M[v].blk = NULL;
        }
    }
    for (v = 0, cnt = 0; v < nv; v++) {
        if (M[v].blk != NULL) {
            /* more events than the log keeps, or the pattern does not apply: the live count below decides */
            M[v].blk = NULL;
        }
        if (M[v].present) {            /* NULL callback: the objects stay with the harness */
            if (M[v].k != NULL) M[v].k->stored = 0;
            if (M[v].v != NULL) M[v].v->stored = 0;
            M[v].k = NULL; M[v].v = NULL; M[v].present = 0;
            cnt++;
        }
    }
    VRT_CHECK(nullcb ? cnt == before : cnt == 0, "map.clear.cb-count", "clear with callback skipped %d entries", cnt);
    Mn = 0;
    VRT_CHECK(lib_live() == 0, "map.clear.alloc.live-after-clear", "%zu library blocks live after clear (held %d entries)",
              lib_live(), before);
    VRT_COUNT_N("alloc.node-free", before);
    check_size("clear");
    if (nullcb) VRT_COUNT("op.clear.null-callback"); else VRT_COUNT("op.clear.callback");
    if (before == 0) VRT_COUNT("op.clear.empty");
    if (before >= 2) { if (nullcb) VRT_COUNT("op.clear.null-callback.several"); else VRT_COUNT("op.clear.callback.several"); }
    cleared_once = 1;
    if (level >= 1) {
        /* nothing findable any more */
        const int step = nv <= 64 ? 1 : 1 + nv / 97;
        for (v = 0; v < nv; v += step) check_find(v, v % no, "clear.then-find", NULL);
    }
}

/* ------------------------------------------------------------------ */
/* structural walker on the embedded tree (white box, extra)           */
/* ------------------------------------------------------------------ */
struct bent { const void *blk; int v; };
static struct bent btab[4 * MAXV];
static size_t bcap;
static unsigned char wseen[MAXV];
static int wcount, wlast;
static uint64_t wsig;

static void btab_build(void)
{
    int v;
    for (bcap = 16; bcap < (size_t)4 * nv; bcap *= 2) ;
    memset(btab, 0, bcap * sizeof(btab[0]));
    for (v = 0; v < nv; v++) if (M[v].present) {
        size_t h = ((uintptr_t)M[v].blk >> 4) * 0x9e3779b97f4a7c15ull >> 40 & (bcap - 1);
        while (btab[h].blk != NULL) h = (h + 1) & (bcap - 1);
        btab[h].blk = M[v].blk; btab[h].v = v;
    }
}
static int btab_find(const void *blk)
{
    size_t h = ((uintptr_t)blk >> 4) * 0x9e3779b97f4a7c15ull >> 40 & (bcap - 1);
    while (btab[h].blk != NULL) {
        if (btab[h].blk == blk) return btab[h].v;
        h = (h + 1) & (bcap - 1);
    }
    return -1;
}
static cstl_rbtree_color_t colour_of(const struct cstl_bintree_node *bn)
{
    return ((const struct cstl_rbtree_node *)((const char *)bn - offsetof(struct cstl_rbtree_node, n)))->c;
}
/* returns black height of the subtree */
static int walk(const struct cstl_bintree_node *bn, const struct cstl_bintree_node *parent, int parent_red, int depth)
{
    int v, lh, rh, red;
    void *base;
    if (bn == NULL) { wsig = vrt_mix(wsig, 0x4e); return 0; }
    VRT_CHECK(depth <= 64 && ++wcount <= Mn, "map.walker.count", "tree links reach more nodes than the map has entries (%d)", Mn);
    VRT_CHECK(bn->p == parent, "map.walker.parent-link", "a child's parent link does not point back at its parent");
    base = (char *)(uintptr_t)bn - map->t.t.off;        /* where the element starts, by the tree's own offset */
    v = btab_find(base);
    if (v < 0) {
        base = vrt_lib_block(bn, NULL);
        VRT_CHECK(base != NULL, "map.walker.node-not-in-live-block", "a linked tree node does not lie in a live library block");
        v = btab_find(base);
    }
    VRT_CHECK(v >= 0, "map.walker.node-not-an-entry", "a linked tree node lies in a block no held entry's insert allocated");
    VRT_CHECK(!wseen[v], "map.walker.node-twice", "the node of value %d is linked twice", v);
    wseen[v] = 1;
    red = colour_of(bn) == CSTL_RBTREE_COLOR_R;
    VRT_CHECK(red || colour_of(bn) == CSTL_RBTREE_COLOR_B, "map.walker.colour", "node of value %d has colour %d", v, (int)colour_of(bn));
    VRT_CHECK(!(red && parent_red), "map.walker.red-red", "red node (value %d) has a red parent", v);
    wsig = vrt_mix(wsig, 0x100 + 2 * v + red);
    lh = walk(bn->l, bn, red, depth + 1);
    /* in-order position */
    VRT_CHECK(wlast < 0 || (desc ? v < wlast : v > wlast), "map.walker.order",
              "in-order walk meets value %d after value %d (%s map)", v, wlast, desc ? "descending" : "ascending");
    wlast = v;
    rh = walk(bn->r, bn, red, depth + 1);
    VRT_CHECK(lh == rh, "map.walker.black-height", "black heights %d / %d below the node of value %d", lh, rh, v);
    return lh + !red;
}
static uint64_t walk_tree(void)
{
    const struct cstl_bintree_node *root = map->t.t.root;
    btab_build();
    memset(wseen, 0, nv);
    wcount = 0; wlast = -1; wsig = 0x7ee;
    if (root != NULL) VRT_CHECK(colour_of(root) == CSTL_RBTREE_COLOR_B, "map.walker.root-red", "the root is red");
    walk(root, NULL, 0, 0);
    VRT_CHECK(wcount == Mn, "map.walker.count", "tree links reach %d nodes, the map has %d entries", wcount, Mn);
    VRT_COUNT("walker.trees");
    return wsig;
}

/* ------------------------------------------------------------------ */
/* signatures and audits                                               */
/* ------------------------------------------------------------------ */
static uint64_t sig_abstract(void)
{
    uint64_t h = 0xc08 + nv * 8 + no * 2 + desc;
    int v;
    for (v = 0; v < nv; v++)
        h = vrt_mix(h, M[v].present ? 1 + (M[v].k ? M[v].k->obj : 0) + 4 * (M[v].v ? M[v].v->obj : VO_NULL) : 0);
    return h;
}
static uint64_t st_sig(void)
{
    uint64_t h = sig_abstract();
    if (sigmode == SIG_SHAPE) h = vrt_mix(h, walk_tree());
    else if (sigmode == SIG_HISTORY) h = vrt_mix(h, hist);
    return h;
}
static int st_nontrivial(void) { return Mn >= 2; }
static int st_nontrivial_clear(void) { return Mn >= 1; }

static void audit_full(void)
{
    int v, o;
    uint64_t shape;
    check_size("audit");
    alloc_live("audit");
    for (v = 0; v < nv; v++) {
        for (o = 0; o < no; o++) check_find(v, o, "audit.find", NULL);
        if (M[v].present) {
            if (!alloc_model_off && M[v].blk != NULL && vrt_lib_block(M[v].blk, NULL) != M[v].blk) SOFTK("audit", "block-of-a-held-entry-no-longer-live");
            VRT_CHECK((M[v].k == NULL ? v == 0 : (M[v].k->magic == KMAGIC && M[v].k->val == v))
                      && (M[v].v == NULL || (M[v].v->magic == VMAGIC && M[v].v->val == v)),
                      "map.audit.object-damaged", "stored key/value object of value %d was overwritten", v);
        }
    }
    shape = walk_tree();
    if (Mn >= 2) {
        if (!in_closure) vrt_sig(0, sig_abstract());    /* closure states are accounted by the explorer */
        vrt_sig(2, vrt_mix(shape, desc));
    }
    VRT_COUNT("audit.full");
    VRT_MAX("max.map.size", Mn);
}

/* ------------------------------------------------------------------ */
/* state: create / destroy / apply                                     */
/* ------------------------------------------------------------------ */
enum { K_INSERT = 1, K_FIND, K_ERASE, K_ERASE_IT, K_SIZE, K_CLEAR, K_REKEY };
#define OP(kind, v, ko, vo, fl) \
    ((uint32_t)(kind) | (uint32_t)(v) << 4 | (uint32_t)(ko) << 16 | (uint32_t)(vo) << 18 | (uint32_t)(fl) << 20)
#define OP_KIND(o) ((int)((o) & 15))
#define OP_V(o)    ((int)(((o) >> 4) & 0xfff))
#define OP_KO(o)   ((int)(((o) >> 16) & 3))
#define OP_VO(o)   ((int)(((o) >> 18) & 3))
#define OP_FL(o)   ((int)(((o) >> 20) & 3))

static int apply_ex(uint32_t op, int level)
{
    const int kind = OP_KIND(op), v = OP_V(op), ko = OP_KO(op), vo = OP_VO(op), fl = OP_FL(op);
    if (kind == K_REKEY) {      /* v = the new content, ko = which call follows (not a key object) */
        if (v >= nv || (vo >= no && vo != VO_NULL) || !do_rekey(v, ko, vo, fl, level)) return 0;
        hist = vrt_mix(hist, op);
        if (level >= 2) audit_full();
        return 1;
    }
    if (v >= nv || ko >= no || (vo >= no && vo != VO_NULL)) return 0;
    switch (kind) {
    case K_INSERT:
        do_insert(v, ko, vo, fl, NULL, level);
        break;
    case K_FIND:
        check_find_x(v, ko, "find", NULL, 1);
        VRT_COUNT("op.find");
        break;
    case K_ERASE:
        do_erase(v, ko, fl, level);
        break;
    case K_ERASE_IT:
        if (!fl && !M[v].present) return 0;    /* no iterator to be had from a find */
        do_erase_it(v, ko, vo, fl, level);
        break;
    case K_SIZE:
        VRT_OP0("map.size", "size");
        check_size("size");
        VRT_COUNT("op.size");
        break;
    case K_CLEAR:
        do_clear(fl, level);
        break;
    default:
        return 0;
    }
    hist = vrt_mix(hist, op);
    if (level >= 2) audit_full();
    return 1;
}
static int st_apply(uint32_t op, int audit)
{
    int r;
    lean = !audit;
    r = apply_ex(op, audit ? 2 : 0);
    lean = 0;
    return r;
}

static void setup(int nvalues, int nobjs, int descending, int smode)
{
    nv = nvalues; no = nobjs; desc = descending; sigmode = smode;
    memset(K, 0, (size_t)nv * sizeof(K[0]));
    memset(V, 0, (size_t)nv * sizeof(V[0]));
    memset(M, 0, (size_t)nv * sizeof(M[0]));
    Mn = 0; hist = 0x1157; cleared_once = 0; lean = 0; no_other = 0; rekeyed = 0;
    nest_reset(nv);
    memset(last_d, 0, (size_t)nv * sizeof(last_d[0]));
    memset(gen, 0, (size_t)nv * sizeof(gen[0]));
    memset(&CI, 0x5a, sizeof(CI));
    CId.how = IT_SENTINEL; arrivals = 0; other_n = 0; other_fresh = 0; other_serial = 0;
    map = vrt_alloc(sizeof(*map));
    memset(map, 0x3c, sizeof(*map));
    VRT_OP1("map.init", "descending=%ld", desc);
    cstl_map_init(map, desc ? cmp_desc : cmp_asc, &cmp_cookie);
    alloc_model_off = 0;
    if (vrt_lib_live() != 0) SOFTK("init", "init-allocated");
    check_size("init");
}
static void st_destroy(void)
{
    int v, o;
    other_map_drop();
    if (Mn > 0) do_clear(1, 0);
    VRT_CHECK(vrt_lib_live() == 0, "map.teardown.alloc.leak", "%zu library blocks still live after the final clear", vrt_lib_live());
    for (v = 0; v < nv; v++) for (o = 0; o < no; o++) {
        if (K[v][o]) { vrt_free(K[v][o]); K[v][o] = NULL; }
        if (V[v][o]) { vrt_free(V[v][o]); V[v][o] = NULL; }
    }
    memset(map, 0xa5, sizeof(*map));
    vrt_free(map);
    map = NULL;
}

/* ------------------------------------------------------------------ */
/* closure scopes                                                      */
/* ------------------------------------------------------------------ */
enum { AL_FULL = 0, AL_REDUCED = 1, AL_MINIMAL = 2 };
/* In the closure alphabets the value object is tied to the key object; odd key values inserted with
 * their last key object carry a NULL value pointer (so a share of the entries of every scope,
 * including single-object scopes, has val == NULL, without enlarging the state space). */
static int tied_vo(int v, int o, int nobjs) { return ((v & 1) && o == nobjs - 1) ? VO_NULL : o; }

static int build_alphabet(int nvalues, int nobjs, int variant, uint32_t *al)
{
    int n = 0, v, o;
    for (v = 0; v < nvalues; v++) {
        for (o = 0; o < nobjs; o++) {
            const int tvo = tied_vo(v, o, nobjs);
            switch (variant) {
            case AL_FULL:
                al[n++] = OP(K_INSERT, v, o, tvo, 0);
                al[n++] = OP(K_INSERT, v, o, tvo, 1);
                al[n++] = OP(K_FIND, v, o, 0, 0);
                al[n++] = OP(K_ERASE, v, o, 0, 0);
                al[n++] = OP(K_ERASE, v, o, 0, 1);
                al[n++] = OP(K_ERASE_IT, v, o, tvo, 0);
                al[n++] = OP(K_ERASE_IT, v, o, tvo, 1);
                if (o == 0) {   /* the caller rewrites the key object of a miss to value v, then: insert / find or erase */
                    al[n++] = OP(K_REKEY, v, 0, 0, 1);
                    al[n++] = OP(K_REKEY, v, 1, 0, 1);
                }
                break;
            case AL_REDUCED:
                al[n++] = OP(K_INSERT, v, o, tvo, 1);
                if (o == nobjs - 1) {
                    al[n++] = OP(K_FIND, v, o, 0, 0);
                    al[n++] = OP(K_ERASE, v, o, 0, 1);
                    al[n++] = OP(K_ERASE_IT, v, 0, 0, 0);
                }
                break;
            default:
                al[n++] = OP(K_INSERT, v, o, tvo, 1);
                if (o == 0) al[n++] = OP(K_ERASE, v, 0, 0, 1);
                break;
            }
        }
    }
    if (variant == AL_FULL) al[n++] = OP(K_SIZE, 0, 0, 0, 0);
    al[n++] = OP(K_CLEAR, 0, 0, 0, 0);
    if (variant != AL_MINIMAL) al[n++] = OP(K_CLEAR, 0, 0, 0, 1);
    return n;
}

/* scope word: nv (4 bits) | no (2) | desc (1) | sigmode (2) | alphabet variant (2) | prefix length (2) | prefix index (16) */
#define SCOPE(nvv, noo, d, sm, av, pl, pi) \
    ((nvv) | (noo) << 4 | (d) << 6 | (sm) << 7 | (av) << 9 | (pl) << 11 | (pi) << 13)
static void st_create(int scope)
{
    const int nvv = scope & 15, noo = (scope >> 4) & 3, d = (scope >> 6) & 1, sm = (scope >> 7) & 3;
    const int av = (scope >> 9) & 3, pl = (scope >> 11) & 3;
    int pi = (scope >> 13) & 0xffff;
    setup(nvv, noo, d, sm);
    if (pl > 0) {
        /* history scopes are partitioned by their first pl operations */
        uint32_t al[160];
        const int n = build_alphabet(nvv, noo, av, al);
        uint32_t pre[3];
        int j;
        for (j = pl - 1; j >= 0; j--) { pre[j] = al[pi % n]; pi /= n; }
        for (j = 0; j < pl; j++) apply_ex(pre[j], 2);
    }
}

/* probes (mode "clear", C15): clear every reachable state on a replica, then re-use */
static void st_probe(int pi)
{
    const int nullcb = pi == 1;
    int v, j;
    if (Mn >= 1) vrt_sig(1, vrt_mix(st_sig(), pi));
    apply_ex(OP(K_CLEAR, 0, 0, 0, nullcb), 2);
    /* fresh fill / erase under the model: the map must behave like a new one */
    for (j = 0; j < nv; j++) {
        v = pi ? nv - 1 - j : (j * 3 + 1) % nv;         /* descending resp. a stride order */
        if (!M[v].present) apply_ex(OP(K_INSERT, v, j % no, j % 3 == 1 ? VO_NULL : (j + 1) % no, j & 1), 2);
    }
    for (v = 0; v < nv; v++) if (!M[v].present) apply_ex(OP(K_INSERT, v, 0, 0, 1), 2);
    apply_ex(OP(K_INSERT, nv / 2, no - 1, 0, 1), 2);      /* existing */
    apply_ex(OP(K_INSERT, 1, 0, VO_NULL, 1), 2);          /* existing, NULL value offered */
    apply_ex(OP(K_ERASE, 0, no - 1, 0, 1), 2);
    apply_ex(OP(K_ERASE, 0, 0, 0, 1), 2);                 /* absent now */
    apply_ex(OP(K_ERASE_IT, nv - 1, 0, 0, 0), 2);
    apply_ex(OP(K_INSERT, 0, 0, 0, 0), 2);
    apply_ex(OP(K_CLEAR, 0, 0, 0, 0), 2);
    if (nullcb) VRT_COUNT("probe.clear-null-callback-then-reuse");
    else VRT_COUNT("probe.clear-then-reuse");
}

static struct vex model = { st_create, st_destroy, st_apply, st_sig, st_nontrivial, 0, NULL };

struct cscope { int nv, no, desc, sigmode, alpha, len, prefix; uint64_t max_states; };
/* len = 0: closure (no depth bound); len > 0 (history scopes): all sequences of <= len operations,
 * partitioned into alphabet^prefix cases by their first `prefix` operations */
static const struct cscope quick_scopes[] = {
    { 6, 2, 0, SIG_SHAPE, AL_FULL, 0, 0, 400000 },      /* biggest first: one closure is one case */
    { 8, 1, 1, SIG_SHAPE, AL_FULL, 0, 0, 400000 },
    { 5, 2, 0, SIG_SHAPE, AL_FULL, 0, 0, 400000 },
    { 5, 2, 1, SIG_SHAPE, AL_FULL, 0, 0, 400000 },
    { 4, 3, 0, SIG_SHAPE, AL_FULL, 0, 0, 400000 },
    { 7, 1, 0, SIG_SHAPE, AL_FULL, 0, 0, 400000 },
    { 4, 2, 0, SIG_SHAPE, AL_FULL, 0, 0, 400000 },
    { 4, 2, 1, SIG_SHAPE, AL_FULL, 0, 0, 400000 },
    { 4, 2, 0, SIG_ABSTRACT, AL_FULL, 0, 0, 100000 },   /* signature = present values + stored key object */
    { 4, 2, 1, SIG_ABSTRACT, AL_FULL, 0, 0, 100000 },
    { 4, 2, 0, SIG_HISTORY, AL_REDUCED, 4, 1, 400000 }, /* all sequences of <= 4 ops, 22-op alphabet */
    { 4, 2, 1, SIG_HISTORY, AL_REDUCED, 4, 1, 400000 },
    { 4, 1, 0, SIG_HISTORY, AL_MINIMAL, 6, 1, 400000 }, /* all sequences of <= 6 ops, 9-op alphabet */
};
static const struct cscope thorough_scopes[] = {
    { 7, 2, 0, SIG_SHAPE, AL_FULL, 0, 0, 4000000 },
    { 10, 1, 0, SIG_SHAPE, AL_FULL, 0, 0, 4000000 },
    { 10, 1, 1, SIG_SHAPE, AL_FULL, 0, 0, 4000000 },
    { 5, 3, 0, SIG_SHAPE, AL_FULL, 0, 0, 4000000 },
    { 5, 3, 1, SIG_SHAPE, AL_FULL, 0, 0, 4000000 },
    { 6, 2, 0, SIG_SHAPE, AL_FULL, 0, 0, 2000000 },
    { 6, 2, 1, SIG_SHAPE, AL_FULL, 0, 0, 2000000 },
    { 8, 1, 0, SIG_SHAPE, AL_FULL, 0, 0, 2000000 },
    { 8, 1, 1, SIG_SHAPE, AL_FULL, 0, 0, 2000000 },
    { 4, 3, 0, SIG_SHAPE, AL_FULL, 0, 0, 2000000 },
    { 4, 3, 1, SIG_SHAPE, AL_FULL, 0, 0, 2000000 },
    { 5, 2, 0, SIG_SHAPE, AL_FULL, 0, 0, 2000000 },
    { 5, 2, 1, SIG_SHAPE, AL_FULL, 0, 0, 2000000 },
    { 4, 2, 0, SIG_SHAPE, AL_FULL, 0, 0, 2000000 },
    { 4, 2, 1, SIG_SHAPE, AL_FULL, 0, 0, 2000000 },
    { 4, 2, 0, SIG_ABSTRACT, AL_FULL, 0, 0, 100000 },
    { 4, 2, 1, SIG_ABSTRACT, AL_FULL, 0, 0, 100000 },
    { 4, 2, 0, SIG_HISTORY, AL_REDUCED, 5, 1, 2000000 },
    { 4, 2, 1, SIG_HISTORY, AL_REDUCED, 5, 1, 2000000 },
    { 4, 1, 0, SIG_HISTORY, AL_MINIMAL, 7, 1, 2000000 },
    { 4, 1, 1, SIG_HISTORY, AL_MINIMAL, 7, 1, 2000000 },
};
/* mode "clear": every state cleared on replicas (two probes), so smaller scopes */
static const struct cscope clear_quick_scopes[] = {
    { 8, 1, 1, SIG_SHAPE, AL_REDUCED, 0, 0, 400000 },
    { 7, 1, 0, SIG_SHAPE, AL_REDUCED, 0, 0, 400000 },
    { 5, 2, 0, SIG_SHAPE, AL_REDUCED, 0, 0, 400000 },
    { 5, 2, 1, SIG_SHAPE, AL_REDUCED, 0, 0, 400000 },
    { 6, 1, 0, SIG_SHAPE, AL_REDUCED, 0, 0, 400000 },
    { 6, 1, 1, SIG_SHAPE, AL_REDUCED, 0, 0, 400000 },
    { 4, 2, 0, SIG_SHAPE, AL_REDUCED, 0, 0, 400000 },
    { 4, 2, 1, SIG_SHAPE, AL_REDUCED, 0, 0, 400000 },
};
static const struct cscope clear_thorough_scopes[] = {
    { 10, 1, 0, SIG_SHAPE, AL_REDUCED, 0, 0, 2000000 },
    { 10, 1, 1, SIG_SHAPE, AL_REDUCED, 0, 0, 2000000 },
    { 6, 2, 0, SIG_SHAPE, AL_REDUCED, 0, 0, 2000000 },
    { 6, 2, 1, SIG_SHAPE, AL_REDUCED, 0, 0, 2000000 },
    { 8, 1, 0, SIG_SHAPE, AL_REDUCED, 0, 0, 2000000 },
    { 8, 1, 1, SIG_SHAPE, AL_REDUCED, 0, 0, 2000000 },
    { 5, 2, 0, SIG_SHAPE, AL_REDUCED, 0, 0, 2000000 },
    { 5, 2, 1, SIG_SHAPE, AL_REDUCED, 0, 0, 2000000 },
    { 4, 3, 0, SIG_SHAPE, AL_REDUCED, 0, 0, 2000000 },
    { 4, 2, 0, SIG_SHAPE, AL_REDUCED, 0, 0, 2000000 },
    { 4, 2, 1, SIG_SHAPE, AL_REDUCED, 0, 0, 2000000 },
};

/* closure cases: one per (scope, prefix) */
struct ccase { const struct cscope *s; int pi; };
static struct ccase ccases[1024];
static int nccases;

static int ipow(int b, int e) { int r = 1; while (e-- > 0) r *= b; return r; }

static void plan_cases(void)
{
    const struct cscope *sc;
    int ns, i, p;
    uint32_t al[160];
    if (is_clear_mode) {
        if (vrt_thorough) { sc = clear_thorough_scopes; ns = sizeof(clear_thorough_scopes) / sizeof(sc[0]); }
        else { sc = clear_quick_scopes; ns = sizeof(clear_quick_scopes) / sizeof(sc[0]); }
    } else {
        if (vrt_thorough) { sc = thorough_scopes; ns = sizeof(thorough_scopes) / sizeof(sc[0]); }
        else { sc = quick_scopes; ns = sizeof(quick_scopes) / sizeof(sc[0]); }
    }
    nccases = 0;
    for (i = 0; i < ns; i++) {
        const int np = sc[i].prefix ? ipow(build_alphabet(sc[i].nv, sc[i].no, sc[i].alpha, al), sc[i].prefix) : 1;
        for (p = 0; p < np && nccases < 1024; p++) { ccases[nccases].s = &sc[i]; ccases[nccases].pi = p; nccases++; }
    }
}

static void run_closure(int ci)
{
    const struct cscope *s = ccases[ci].s;
    static const char *const smn[] = { "model", "model+tree-shape", "history" };
    uint32_t al[160];
    const int n = build_alphabet(s->nv, s->no, s->alpha, al);
    struct vex_result r;
    vrt_case_note("%s values=%d objects-per-value=%d cmp=%s signature=%s alphabet=%d%s first-ops=%d/#%d%s",
                  s->len ? "all sequences" : "closure", s->nv, s->no, s->desc ? "descending" : "ascending",
                  smn[s->sigmode], n, s->len ? " (length bounded)" : "", s->prefix, ccases[ci].pi,
                  is_clear_mode ? " +clear probes in every state" : "");
    in_closure = 1;
    model.nprobes = is_clear_mode ? 2 : 0;
    model.probe = st_probe;
    model.nontrivial = is_clear_mode ? st_nontrivial_clear : st_nontrivial;
    vex_closure(&model, SCOPE(s->nv, s->no, s->desc, s->sigmode, s->alpha, s->prefix, ccases[ci].pi), al, n,
                s->max_states, s->len ? s->len - s->prefix : 200, &r);
    if (s->len) {
        VRT_COUNT_N("sequences.states", r.states);
        VRT_COUNT_N("sequences.transitions", r.transitions);
        VRT_MAX("max.sequences.length", r.maxdepth + s->prefix);
        VRT_COUNT("sequences.cases");
    } else {
        VRT_COUNT_N("closure.states", r.states);
        VRT_COUNT_N("closure.transitions", r.transitions);
        VRT_MAX("max.closure.depth", r.maxdepth);
        if (r.closed) VRT_COUNT("closure.scopes-closed"); else VRT_COUNT("closure.scopes-capped");
    }
    in_closure = 0;
    VRT_COUNT_N("closure.replayed-ops", r.applied);
    VRT_COUNT_N("closure.probes", r.probes);
    vrt_log("map: case %d values=%d objs=%d desc=%d sig=%d len=%d: states=%llu transitions=%llu depth=%llu closed=%d\n", ci,
            s->nv, s->no, s->desc, s->sigmode, s->len, (unsigned long long)r.states, (unsigned long long)r.transitions,
            (unsigned long long)r.maxdepth, r.closed);
}

/* ------------------------------------------------------------------ */
/* random histories                                                    */
/* ------------------------------------------------------------------ */
static int perm[MAXV];
static void make_perm(vrt_rng *g, int n, int order)
{
    int i;
    for (i = 0; i < n; i++) perm[i] = order == 1 ? n - 1 - i : i;
    if (order == 2) {
        for (i = n - 1; i > 0; i--) {
            const int j = (int)vrt_below(g, (uint32_t)i + 1), t = perm[i];
            perm[i] = perm[j]; perm[j] = t;
        }
    }
}

static void run_random(uint64_t idx)
{
    static const char *const on[] = { "ascending", "descending", "shuffled" };
    static const int small_nv[] = { 3, 8, 16, 32 };
    vrt_rng g;
    const int order = (int)(idx % 3), d = (int)(idx / 3 % 2);
    int nvv, noo, nops, i, phase = 0, cursor = 0, drain_rev = 0;
    vrt_rng_seed(&g, vrt_seed, 0xC08000 + idx);
    nvv = (idx % 5 == 4) ? small_nv[vrt_below(&g, 4)] : 64;
    noo = 2 + (int)vrt_below(&g, 2);
    nops = 10000;
    vrt_case_note("random values=%d objects-per-value=%d cmp=%s insertion-order=%s ops=%d", nvv, noo,
                  d ? "descending" : "ascending", on[order], nops);
    in_closure = 0;
    setup(nvv, noo, d, SIG_ABSTRACT);
    make_perm(&g, nvv, order);
    for (i = 0; i < nops; i++) {
        int v, r, ko = (int)vrt_below(&g, noo), vo = (int)vrt_below(&g, noo + 1), fl = (int)vrt_below(&g, 2);
        const int level = (i % 64) == 63 ? 2 : 1;
        uint32_t op;
        if (vo == noo) vo = VO_NULL;            /* one entry in noo+1 is offered a NULL value pointer */
        if (i % 384 == 0) {
            phase = (int)vrt_below(&g, 3);          /* 0 fill, 1 mixed, 2 drain */
            drain_rev = (int)vrt_below(&g, 2);
            cursor = 0;
            if (order == 2 && vrt_chance(&g, 1, 4)) make_perm(&g, nvv, 2);
        }
        if (vrt_chance(&g, 2, 3)) {
            v = perm[cursor % nvv];
            if (phase == 2 && drain_rev) v = perm[nvv - 1 - cursor % nvv];
            cursor++;
        } else {
            v = (int)vrt_below(&g, nvv);
        }
        r = (int)vrt_below(&g, 1000);
        if (r < 3) op = OP(K_CLEAR, 0, 0, 0, fl);
        else if (r < 20) op = OP(K_SIZE, 0, 0, 0, 0);
        else if (r < 70) { static const int sec[3] = { 0, 2, 3 }; op = OP(K_REKEY, v, sec[vrt_below(&g, 3)], vo, fl); }
        else {
            static const int w[3][4] = {    /* insert, find, erase, erase_it (per mille, cumulative) */
                { 640, 760, 880, 1000 },
                { 380, 560, 790, 1000 },
                { 170, 330, 700, 1000 },
            };
            if (r < w[phase][0]) op = OP(K_INSERT, v, ko, vo, fl);
            else if (r < w[phase][1]) op = OP(K_FIND, v, ko, 0, 0);
            else if (r < w[phase][2]) op = OP(K_ERASE, v, ko, 0, fl);
            else { const int via = vrt_chance(&g, 1, 4); op = OP(K_ERASE_IT, v, ko, vo, via); }
        }
        apply_ex(op, level);
    }
    audit_full();
    st_destroy();
    VRT_COUNT("random.histories");
}

/* mode "clear": large random maps cleared with the freeing callback, then re-used */
static void run_random_clear(uint64_t idx)
{
    vrt_rng g;
    const int order = (int)(idx % 3), d = (int)(idx / 3 % 2);
    int nvv, noo, fill, i, nullcb;
    vrt_rng_seed(&g, vrt_seed, 0xC15800 + idx);
    nvv = (idx % 4 == 0) ? 1000 + (int)vrt_below(&g, MAXV - 1000 + 1) : 10 + (int)vrt_below(&g, 300);
    noo = 1 + (int)vrt_below(&g, 3);
    fill = nvv / 2 + (int)vrt_below(&g, (uint32_t)nvv / 2 + 1);
    nullcb = idx % 8 == 7;
    vrt_case_note("random-clear values=%d objects-per-value=%d cmp=%s order=%d entries<=%d callback=%d", nvv, noo,
                  d ? "descending" : "ascending", order, fill, !nullcb);
    in_closure = 0;
    setup(nvv, noo, d, SIG_ABSTRACT);
    make_perm(&g, nvv, order);
    for (i = 0; i < fill; i++) {
        const int ko = (int)vrt_below(&g, noo), vr = (int)vrt_below(&g, noo + 1);
        apply_ex(OP(K_INSERT, perm[i], ko, vr == noo ? VO_NULL : vr, i & 1), 0);
    }
    for (i = 0; i < fill / 8; i++) {
        const int v = (int)vrt_below(&g, nvv), er = vrt_chance(&g, 1, 2);
        apply_ex(er ? OP(K_ERASE, v, 0, 0, 1) : OP(K_INSERT, v, noo - 1, (v & 3) == 3 ? VO_NULL : 0, 1), 1);
    }
    audit_full();
    vrt_sig(1, vrt_mix(sig_abstract(), idx));
    VRT_MAX("max.cleared.size", Mn);
    apply_ex(OP(K_CLEAR, 0, 0, 0, nullcb), 2);
    /* re-use */
    for (i = 0; i < 48; i++) {
        const int v = (int)vrt_below(&g, nvv < 64 ? nvv : 64);
        const int r = (int)vrt_below(&g, 4), ko = (int)vrt_below(&g, noo);
        apply_ex(r < 2 ? OP(K_INSERT, v, ko, (v & 1) ? VO_NULL : 0, 1) : r == 2 ? OP(K_ERASE, v, 0, 0, 1) : OP(K_ERASE_IT, v, 0, 0, 1), 1);
    }
    audit_full();
    apply_ex(OP(K_CLEAR, 0, 0, 0, 0), 2);
    st_destroy();
    VRT_COUNT("random.histories");
    VRT_COUNT("probe.clear-then-reuse.random");
}

static uint64_t nrandom(void)
{
    if (is_clear_mode) return vrt_thorough ? 4000 : 400;
    return vrt_thorough ? 20000 : 2400;
}
static uint64_t ncases(void)
{
    is_clear_mode = strcmp(vrt_mode, "clear") == 0;
    plan_cases();
    return nccases + nrandom();
}
static void run_case(uint64_t idx)
{
    if (idx < (uint64_t)nccases) run_closure((int)idx);
    else if (is_clear_mode) run_random_clear(idx - nccases);
    else run_random(idx - nccases);
}
static void winit(void)
{
    vrt_sig_name(0, "map-states");
    vrt_sig_name(1, "cleared-states");
    vrt_sig_name(2, "tree-shapes");
    (void)ncases();
}
static void wfini(void)
{
    VRT_COUNT_N("cmp.calls", ncmp);
}

static const char *const required[] = {
    "op.insert.null-key", "op.find.null-key.present", "op.erase.null-key", "op.insert.existing.stored-null-key.other-key-object",
    "clear.handed-over.null-key", "op.insert.new", "op.insert.null-value", "clear.handed-over.null-value", "op.insert.existing.stored-null-value",
    "op.find.present.null-value", "op.erase.present.null-value", "op.erase_iterator.null-value",
    "op.insert.existing.other-key-object", "op.insert.no-iterator", "op.insert.after-clear",
    "op.insert.new.below-all", "op.insert.new.above-all", "op.insert.new.between",
    "op.find.present", "op.find.present.other-key-object", "op.find.absent",
    "op.erase.present", "op.erase.absent", "op.erase.no-iterator",
    "op.erase_iterator.from-find", "op.erase_iterator.from-insert-new", "op.erase_iterator.from-insert-existing",
    "op.size", "op.clear.callback.several", "op.clear.null-callback.several", "op.clear.empty", "clear.handed-over",
    "alloc.node-malloc", "alloc.node-free", "audit.full", "walker.trees", "cmp.calls",
    "closure.states", "closure.scopes-closed", "sequences.transitions", "random.histories",
    /* the out-iterator arrived holding ... (per entry point) */
    "arrive.carried", "other-map.built", "other-map.verified",
    "op.insert.arrives.same-entry", "op.find.arrives.same-entry", "op.erase.arrives.same-entry",
    "op.insert.arrives.another-live-entry", "op.find.arrives.another-live-entry", "op.erase.arrives.another-live-entry",
    "op.insert.arrives.gone-entry", "op.find.arrives.gone-entry", "op.erase.arrives.gone-entry",
    "op.insert.arrives.gone-entry.erase_iterator-leftover", "op.find.arrives.gone-entry.erase_iterator-leftover",
    "op.erase.arrives.gone-entry.erase_iterator-leftover",
    "op.insert.arrives.gone-entry.value-inserted-again", "op.find.arrives.gone-entry.value-inserted-again",
    "op.erase.arrives.gone-entry.value-inserted-again",
    "op.insert.arrives.erase-report", "op.find.arrives.erase-report", "op.erase.arrives.erase-report",
    "op.insert.arrives.other-map-entry", "op.find.arrives.other-map-entry", "op.erase.arrives.other-map-entry",
    "op.insert.arrives.other-map-end", "op.find.arrives.other-map-end", "op.erase.arrives.other-map-end",
    "op.insert.arrives.names-key-pointer.value-absent", "op.find.arrives.names-key-pointer.value-absent",
    "op.erase.arrives.names-key-pointer.value-absent",
    /* the caller changed the key object of a miss before the next call */
    "rekey.insert.new", "rekey.insert.existing", "rekey.find.present", "rekey.find.absent", "rekey.erase.present", "rekey.erase.absent",
    "rekey.new-content.between-stored-keys", "rekey.new-content.above-all-stored-keys", "rekey.new-content.below-all-stored-keys",
    "rekey.old-content-smaller", "rekey.old-content-larger",
    NULL,       /* end of the list under a sanitizer (freed blocks sit in its quarantine there) */
    /* plain allocator (rel-native): the node memory of an erased entry has been handed out again to a later insert */
    "op.insert.arrives.gone-entry.node-memory-reused", "op.find.arrives.gone-entry.node-memory-reused",
    "op.erase.arrives.gone-entry.node-memory-reused", NULL
};
static const char *required_plain[sizeof(required) / sizeof(required[0])];
static const char *const required_clear[] = {
    "probe.clear-then-reuse", "probe.clear-null-callback-then-reuse", "probe.clear-then-reuse.random",
    "op.insert.null-value", "clear.handed-over.null-value",
    "op.insert.null-key", "op.find.null-key.present", "op.erase.null-key", "clear.handed-over.null-key",
    "clear.handed-over", "op.clear.callback.several", "op.insert.after-clear", "op.erase.present",
    "op.erase_iterator", "closure.states", "closure.scopes-closed", "closure.probes", "random.histories",
    /* a clear inside a clear */
    "nested.attached", "clear.nested.handed-over", "clear.nested.maps-cleared", "clear.nested.overwrite-verified", "clear.nested.null-callback",
    "clear.nested.first-handed-over-owns-a-map", "clear.nested.last-handed-over-owns-a-map", "clear.nested.inner-entry-owns-a-map",
    "clear.nested.several-owners", "clear.nested.owners-and-plain-entries", "clear.nested.outer-went-on-after-inner-clear",
    "clear.nested.reused", "op.clear.with-nested-clears",
    "clear.nested.arguments-reread-after-inner-clear", "clear.nested.arguments-reread-after-inner-clear-with-callback", NULL
};
static const struct vrt_harness H = { "map", ncases, run_case, winit, wfini, required, 16 };
static const struct vrt_harness Hplain = { "map", ncases, run_case, winit, wfini, required_plain, 16 };
static const struct vrt_harness Hclear = { "map", ncases, run_case, winit, wfini, required_clear, 16 };

int main(int argc, char **argv)
{
    int i, clear = 0, plain = 0;
    size_t j, n = 0;
    for (i = 1; i + 1 < argc; i++) {
        if (strcmp(argv[i], "--mode") == 0 && strcmp(argv[i + 1], "clear") == 0) clear = 1;
        /* a configuration without a sanitizer runtime: free()d node memory is handed out again at once */
        if (strcmp(argv[i], "--config") == 0 && strstr(argv[i + 1], "san") == NULL) plain = 1;
    }
    for (j = 0; j < sizeof(required) / sizeof(required[0]); j++) if (required[j] != NULL) required_plain[n++] = required[j];
    required_plain[n] = NULL;
    return vrt_main(argc, argv, clear ? &Hclear : plain ? &Hplain : &H);
}
