/*
 * C14 -- array views never reach outside their buffer, which lives as long
 * as any view (cstl_array_*, built on cstl_shared_ptr).
 *
 * cases: [0, nscopes)        closure / bounded-exhaustive scopes
 *        [nscopes, ...)      seeded random histories (~1000 ops each)
 *
 * Model: per object (buffer, off, len) or empty; per buffer (element area,
 * nm, sz, internal/external, the library blocks that came into being with
 * it).  A model "buffer" is one library-side wrapper: two separate
 * cstl_array_set() calls over the same caller-owned block give two buffers
 * with the same data pointer but independent blocks, referrers and geometry,
 * and set(a, NULL, 0, sz) gives a buffer of size 0 / data NULL that is still
 * "something" (slice [0,0) legal, shareable).  The oracle only uses argument *values* (never the argument class the
 * generator drew them from); classes only feed the evidence counters.
 */
#include "vrt.h"
#include "explore.h"
#include "cstl/array.h"
#include <string.h>
#include <stdio.h>

typedef unsigned __int128 u128;

#define NOBJ   4
#define MAXBUF 4
#define MAXBLK 4
#define SENT   ((void *)(uintptr_t)0x5e17)

/*
 * A "buffer" of the model is one library-side wrapper (descriptor + bookkeeping
 * blocks) with its own element count/size and referrer set.  External
 * wrappers view a harness-owned memory block (struct xmem); several wrappers,
 * made by separate cstl_array_set() calls and possibly of different geometry,
 * may view the same block.  x = -1 with external = 1 is set(a, NULL, 0, sz):
 * an object that refers to something (slice [0,0) legal) of size 0, data NULL.
 */
struct xmem { int live; char *p; size_t bytes; };
struct buf {
    int live, external;
    int x;                      /* external: index of the harness block, -1 = NULL buffer */
    size_t nm, sz;
    char *base;                 /* element area (data()) */
    void *blk[MAXBLK];          /* library blocks created together with it */
    int nblk;
    int freed;                  /* bit mask used while the buffer is dying */
};
struct view { int b; size_t off, len; };

static cstl_array_t *A[NOBJ];
static struct view V[NOBJ];
static struct buf B[MAXBUF];
#define MAXX (MAXBUF + 1)
static struct xmem X[MAXX];
static int nobj, maxbuf;
static int dying[MAXBUF], ndying;
static const char *lastop = "none";

/* ---- op encoding ---- */
enum { K_ALLOC = 1, K_SET, K_SLICE, K_UNSLICE, K_RESET, K_RELEASE, K_AT, K_DATA, K_SIZE, K_NKINDS };
#define OP(kind, a, s, c1, c2, szc, fail, salt) \
    ((uint32_t)(kind) | (uint32_t)(a) << 4 | (uint32_t)(s) << 6 | (uint32_t)(c1) << 8 | (uint32_t)(c2) << 13 | \
     (uint32_t)(szc) << 18 | (uint32_t)(fail) << 21 | (uint32_t)(salt) << 23)
#define OP_KIND(o) ((o) & 15)
#define OP_A(o)    (((o) >> 4) & 3)
#define OP_S(o)    (((o) >> 6) & 3)
#define OP_C1(o)   (((o) >> 8) & 31)
#define OP_C2(o)   (((o) >> 13) & 31)
#define OP_SZC(o)  (((o) >> 18) & 7)
#define OP_FAIL(o) (((o) >> 21) & 3)
#define OP_SALT(o) (((o) >> 23) & 255)

/* element size classes; the last one is the degenerate size 0 (legal: alloc/set handle it explicitly) */
#define NSZ 6
#define Z_0 5
static const size_t szval[NSZ] = { 1, 2, 4, 8, 24, 0 };
static const char *const szname[NSZ] = { "1", "2", "4", "8", "24", "0" };

/* element-count classes for alloc (set uses the small ones only) */
enum { N_0, N_1, N_2, N_3, N_SMALL, N_MID, N_2P63, N_MAX, N_MAXM1, N_MAXDIV1, N_MAXDIV, N_HDRFIT, N_HDRFIT1,
       N_CAP1, N_2P32, N_NCLS };
static const char *const nmname[N_NCLS] = {
    "0", "1", "2", "3", "small", "mid", "2p63", "size_max", "size_max-1", "size_max_div_sz+1", "size_max_div_sz",
    "size_max-hdr_div_sz", "size_max-hdr_div_sz+1", "cap_div_sz+1", "2p32+3"
};
static size_t nmvalue(int c, size_t sz, unsigned salt)
{
    if (sz == 0) sz = 1;        /* the classes that divide by the element size are not applicable to size 0 (see st_apply) */
    switch (c) {
    case N_0: return 0;
    case N_1: return 1;
    case N_2: return 2;
    case N_3: return 3;
    case N_SMALL: return 2 + salt % 46;
    case N_MID: return 64 + salt;
    case N_2P63: return (size_t)1 << 63;
    case N_MAX: return SIZE_MAX;
    case N_MAXM1: return SIZE_MAX - 1;
    case N_MAXDIV1: return SIZE_MAX / sz + 1;
    case N_MAXDIV: return SIZE_MAX / sz;
    case N_HDRFIT: return (SIZE_MAX - 24) / sz;
    case N_HDRFIT1: return (SIZE_MAX - 24) / sz + 1;
    case N_CAP1: return vrt_alloc_cap / sz + 1;
    default: return ((size_t)1 << 32) + 3;
    }
}

/* slice bound classes, relative to the source view (off, len, rem = nm - off) */
enum { S_0, S_1, S_2, S_IN, S_LENM1, S_LEN, S_LEN1, S_REMM1, S_REM, S_REM1, S_MAX, S_MAXM1,
       S_MAXOFF, S_MAXOFF1, S_MAXOFF2, S_MAXOFFM1, S_WRAPREM, S_MULWRAP1, S_MULWRAPREM, S_HALF, S_NCLS };
static const char *const sname[S_NCLS] = {
    "0", "1", "2", "in-range", "size-1", "size", "size+1", "bufend-1", "bufend", "bufend+1", "size_max", "size_max-1",
    "size_max-off", "size_max-off+1", "size_max-off+2", "size_max-off-1", "size_max-off+1+bufend",
    "mulwrap+1", "mulwrap+bufend", "half-size"
};
static int boundvalue(int c, const struct view *v, unsigned salt, size_t *out)
{
    const size_t off = v->b < 0 ? 0 : v->off, len = v->b < 0 ? 0 : v->len;
    const size_t rem = v->b < 0 ? 0 : B[v->b].nm - off;
    switch (c) {
    case S_0: *out = 0; break;
    case S_1: *out = 1; break;
    case S_2: *out = 2; break;
    case S_IN: *out = len == SIZE_MAX ? salt : salt % (len + 1); break;
    case S_LENM1: if (len == 0) return 0; *out = len - 1; break;
    case S_LEN: *out = len; break;
    case S_LEN1: *out = len + 1; break;
    case S_REMM1: if (rem == 0) return 0; *out = rem - 1; break;
    case S_REM: *out = rem; break;
    case S_REM1: *out = rem + 1; break;
    case S_MAX: *out = SIZE_MAX; break;
    case S_MAXM1: *out = SIZE_MAX - 1; break;
    case S_MAXOFF: *out = SIZE_MAX - off; break;
    case S_MAXOFF1: *out = SIZE_MAX - off + 1; break;
    case S_MAXOFF2: *out = SIZE_MAX - off + 2; break;
    case S_MAXOFFM1: *out = SIZE_MAX - off - 1; break;
    case S_WRAPREM: *out = SIZE_MAX - off + 1 + rem; break;
    /* counts whose product with the element size wraps to a few bytes (a bound check done in bytes would accept them) */
    case S_MULWRAP1: if (v->b < 0 || B[v->b].sz < 2) return 0; *out = SIZE_MAX / B[v->b].sz + 2; break;
    case S_MULWRAPREM: if (v->b < 0 || B[v->b].sz < 2 || rem > SIZE_MAX / 2) return 0; *out = SIZE_MAX / B[v->b].sz + 1 + rem; break;
    case S_HALF: *out = len / 2; break;          /* reshape cases only (not part of ALL_BOUNDS / pick_bound) */
    default: return 0;
    }
    return 1;
}

/* index classes for the at() op */
enum { I_0, I_IN, I_LENM1, I_LEN, I_LEN1, I_REMM1, I_REM, I_MAX, I_MAXM1, I_MAXOFF1, I_MAXOFF2, I_MULWRAP, I_NCLS };
static const char *const iname[I_NCLS] = {
    "0", "in-range", "size-1", "size", "size+1", "bufend-1", "bufend", "size_max", "size_max-1",
    "size_max-off+1", "size_max-off+2", "mulwrap+in-range"
};
static int indexvalue(int c, const struct view *v, unsigned salt, size_t *out)
{
    const size_t off = v->b < 0 ? 0 : v->off, len = v->b < 0 ? 0 : v->len;
    const size_t rem = v->b < 0 ? 0 : B[v->b].nm - off;
    switch (c) {
    case I_0: *out = 0; break;
    case I_IN: if (len == 0) return 0; *out = salt % len; break;
    case I_LENM1: if (len == 0) return 0; *out = len - 1; break;
    case I_LEN: *out = len; break;
    case I_LEN1: *out = len + 1; break;
    case I_REMM1: if (rem == 0) return 0; *out = rem - 1; break;
    case I_REM: *out = rem; break;
    case I_MAX: *out = SIZE_MAX; break;
    case I_MAXM1: *out = SIZE_MAX - 1; break;
    case I_MAXOFF1: *out = SIZE_MAX - off + 1; break;
    case I_MAXOFF2: *out = SIZE_MAX - off + 2; break;
    /* an index whose product with the element size wraps to the offset of an element of the view */
    case I_MULWRAP: if (v->b < 0 || B[v->b].sz < 2) return 0; *out = SIZE_MAX / B[v->b].sz + 1 + (len ? salt % len : 0); break;
    default: return 0;
    }
    return 1;
}

/* ---- counters by class (names built once per worker) ---- */
/* byte counts of the reshape cases (see run_reshape) */
static const size_t rs_bytes[] = { 240, 720, (size_t)1 << 16, (size_t)1 << 17, (size_t)1 << 18, (size_t)1 << 20 };
static const char *const rs_bname[] = { "240", "720", "64k", "128k", "256k", "1m" };
#define RS_NB 6
static int c_rs[2][RS_NB];
static int c_alloc_nm[N_NCLS], c_alloc_sz[NSZ], c_set_sz[NSZ], c_beg[S_NCLS], c_end[S_NCLS], c_idx[I_NCLS];
static void init_counters(void)
{
    char nm[64];
    int i;
    for (i = 0; i < N_NCLS; i++) { snprintf(nm, sizeof(nm), "alloc.nm.%s", nmname[i]); c_alloc_nm[i] = vrt_counter_id(nm); }
    for (i = 0; i < NSZ; i++) { snprintf(nm, sizeof(nm), "alloc.elem-size.%s", szname[i]); c_alloc_sz[i] = vrt_counter_id(nm); }
    for (i = 0; i < NSZ; i++) { snprintf(nm, sizeof(nm), "set.elem-size.%s", szname[i]); c_set_sz[i] = vrt_counter_id(nm); }
    for (i = 0; i < S_NCLS; i++) { snprintf(nm, sizeof(nm), "slice.beg.%s", sname[i]); c_beg[i] = vrt_counter_id(nm); }
    for (i = 0; i < S_NCLS; i++) { snprintf(nm, sizeof(nm), "slice.end.%s", sname[i]); c_end[i] = vrt_counter_id(nm); }
    for (i = 0; i < I_NCLS; i++) { snprintf(nm, sizeof(nm), "at.index.%s", iname[i]); c_idx[i] = vrt_counter_id(nm); }
    for (i = 0; i < RS_NB; i++) {
        snprintf(nm, sizeof(nm), "reshape.alloc.%s-bytes", rs_bname[i]); c_rs[0][i] = vrt_counter_id(nm);
        snprintf(nm, sizeof(nm), "reshape.set.%s-bytes", rs_bname[i]); c_rs[1][i] = vrt_counter_id(nm);
    }
}

/* ---- model helpers ---- */
static int refs(int b)
{
    int o, n = 0;
    for (o = 0; o < nobj; o++) if (V[o].b == b) n++;
    return n;
}
static int nlive(void)
{
    int b, n = 0;
    for (b = 0; b < MAXBUF; b++) n += B[b].live;
    return n;
}
static int newbuf(void)
{
    int b;
    for (b = 0; b < MAXBUF; b++) if (!B[b].live) return b;
    vrt_fail("harness.array.no-free-buffer-slot", "model ran out of buffer slots");
}
/* object o now refers to (nb, off, len); its previous buffer may lose its last referrer */
static void retarget(int o, int nb, size_t off, size_t len)
{
    const int old = V[o].b;
    V[o].b = nb; V[o].off = nb < 0 ? 0 : off; V[o].len = nb < 0 ? 0 : len;
    if (old >= 0 && old != nb && refs(old) == 0) { dying[ndying++] = old; B[old].freed = 0; }
}
static const char *viewclass(int o)
{
    const struct view *v = &V[o];
    if (v->b < 0) return "empty";
    if (refs(v->b) > 1) return v->off ? "shared-offset" : "shared";
    if (v->off) return "offset-view";
    return v->len == B[v->b].nm ? "full-view" : "prefix-view";
}
static const char *bufclass(int o)
{
    const struct view *v = &V[o];
    if (v->b < 0) return "empty";
    if (B[v->b].external) return refs(v->b) > 1 ? "external-shared" : "external-sole";
    return refs(v->b) > 1 ? "internal-shared" : "internal-sole";
}

static int in_audit;
static void failk(const char *key, const char *fmt, ...) __attribute__((format(printf, 2, 3), noreturn));
static void failk(const char *key, const char *fmt, ...)
{
    /* audit failures: key + ".after-<last mutating op>" */
    char k[128], m[400];
    va_list ap;
    va_start(ap, fmt);
    vsnprintf(m, sizeof(m), fmt, ap);
    va_end(ap);
    if (in_audit) snprintf(k, sizeof(k), "%s.after-%s", key, lastop);
    else snprintf(k, sizeof(k), "%s", key);
    in_audit = 0;
    vrt_fail(k, "%s", m);
}

/*
 * Lifetime clause, evaluated on the allocator events of the call just made:
 * every free must hit a block of a buffer whose last referrer went away in
 * this call (each exactly once) or a block allocated in the same call; all
 * blocks of such a buffer must be freed; blocks that survive the call belong
 * to the buffer the call created (none may survive otherwise).
 */
static void xmem_free(int x)
{
    memset(X[x].p, 0xa5, X[x].bytes);
    vrt_free(X[x].p);
    X[x].live = 0; X[x].p = NULL;
    VRT_COUNT("external-block.freed-by-harness");
}
/* library blocks allocated and not freed again in the call just made */
static int surviving_allocs(void)
{
    void *nb[16];
    int nnb = 0, n = vrt_ev_n(), i, j;
    for (i = 0; i < n && i < VRT_EV_MAX; i++) {
        const struct vrt_aev *e = vrt_ev(i);
        void *fp = NULL, *ap = NULL;
        if (e->kind == 'f') fp = e->p;
        else if (e->failed) continue;
        else if (e->kind == 'r') { fp = e->p; ap = e->q; }
        else ap = e->p;
        if (fp != NULL) for (j = 0; j < nnb; j++) if (nb[j] == fp) { nb[j] = nb[--nnb]; break; }
        if (ap != NULL && nnb < 16) nb[nnb++] = ap;
    }
    return nnb;
}
static int any_nonnull_free(void)
{
    int n = vrt_ev_n(), i;
    for (i = 0; i < n && i < VRT_EV_MAX; i++) if (vrt_ev(i)->kind == 'f' && vrt_ev(i)->p != NULL) return 1;
    return 0;
}
static int anyfail;
static void settle(int created)
{
    void *nb[16];
    int nnb = 0, n = vrt_ev_n(), i, j, k;

    anyfail = 0;
    VRT_CHECK(n <= VRT_EV_MAX, "harness.array.event-log-overflow", "%d allocator events in one call", n);
    for (i = 0; i < n; i++) {
        const struct vrt_aev *e = vrt_ev(i);
        void *fp = NULL, *ap = NULL;
        if (e->kind == 'f') fp = e->p;
        else if (e->failed) { anyfail = 1; VRT_COUNT("events.allocation-failed"); }
        else if (e->kind == 'r') { fp = e->p; ap = e->q; }
        else ap = e->p;
        if (fp != NULL) {
            int found = 0;
            for (j = 0; j < nnb && !found; j++) if (nb[j] == fp) { nb[j] = nb[--nnb]; found = 1; VRT_COUNT("events.transient-block-freed"); }
            for (j = 0; j < ndying && !found; j++) {
                struct buf *d = &B[dying[j]];
                for (k = 0; k < d->nblk; k++) if (d->blk[k] == fp && !(d->freed >> k & 1)) { d->freed |= 1 << k; found = 1; break; }
            }
            if (!found) {
                for (j = 0; j < MAXBUF; j++) if (B[j].live) {
                    for (k = 0; k < B[j].nblk; k++)
                        VRT_CHECK(B[j].blk[k] != fp, "array.lifetime.freed-while-referenced",
                                  "%s freed a block of %s buffer %d (nm=%zu sz=%zu) which %d object(s) still refer to",
                                  lastop, B[j].external ? "external" : "internal", j, B[j].nm, B[j].sz, refs(j));
                }
                vrt_fail("array.lifetime.unexpected-free", "%s freed %p which belongs to no buffer of the model", lastop, fp);
            }
            VRT_COUNT("events.free");
        }
        if (ap != NULL) {
            VRT_CHECK(nnb < 16, "harness.array.too-many-new-blocks", "more than 16 blocks allocated in one call");
            nb[nnb++] = ap;
            VRT_COUNT("events.alloc");
        }
    }
    for (j = 0; j < ndying; j++) {
        struct buf *d = &B[dying[j]];
        VRT_CHECK(d->freed == (1 << d->nblk) - 1, "array.lifetime.not-released",
                  "%s took the last reference to %s buffer %d away but %d of its %d library block(s) stayed allocated",
                  lastop, d->external ? "external" : "internal", dying[j],
                  d->nblk - __builtin_popcount(d->freed), d->nblk);
        d->live = 0;
        if (d->external) {
            VRT_COUNT("buffer.external.died");
            if (d->x >= 0) {
                int others = 0;
                for (k = 0; k < MAXBUF; k++) if (B[k].live && B[k].external && B[k].x == d->x) others++;
                if (others) VRT_COUNT("buffer.external.died.block-still-wrapped");
                else xmem_free(d->x);   /* the harness owns the block again: poison + free, a stale view is an ASan report */
            }
        } else {
            VRT_COUNT("buffer.internal.died");
        }
        d->base = NULL; d->nblk = 0; d->x = -1;
    }
    ndying = 0;
    if (created >= 0) {
        VRT_CHECK(nnb >= 1, "array.lifetime.no-backing-block", "%s reports a new buffer but no library block came into being", lastop);
        VRT_CHECK(nnb <= MAXBLK, "harness.array.too-many-blocks-per-buffer", "%d blocks back one buffer", nnb);
        for (j = 0; j < nnb; j++) B[created].blk[j] = nb[j];
        B[created].nblk = nnb;
    } else {
        VRT_CHECK(nnb == 0, "array.lifetime.stray-allocation",
                  "%s left %d library block(s) allocated although it created no buffer", lastop, nnb);
    }
}

/* ---- audit ---- */
static int call_at(int o, size_t i, int konst, void **out)
{
    void *volatile p = NULL;
    int ab;
    if (konst) ab = VRT_ABORTS(p = (void *)cstl_array_at_const(A[o], i));
    else ab = VRT_ABORTS(p = cstl_array_at(A[o], i));
    *out = p;
    return ab;
}
static unsigned fillctr;
/*
 * Views of more than 600 elements (reshape cases only; the closure and random workloads stay below 320) are audited at
 * the first and last 8 indices, the two in the middle and ~40 evenly spread ones instead of everywhere.
 */
#define SPARSE_ABOVE 600
static size_t next_index(size_t i, size_t len)
{
    const size_t stride = len / 41 + 1, mid = len / 2 - 1;
    size_t n;
    if (len <= SPARSE_ABOVE || i < 7 || len - i < 9) return i + 1;
    n = stride > len - 8 - i ? len - 8 : i + stride;    /* no wrap-around: views of zero-sized elements have up to SIZE_MAX elements */
    if (i < mid && n > mid) n = mid;            /* mid and mid + 1 are always visited */
    else if (i == mid) n = mid + 1;
    if (n > len - 8) n = len - 8;
    return n;
}

static void must_abort_at(int o, size_t i, const char *cls)
{
    void *p;
    char key[96];
    VRT_COUNT("abort.expected.at");
    if (call_at(o, i, (int)(i & 1), &p)) { VRT_COUNT("abort.observed.at"); return; }
    snprintf(key, sizeof(key), "array.at.no-abort.%s", cls);
    failk(key, "at(a%d, %zu) returned %p instead of aborting (size %zu, off %zu, %s)",
          o, i, p, V[o].b < 0 ? (size_t)0 : V[o].len, V[o].b < 0 ? (size_t)0 : V[o].off, viewclass(o));
}

static void audit_obj(int o)
{
    cstl_array_t *a = A[o];
    const struct view *v = &V[o];
    const size_t len = v->b < 0 ? 0 : v->len, off = v->b < 0 ? 0 : v->off;
    const size_t got = cstl_array_size(a);
    const void *d;
    size_t i;

    if (got != len) failk("array.size", "a%d: size %zu, model %zu (%s)", o, got, len, viewclass(o));
    d = (o & 1) ? cstl_array_data_const(a) : cstl_array_data(a);
    if (v->b < 0) {
        if (d != NULL) failk("array.data.empty-not-null", "a%d is empty but data() = %p", o, d);
    } else {
        const struct buf *b = &B[v->b];
        if (d != (void *)b->base)
            failk("array.data", "a%d: data() = %p, element area of its buffer is %p", o, d, (void *)b->base);
        for (i = 0; i < len; i = next_index(i, len)) {
            void *p;
            char *want = b->base + (off + i) * b->sz;
            if (call_at(o, i, (int)((i ^ o) & 1), &p))
                failk("array.at.abort-in-range", "at(a%d, %zu) aborted, size is %zu (off %zu)", o, i, len, off);
            if (p != (void *)want)
                failk("array.at.address", "at(a%d, %zu) = %p, expected base %p + (%zu+%zu)*%zu = %p (buffer of %zu elements)",
                      o, i, p, (void *)b->base, off, i, b->sz, (void *)want, b->nm);
            memset(p, (int)(0x30 + (fillctr++ & 0x3f)), b->sz);       /* ASan sees a stale or short buffer */
        }
        if (b->sz > 0) VRT_COUNT_N("audit.elements-written", len);
        else if (len > 0) {
            /* zero-sized elements: every address is the buffer start, nothing is written */
            VRT_COUNT("audit.object.zero-size-elements");
            if (off > 0) VRT_COUNT("audit.object.zero-size-elements.offset-view");
            if (len > ((size_t)1 << 32)) VRT_COUNT("audit.object.zero-size-elements.more-than-2p32");
        }
        if (b->nm == 0 && b->base != NULL) {
            if (b->external) VRT_COUNT("audit.object.nm-zero.real-external-buffer"); else VRT_COUNT("audit.object.nm-zero.library-buffer");
        }
        if (len > SPARSE_ABOVE) VRT_COUNT("audit.object.sparse");
        if (b->nm - off > len) {
            /* inside the buffer but beyond the view */
            must_abort_at(o, b->nm - off - 1, "beyond-view-inside-buffer");
            VRT_COUNT("audit.at.beyond-view-inside-buffer");
        }
        if (off > 0) must_abort_at(o, SIZE_MAX - off + 1, "index-wraps-to-zero");
    }
    must_abort_at(o, len, "index-eq-size");
    if (len < SIZE_MAX) must_abort_at(o, len + 1, "index-gt-size");     /* SIZE_MAX zero-sized elements: len + 1 is index 0 */
    must_abort_at(o, SIZE_MAX, "index-size-max");
    VRT_COUNT("audit.object");
}

static void audit_all(void)
{
    int o, b;
    size_t want = 0;
    in_audit = 1;
    for (b = 0; b < MAXBUF; b++) if (B[b].live) {
        int k;
        VRT_CHECK(refs(b) > 0, "harness.array.model-buffer-without-referrer", "buffer %d", b);
        for (k = 0; k < B[b].nblk; k++) {
            size_t rs;
            if (vrt_lib_block(B[b].blk[k], &rs) != B[b].blk[k])
                failk("array.lifetime.block-gone", "library block %d of %s buffer %d is no longer live while %d object(s) refer to it",
                      k, B[b].external ? "external" : "internal", b, refs(b));
        }
        want += B[b].nblk;
    }
    if (vrt_lib_live() != want)
        failk("array.lifetime.live-block-count", "%zu live library blocks, the %d live buffer(s) account for %zu",
              vrt_lib_live(), nlive(), want);
    for (o = 0; o < nobj; o++) audit_obj(o);
    in_audit = 0;
    VRT_COUNT("audit.full");
}

/* ---- state ---- */
/* reshape cases: alloc/set with an explicit (nm, sz) instead of the classes of the op encoding */
static int ov_on;
static size_t ov_nm, ov_sz;
static unsigned init_toggle;
static void st_create(int scope)
{
    int o;
    nobj = scope & 7; maxbuf = (scope >> 3) & 7;
    memset(B, 0, sizeof(B));
    memset(X, 0, sizeof(X));
    ndying = 0; in_audit = 0; ov_on = 0;
    lastop = "none";
    for (o = 0; o < nobj; o++) {
        A[o] = vrt_alloc(sizeof(cstl_array_t));
        memset(A[o], 0x7b, sizeof(cstl_array_t));
        /* both documented ways of making an array object: the init function and (every other time) the static initialiser */
        if (++init_toggle & 1) cstl_array_init(A[o]);
        else *A[o] = (cstl_array_t)CSTL_ARRAY_INITIALIZER((*A[o]));
        V[o].b = -1; V[o].off = V[o].len = 0;
    }
}
#define SCOPE(no, mb) ((no) | (mb) << 3)

static int st_apply(uint32_t op, int audit);
static void st_destroy(void)
{
    int o;
    for (o = 0; o < nobj; o++) st_apply(OP(K_RESET, o, 0, 0, 0, 0, 0, 0), 0);
    VRT_CHECK(vrt_lib_live() == 0, "array.lifetime.leak-at-end", "%zu library block(s) live after every object was reset", vrt_lib_live());
    VRT_CHECK(nlive() == 0, "harness.array.model-buffer-left", "model buffer left after resetting everything");
    for (o = 0; o < MAXX; o++) VRT_CHECK(!X[o].live, "harness.array.external-block-left", "external block %d still owned at the end", o);
    for (o = 0; o < nobj; o++) { vrt_free(A[o]); A[o] = NULL; }
}

static const uint8_t fpmask1 = 1, fpmask2 = 2;

static int st_apply(uint32_t op, int audit_arg)
{
    volatile int audit = audit_arg;     /* st_apply contains sigsetjmp()s (VRT_ABORTS) */
    const int kind = OP_KIND(op), a = OP_A(op), s = OP_S(op), c1 = OP_C1(op), c2 = OP_C2(op);
    const int szc = OP_SZC(op), fail = OP_FAIL(op);
    const unsigned salt = OP_SALT(op);

    if (a >= nobj) return 0;
    switch (kind) {
    case K_ALLOC:
    case K_SET: {
        const int isset = kind == K_SET;
        size_t sz, nm, got;
        u128 prod;
        const int old = V[a].b;
        const int onto_offset = old >= 0 && V[a].off > 0;
        const int onto_shared = old >= 0 && refs(old) > 1;
        char *ext = NULL;
        void *d;
        int created = -1;
        /* set: 0 = fresh harness block, 1 = second, separate wrapper over the block object s views, 2 = set(a, NULL, 0, sz) */
        const int setmode = isset ? c2 : 0;
        int xsel = -1, newx = 0, othergeom = 0;

        const int old_degenerate = old >= 0 && (B[old].nm == 0 || B[old].sz == 0);
        if (szc >= NSZ || c1 >= N_NCLS || fail > 2) return 0;
        sz = szval[szc];
        /* zero-sized elements: every count is representable (also for set: the block has 0 bytes), the classes derived from
         * SIZE_MAX / sz or cap / sz do not exist */
        if (sz == 0 && !ov_on && c1 >= N_MAXDIV1 && c1 <= N_CAP1) return 0;
        if (isset && ((c1 > N_MID && sz != 0) || setmode > 2)) return 0;
        nm = nmvalue(c1, sz, salt);
        if (ov_on) { sz = ov_sz; nm = ov_nm; }
        if (setmode == 1) {
            const struct buf *w;
            if (s >= nobj || V[s].b < 0) return 0;
            w = &B[V[s].b];
            if (!w->external || w->x < 0) return 0;
            xsel = w->x;
            /* the new wrapper may describe the block differently, but never beyond it */
            if (sz != 0 && (c1 == N_MID || nm > X[xsel].bytes / sz)) nm = X[xsel].bytes / sz;    /* sz 0: any count describes 0 bytes */
            othergeom = nm != w->nm || sz != w->sz;
        } else if (setmode == 2) {
            if (c1 != N_0) return 0;
            nm = 0;
        }
        prod = (u128)nm * sz;
        if (nlive() - (old >= 0 && refs(old) == 1) + 1 > maxbuf) return 0;
        if (isset && setmode == 0) {
            /* harness-owned block of exactly nm*sz bytes */
            for (xsel = 0; xsel < MAXX && X[xsel].live; xsel++) ;
            VRT_CHECK(xsel < MAXX, "harness.array.no-free-xmem-slot", "model ran out of external block slots");
            X[xsel].p = vrt_alloc((size_t)prod);
            X[xsel].bytes = (size_t)prod; X[xsel].live = 1;
            memset(X[xsel].p, 0xee, (size_t)prod);
            newx = 1;
        }
        if (xsel >= 0) ext = X[xsel].p;
        vrt_state(viewclass(a));
        lastop = isset ? "set" : "alloc";
        if (setmode == 1) VRT_OP4("array.set", "a%ld second wrapper over the block a%ld views, nm=%lu sz=%ld", a, s, nm, sz);
        else if (setmode == 2) VRT_OP3("array.set", "a%ld NULL nm=0 sz=%ld failpoint=%ld", a, sz, fail);
        else if (isset) VRT_OP4("array.set", "a%ld ext nm=%lu sz=%ld failpoint=%ld", a, nm, sz, fail);
        else VRT_OP4("array.alloc", "a%ld nm=%lu sz=%ld failpoint=%ld", a, nm, sz, fail);
        if (fail) vrt_fp_arm(fail == 1 ? &fpmask1 : &fpmask2, 2, 0);
        vrt_ev_begin();
        if (isset) cstl_array_set(A[a], ext, nm, sz);
        else cstl_array_alloc(A[a], nm, sz);
        vrt_fp_disarm();
        got = cstl_array_size(A[a]);
        d = cstl_array_data(A[a]);
        {
            int i, n = vrt_ev_n();
            anyfail = 0;
            for (i = 0; i < n && i < VRT_EV_MAX; i++) if (vrt_ev(i)->kind != 'f' && vrt_ev(i)->failed) anyfail = 1;
        }
        retarget(a, -1, 0, 0);          /* the previous reference is dropped in every outcome */
        if (isset) {
            if (!ov_on) vrt_ctr[c_set_sz[szc]]++;
            VRT_COUNT("op.set");
            if (nm == 0) VRT_COUNT("set.nm-zero");
            /* a wrapper around NULL shows size 0 / data NULL like an empty object: told apart by the blocks that stayed */
            if (got == 0 && d == NULL && !(setmode == 2 && !anyfail && surviving_allocs() > 0)) {
                /* a real buffer was supplied and no allocation failed: the object is its (sole) user now, data() reports it and
                 * release() has to hand it back; "empty" would lose the caller's buffer (also for nm == 0 or sz == 0) */
                if (!anyfail && ext != NULL)
                    failk(nm == 0 ? "array.set.real-buffer-not-adopted.nm-zero" : sz == 0 ? "array.set.real-buffer-not-adopted.zero-size-elements"
                          : "array.set.real-buffer-not-adopted",
                          "set(a%d, %p, nm=%zu, sz=%zu) without a failed allocation left the object empty (size 0, data NULL)", a, (void *)ext, nm, sz);
                if (anyfail) VRT_COUNT("set.failed.left-empty"); else VRT_COUNT("set.empty-without-failure");
            } else {
                if (anyfail)
                    failk("array.set.failed.not-empty", "set(a%d, nm=%zu) with a failed allocation left size %zu data %p", a, nm, got, d);
                if (got != nm || d != (void *)ext)
                    failk("array.set.result", "set(a%d, %p, nm=%zu, sz=%zu): size %zu data %p", a, (void *)ext, nm, sz, got, d);
                created = newbuf();
                B[created].live = 1; B[created].external = 1; B[created].nm = nm; B[created].sz = sz; B[created].base = ext;
                B[created].x = xsel;
                V[a].b = created; V[a].off = 0; V[a].len = nm;
                VRT_COUNT("set.ok");
                VRT_COUNT("buffer.external.created");
                if (nm == 0 && ext != NULL) VRT_COUNT("set.ok.nm-zero.real-buffer");
                if (sz == 0) {
                    VRT_COUNT("set.ok.zero-size-elements");
                    if (nm > ((size_t)1 << 32)) VRT_COUNT("set.ok.zero-size-elements.more-than-2p32");
                }
                if (setmode == 1) {
                    VRT_COUNT("set.second-wrapper-over-same-buffer");
                    if (othergeom) VRT_COUNT("set.second-wrapper-over-same-buffer.different-geometry");
                    if (s == a) VRT_COUNT("set.second-wrapper-over-same-buffer.own-buffer-rewrapped");
                } else if (setmode == 2) VRT_COUNT("set.null-zero");
            }
            if (onto_offset) VRT_COUNT("set.onto-slice-with-offset");
            if (onto_shared) VRT_COUNT("set.onto-shared");
            if (old_degenerate) VRT_COUNT("set.onto-degenerate-shape");
        } else {
            const int toobig = prod > (u128)vrt_alloc_cap;
            const char *cls = prod > (u128)SIZE_MAX ? "unrepresentable" : prod > (u128)(SIZE_MAX - 4096) ? "header-unrepresentable" : "over-cap";
            if (!ov_on) { vrt_ctr[c_alloc_nm[c1]]++; vrt_ctr[c_alloc_sz[szc]]++; }
            VRT_COUNT("op.alloc");
            if (nm == 0) VRT_COUNT("alloc.nm-zero");
            if (toobig) {
                if (prod > (u128)SIZE_MAX) VRT_COUNT("alloc.request.unrepresentable");
                else if (prod > (u128)(SIZE_MAX - 4096)) VRT_COUNT("alloc.request.header-unrepresentable");
                else VRT_COUNT("alloc.request.over-cap");
            }
            if (got == 0 && d == NULL) {
                if (toobig) VRT_COUNT("alloc.failed.left-empty.unsatisfiable");
                else if (anyfail) VRT_COUNT("alloc.failed.left-empty.failpoint");
                else VRT_COUNT("alloc.empty-without-failure");
            } else {
                if (toobig) {
                    char key[96];
                    snprintf(key, sizeof(key), "array.alloc.%s.not-empty", cls);
                    failk(key, "alloc(a%d, nm=%zu, sz=%zu) cannot be satisfied (%s) but left size %zu data %p",
                          a, nm, sz, cls, got, d);
                }
                if (anyfail)
                    failk("array.alloc.failed.not-empty", "alloc(a%d, nm=%zu, sz=%zu) with a failed allocation left size %zu data %p",
                          a, nm, sz, got, d);
                if (got != nm || d == NULL)
                    failk("array.alloc.result", "alloc(a%d, nm=%zu, sz=%zu): size %zu data %p", a, nm, sz, got, d);
                created = newbuf();
                B[created].live = 1; B[created].external = 0; B[created].nm = nm; B[created].sz = sz; B[created].base = d;
                B[created].x = -1;
                V[a].b = created; V[a].off = 0; V[a].len = nm;
                VRT_COUNT("alloc.ok");
                VRT_COUNT("buffer.internal.created");
                if (nm == 0) VRT_COUNT("alloc.ok.nm-zero");
                if (sz == 0) {
                    VRT_COUNT("alloc.ok.zero-size-elements");
                    if (nm > ((size_t)1 << 32)) VRT_COUNT("alloc.ok.zero-size-elements.more-than-2p32");
                }
            }
            if (onto_offset) VRT_COUNT("alloc.onto-slice-with-offset");
            if (onto_shared) VRT_COUNT("alloc.onto-shared");
            if (old_degenerate) VRT_COUNT("alloc.onto-degenerate-shape");
        }
        if (fail && anyfail) VRT_COUNT("failpoint.fired");
        settle(created);
        if (newx && created < 0) xmem_free(xsel);
        if (!isset && created >= 0 && prod > 0) {
            /* the element area must lie inside one live library block made by this call */
            size_t rs = 0;
            int k, mine = 0;
            char *blk = vrt_lib_block(d, &rs);
            if (blk == NULL) failk("array.alloc.data-outside-library-blocks", "data() = %p is in no live library block", d);
            for (k = 0; k < B[created].nblk; k++) if (B[created].blk[k] == (void *)blk) mine = 1;
            if (!mine) failk("array.alloc.data-in-foreign-block", "data() = %p lies in a block this call did not allocate", d);
            if ((u128)((char *)d - blk) + prod > (u128)rs)
                failk("array.alloc.block-too-small", "element area starts %zu bytes into a block of %zu bytes; %zu*%zu bytes needed",
                      (size_t)((char *)d - blk), rs, nm, sz);
            VRT_COUNT("alloc.block-located");
        } else if (!isset && created >= 0 && nm > 0) {
            /* zero-sized elements: every element address is data(); it must lie inside, or one past the end of, a live library
             * block made by this call */
            size_t rs = 0;
            int k, mine = 0;
            char *blk = vrt_lib_block(d, &rs);
            if (blk == NULL) blk = vrt_lib_block((char *)d - 1, &rs);
            if (blk == NULL) failk("array.alloc.data-outside-library-blocks", "data() = %p is neither in nor one past the end of a live library block (nm=%zu sz=0)", d, nm);
            for (k = 0; k < B[created].nblk; k++) if (B[created].blk[k] == (void *)blk) mine = 1;
            if (!mine) failk("array.alloc.data-in-foreign-block", "data() = %p lies in a block this call did not allocate (nm=%zu sz=0)", d, nm);
            VRT_COUNT("alloc.block-located.zero-size-elements");
        }
        break;
    }
    case K_SLICE: {
        size_t beg, end, off, nm;
        int ab, legal, sb, srcb = V[a].b;
        if (s >= nobj || c1 >= S_NCLS || c2 >= S_NCLS) return 0;
        if (!boundvalue(c1, &V[a], salt, &beg) || !boundvalue(c2, &V[a], salt * 7 + 3, &end)) return 0;
        sb = V[s].b;
        vrt_state(viewclass(a));
        lastop = a == s ? "slice-in-place" : "slice";
        VRT_OP4("array.slice", "a%ld [%lu,%lu) -> a%ld", a, beg, end, s);
        vrt_ctr[c_beg[c1]]++; vrt_ctr[c_end[c2]]++;
        VRT_COUNT("op.slice");
        vrt_ev_begin();
        ab = VRT_ABORTS(cstl_array_slice(A[a], beg, end, A[s]));
        if (srcb < 0) {
            /* the statement is silent: abort or "empty view" are both fine */
            if (ab) VRT_COUNT("slice.empty-source.aborted");
            else {
                VRT_COUNT("slice.empty-source.returned");
                retarget(s, -1, 0, 0);
            }
        } else {
            off = V[a].off; nm = B[srcb].nm;
            legal = beg <= end && (u128)off + end <= (u128)nm;
            if (legal) {
                if (ab) failk(end > V[a].len ? "array.slice.abort-on-legal.beyond-view-inside-buffer" : "array.slice.abort-on-legal.within-view",
                              "slice(a%d, %zu, %zu, a%d) aborted: beg <= end and off %zu + end <= nm %zu (view size %zu)", a, beg, end, s, off, nm, V[a].len);
                VRT_COUNT("slice.legal");
                if (a == s) VRT_COUNT("slice.legal.in-place"); else VRT_COUNT("slice.legal.into-other");
                if (end > V[a].len) VRT_COUNT("slice.legal.beyond-view-inside-buffer");
                if (beg == end) VRT_COUNT("slice.legal.empty-range");
                if (off > 0) VRT_COUNT("slice.legal.source-has-offset");
                if (a != s && sb >= 0 && sb != srcb) {
                    if (refs(sb) == 1) VRT_COUNT("slice.legal.dest-was-last-referrer"); else VRT_COUNT("slice.legal.dest-held-other-buffer");
                }
                if (a != s && sb == srcb) VRT_COUNT("slice.legal.dest-same-buffer");
                if (a != s && sb >= 0 && sb != srcb && B[sb].external && B[srcb].external && B[sb].base == B[srcb].base) {
                    /* the target is a separate wrapper with the same data pointer: it must still be re-pointed */
                    VRT_COUNT("slice.into-object-wrapping-same-base");
                    if (B[sb].base == NULL) VRT_COUNT("slice.into-object-wrapping-same-base.both-null");
                    else if (B[sb].nm != B[srcb].nm || B[sb].sz != B[srcb].sz) VRT_COUNT("slice.into-object-wrapping-same-base.different-geometry");
                }
                if (a != s && sb < 0 && B[srcb].external && B[srcb].base == NULL) VRT_COUNT("slice.null-wrapper-into-empty-object");
                if (B[srcb].external && B[srcb].base == NULL) VRT_COUNT("slice.legal.of-null-wrapper");
                if (B[srcb].nm == 0 && B[srcb].base != NULL) {
                    /* [0, 0) is the only legal range of a buffer without elements */
                    if (B[srcb].external) VRT_COUNT("slice.legal.nm-zero.real-external-buffer"); else VRT_COUNT("slice.legal.nm-zero.library-buffer");
                    if (a == s) VRT_COUNT("slice.legal.nm-zero.in-place");
                }
                if (B[srcb].sz == 0 && B[srcb].nm > 0) {
                    VRT_COUNT("slice.legal.zero-size-elements");
                    if (a == s) VRT_COUNT("slice.legal.zero-size-elements.in-place");
                    if (off + beg > 0 && end > beg) VRT_COUNT("slice.legal.zero-size-elements.offset-result");
                    if (off > 0 && end > V[a].len) VRT_COUNT("slice.legal.zero-size-elements.from-offset-view-beyond-view");
                }
                retarget(s, srcb, off + beg, end - beg);
            } else {
                const char *why = end < beg ? "end-lt-beg" : (u128)off + end > (u128)SIZE_MAX ? "past-buffer-wrapping" : "past-buffer";
                VRT_COUNT("abort.expected.slice");
                if (!ab) {
                    char key[96];
                    snprintf(key, sizeof(key), "array.slice.no-abort.%s", why);
                    failk(key, "slice(a%d, %zu, %zu, a%d) returned; view off %zu len %zu of a %zu element buffer (%s)",
                          a, beg, end, s, off, V[a].len, nm, a == s ? "in place" : "other");
                }
                VRT_COUNT("abort.observed.slice");
                if (end < beg) VRT_COUNT("slice.abort.end-lt-beg");
                else if ((u128)off + end > (u128)SIZE_MAX) VRT_COUNT("slice.abort.past-buffer-wrapping");
                else VRT_COUNT("slice.abort.past-buffer");
                if (a == s) VRT_COUNT("slice.abort.in-place"); else VRT_COUNT("slice.abort.into-other");
                if (B[srcb].nm == 0 && B[srcb].base != NULL) VRT_COUNT("slice.abort.nm-zero.real-buffer");
                if (B[srcb].sz == 0 && B[srcb].nm > 0) {
                    if (end < beg) VRT_COUNT("slice.abort.zero-size-elements.end-lt-beg"); else VRT_COUNT("slice.abort.zero-size-elements.past-buffer");
                    if (off > 0 && end >= beg) VRT_COUNT("slice.abort.zero-size-elements.past-buffer.from-offset-view");
                }
            }
        }
        settle(-1);
        break;
    }
    case K_UNSLICE: {
        /* a = source, s = destination */
        int ab, srcb = V[a].b, sb;
        if (s >= nobj) return 0;
        sb = V[s].b;
        vrt_state(viewclass(a));
        lastop = a == s ? "unslice-in-place" : "unslice";
        VRT_OP2("array.unslice", "a%ld -> a%ld", a, s);
        VRT_COUNT("op.unslice");
        vrt_ev_begin();
        ab = VRT_ABORTS(cstl_array_unslice(A[a], A[s]));
        if (srcb < 0) {
            if (ab) VRT_COUNT("unslice.empty-source.aborted");
            else { VRT_COUNT("unslice.empty-source.returned"); retarget(s, -1, 0, 0); }
        } else {
            if (ab) failk("array.unslice.abort", "unslice(a%d, a%d) aborted on a non-empty source", a, s);
            if (a == s) VRT_COUNT("unslice.in-place"); else VRT_COUNT("unslice.into-other");
            if (V[a].off > 0) VRT_COUNT("unslice.source-has-offset");
            if (sb >= 0 && V[s].off > 0) VRT_COUNT("unslice.dest-had-offset");
            if (a != s && sb >= 0 && sb != srcb && refs(sb) == 1) VRT_COUNT("unslice.dest-was-last-referrer");
            if (a != s && sb >= 0 && sb != srcb && B[sb].external && B[srcb].external && B[sb].base == B[srcb].base)
                VRT_COUNT("unslice.into-object-wrapping-same-base");
            if (a != s && sb < 0 && B[srcb].external && B[srcb].base == NULL) VRT_COUNT("unslice.null-wrapper-into-empty-object");
            if (B[srcb].nm == 0 && B[srcb].base != NULL) VRT_COUNT("unslice.nm-zero.real-buffer");
            if (B[srcb].sz == 0 && B[srcb].nm > 0) {
                VRT_COUNT("unslice.zero-size-elements");
                if (V[a].off > 0) VRT_COUNT("unslice.zero-size-elements.source-has-offset");
            }
            retarget(s, srcb, 0, B[srcb].nm);
        }
        settle(-1);
        break;
    }
    case K_RESET: {
        vrt_state(bufclass(a));
        lastop = "reset";
        VRT_OP1("array.reset", "a%ld", a);
        VRT_COUNT("op.reset");
        if (V[a].b < 0) VRT_COUNT("reset.empty");
        else if (refs(V[a].b) == 1) VRT_COUNT("reset.last-referrer"); else VRT_COUNT("reset.shared");
        vrt_ev_begin();
        cstl_array_reset(A[a]);
        retarget(a, -1, 0, 0);
        settle(-1);
        break;
    }
    case K_RELEASE: {
        void *out = SENT;
        const int b = V[a].b, withnull = c1 & 1;
        const int null_sole = b >= 0 && B[b].external && B[b].x < 0 && refs(b) == 1;
        const int sole_ext = b >= 0 && B[b].external && refs(b) == 1 && !null_sole;
        const char *why = b < 0 ? "empty" : !B[b].external ? "internal" : "shared";
        vrt_state(bufclass(a));
        lastop = "release";
        VRT_OP2("array.release", "a%ld out=%ld", a, !withnull);
        VRT_COUNT("op.release");
        if (withnull) VRT_COUNT("release.null-out-pointer");
        vrt_ev_begin();
        cstl_array_release(A[a], withnull ? NULL : &out);
        if (null_sole) {
            /* sole user of a wrapper around NULL: the buffer handed back is NULL, which is also the refusal value;
             * both readings are accepted and told apart by whether the wrapper's blocks were let go */
            if (!withnull && out != NULL)
                failk("array.release.wrong-pointer", "release(a%d) returned %p, the buffer given to set was NULL", a, out);
            if (any_nonnull_free()) {
                if (cstl_array_size(A[a]) != 0 || cstl_array_data(A[a]) != NULL)
                    failk("array.release.object-not-empty", "a%d reports size %zu data %p after letting its NULL buffer go",
                          a, cstl_array_size(A[a]), cstl_array_data(A[a]));
                VRT_COUNT("release.null-wrapper.let-go");
                retarget(a, -1, 0, 0);
            } else {
                VRT_COUNT("release.null-wrapper.kept");
                audit = 1;
            }
        } else if (sole_ext) {
            if (!withnull) {
                if (out == NULL) failk("array.release.sole-user-refused", "release(a%d) reported NULL although a%d is the only user of an external buffer", a, a);
                if (out != (void *)B[b].base)
                    failk("array.release.wrong-pointer", "release(a%d) returned %p, the buffer given to set was %p (off %zu)", a, out, (void *)B[b].base, V[a].off);
            }
            if (cstl_array_size(A[a]) != 0 || cstl_array_data(A[a]) != NULL)
                failk("array.release.object-not-empty", "a%d still reports size %zu data %p after handing its buffer back",
                      a, cstl_array_size(A[a]), cstl_array_data(A[a]));
            if (V[a].off > 0) VRT_COUNT("release.returned-buffer.from-offset-view");
            VRT_COUNT("release.returned-buffer");
            if (B[b].nm == 0) VRT_COUNT("release.returned-buffer.nm-zero");
            if (B[b].sz == 0) VRT_COUNT("release.returned-buffer.zero-size-elements");
            retarget(a, -1, 0, 0);
        } else {
            if (!withnull && out != NULL) {
                char key[96];
                snprintf(key, sizeof(key), "array.release.returned-while-%s", why);
                failk(key, "release(a%d) returned %p; object is %s", a, out, bufclass(a));
            }
            if (b < 0) VRT_COUNT("release.null.empty-object");
            else if (B[b].external) {
                VRT_COUNT("release.null.external-shared");
                if (B[b].nm == 0 && B[b].base != NULL) VRT_COUNT("release.null.external-shared.nm-zero.real-buffer");
                if (B[b].sz == 0) VRT_COUNT("release.null.external-shared.zero-size-elements");
            }
            else if (refs(b) > 1) VRT_COUNT("release.null.internal-shared");
            else VRT_COUNT("release.null.internal-sole");
            /* nothing may have changed: no allocator traffic (settle) and the full audit below */
            audit = 1;
        }
        settle(-1);
        break;
    }
    case K_AT: {
        size_t i;
        void *p;
        int ab;
        if (c1 >= I_NCLS || !indexvalue(c1, &V[a], salt, &i)) return 0;
        vrt_state(viewclass(a));
        VRT_OP3("array.at", "a%ld [%lu] const=%ld", a, i, c2 & 1);
        vrt_ctr[c_idx[c1]]++;
        if (c2 & 1) VRT_COUNT("op.at_const"); else VRT_COUNT("op.at");
        vrt_ev_begin();
        ab = call_at(a, i, c2 & 1, &p);
        if (V[a].b >= 0 && i < V[a].len) {
            const struct buf *b = &B[V[a].b];
            if (ab) failk("array.at.abort-in-range", "at(a%d, %zu) aborted, size is %zu", a, i, V[a].len);
            if (p != (void *)(b->base + (V[a].off + i) * b->sz))
                failk("array.at.address", "at(a%d, %zu) = %p, expected base %p + (%zu+%zu)*%zu", a, i, p, (void *)b->base, V[a].off, i, b->sz);
            memset(p, 0x2a, b->sz);
            VRT_COUNT("at.in-range");
            if (b->sz == 0) { VRT_COUNT("at.in-range.zero-size-elements"); if (V[a].off + i > 0) VRT_COUNT("at.in-range.zero-size-elements.offset-plus-index-nonzero"); }
        } else {
            VRT_COUNT("abort.expected.at");
            if (!ab) {
                char key[96];
                snprintf(key, sizeof(key), "array.at.no-abort.%s", iname[c1]);
                failk(key, "at(a%d, %zu) returned %p instead of aborting (size %zu, %s)", a, i, p,
                      V[a].b < 0 ? (size_t)0 : V[a].len, viewclass(a));
            }
            VRT_COUNT("abort.observed.at");
            VRT_COUNT("at.out-of-range");
            if (V[a].b >= 0 && B[V[a].b].sz == 0 && B[V[a].b].nm > 0) VRT_COUNT("at.out-of-range.zero-size-elements");
            if (V[a].b >= 0 && B[V[a].b].nm == 0 && B[V[a].b].base != NULL) VRT_COUNT("at.out-of-range.nm-zero.real-buffer");
        }
        settle(-1);
        return 1;
    }
    case K_DATA: {
        const void *d;
        vrt_state(viewclass(a));
        VRT_OP1("array.data", "a%ld", a);
        VRT_COUNT("op.data");
        vrt_ev_begin();
        d = (c1 & 1) ? cstl_array_data_const(A[a]) : cstl_array_data(A[a]);
        if (V[a].b < 0) { if (d != NULL) failk("array.data.empty-not-null", "a%d is empty but data() = %p", a, d); }
        else if (d != (void *)B[V[a].b].base) failk("array.data", "a%d: data() = %p, element area is %p", a, d, (void *)B[V[a].b].base);
        settle(-1);
        return 1;
    }
    case K_SIZE: {
        size_t got;
        vrt_state(viewclass(a));
        VRT_OP1("array.size", "a%ld", a);
        VRT_COUNT("op.size");
        got = cstl_array_size(A[a]);
        if (got != (V[a].b < 0 ? 0 : V[a].len)) failk("array.size", "a%d: size %zu, model %zu", a, got, V[a].b < 0 ? (size_t)0 : V[a].len);
        return 1;
    }
    default:
        return 0;
    }
    if (audit) audit_all();
    return 1;
}

static uint64_t st_sig(void)
{
    int canon[MAXBUF], xcanon[MAXX], nc = 0, nx = 0, o, b;
    uint64_t h = 0xa77a0 + nobj;
    for (b = 0; b < MAXBUF; b++) canon[b] = -1;
    for (b = 0; b < MAXX; b++) xcanon[b] = -1;
    for (o = 0; o < nobj; o++) {
        if (V[o].b < 0) { h = vrt_mix(h, 1); continue; }
        b = V[o].b;
        if (canon[b] < 0) {
            canon[b] = nc++;
            h = vrt_mix(h, 0x100 + B[b].external);
            if (B[b].external) {
                /* which harness block it views (canonical), or NULL */
                if (B[b].x < 0) h = vrt_mix(h, 0x7000);
                else {
                    if (xcanon[B[b].x] < 0) xcanon[B[b].x] = nx++;
                    h = vrt_mix(h, 0x7001 + xcanon[B[b].x]);
                    h = vrt_mix(h, X[B[b].x].bytes);
                }
            }
            h = vrt_mix(h, B[b].nm);
            h = vrt_mix(h, B[b].sz);
        }
        h = vrt_mix(h, 2 + canon[b]);
        h = vrt_mix(h, V[o].off);
        h = vrt_mix(h, V[o].len);
    }
    return h;
}
static int st_nontrivial(void)
{
    int o, n = 0, partial = 0;
    for (o = 0; o < nobj; o++) if (V[o].b >= 0) {
        n++;
        if (V[o].off > 0 || V[o].len < B[V[o].b].nm) partial = 1;
    }
    return n >= 2 || partial;
}

static struct vex model = { st_create, st_destroy, st_apply, st_sig, st_nontrivial, 0, NULL };

/* ---- closure scopes ---- */
struct cscope {
    int nobj, maxbuf;
    unsigned szmask;            /* element size classes */
    unsigned anm, snm;          /* alloc / set element-count classes */
    unsigned begmask, endmask;  /* slice bound classes */
    int failpoints;             /* also alloc/set with failpoint 1 and 2 (for one count class) */
    uint64_t max_states;
    int max_depth;
    unsigned wrapnm;            /* count classes for a second, separate set() over the block another (or the same) object views */
    int nullset;                /* also set(a, NULL, 0, sz) */
};
#define M(x) (1u << (x))
#define HUGE_NM (M(N_2P63) | M(N_MAX) | M(N_MAXDIV1) | M(N_MAXDIV) | M(N_HDRFIT1) | M(N_CAP1))
#define ALL_BOUNDS ((1u << S_NCLS) - 1 - M(S_IN) - M(S_HALF))
#define BEG_CORE (M(S_0) | M(S_1) | M(S_LEN) | M(S_MAXM1) | M(S_MAXOFF1))
static const struct cscope quick_scopes[] = {
    /* two objects, every end class against the core begin classes, unsatisfiable allocs, failpoints: to closure */
    { 2, 2, M(2), M(N_0) | M(N_3) | HUGE_NM, M(N_3), BEG_CORE, ALL_BOUNDS, 1, 60000, 12, M(N_1), 0 },
    /* three objects, two buffers of two elements: sharing / lifetime interplay */
    { 3, 2, M(0), M(N_2), M(N_2), M(S_0) | M(S_1), M(S_1) | M(S_REM) | M(S_REM1), 0, 60000, 12, M(N_MID), 1 },
    /* four objects, three buffers, short histories (bounded-exhaustive) */
    { 4, 3, M(1), M(N_2) | M(N_MAXDIV1), M(N_2), M(S_0) | M(S_1), M(S_2) | M(S_REM1) | M(S_WRAPREM), 0, 60000, 4, M(N_MID), 1 },
    /* degenerate shapes: element size 0 next to size 2, counts 0 and 3, library and real external buffers, second wrappers, NULL */
    { 2, 2, M(Z_0) | M(1), M(N_0) | M(N_3), M(N_0) | M(N_3), M(S_0) | M(S_1) | M(S_LEN),
      M(S_0) | M(S_1) | M(S_2) | M(S_LEN) | M(S_REM) | M(S_REM1) | M(S_MAXOFF1) | M(S_WRAPREM), 0, 60000, 12, M(N_1), 1 },
};
static const struct cscope thorough_scopes[] = {
    { 2, 2, M(0) | M(4), M(N_0) | M(N_1) | M(N_3) | HUGE_NM | M(N_MAXM1) | M(N_HDRFIT) | M(N_2P32), M(N_0) | M(N_3),
      ALL_BOUNDS, ALL_BOUNDS, 1, 400000, 14, 0, 0 },
    { 3, 2, M(2), M(N_0) | M(N_2) | M(N_2P63) | M(N_MAX), M(N_2),
      M(S_0) | M(S_1) | M(S_MAXM1) | M(S_MAXOFF1),
      M(S_0) | M(S_1) | M(S_2) | M(S_LEN1) | M(S_REM) | M(S_REM1) | M(S_MAXOFF1) | M(S_MAX) | M(S_WRAPREM), 1, 400000, 12, M(N_1) | M(N_MID), 1 },
    { 3, 3, M(3), M(N_1) | M(N_3) | M(N_MAX), M(N_3),
      M(S_0) | M(S_1), M(S_1) | M(S_LEN) | M(S_REM) | M(S_REM1) | M(S_MAXOFF1), 0, 400000, 12, M(N_MID), 0 },
    { 4, 3, M(1), M(N_2) | M(N_MAXDIV1), M(N_2), M(S_0) | M(S_1) | M(S_MAXM1),
      M(S_2) | M(S_REM) | M(S_REM1) | M(S_WRAPREM), 1, 400000, 5, M(N_MID), 1 },
    { 4, 2, M(4), M(N_2), M(N_2), M(S_0) | M(S_1), M(S_1) | M(S_REM) | M(S_REM1), 0, 400000, 12, 0, 1 },
    /* separate wrappers over one block with two element sizes (different geometry), NULL wrappers */
    { 2, 2, M(0) | M(2), M(N_3), M(N_0) | M(N_3), M(S_0) | M(S_1),
      M(S_0) | M(S_1) | M(S_2) | M(S_LEN) | M(S_REM) | M(S_REM1), 0, 400000, 12, M(N_1) | M(N_MID), 1 },
    /* degenerate shapes (see quick_scopes); three objects sharing buffers of zero-sized elements; SIZE_MAX / 2^63 zero-sized elements */
    { 2, 2, M(Z_0) | M(1), M(N_0) | M(N_3), M(N_0) | M(N_3), M(S_0) | M(S_1) | M(S_LEN),
      M(S_0) | M(S_1) | M(S_2) | M(S_LEN) | M(S_REM) | M(S_REM1) | M(S_MAXOFF1) | M(S_WRAPREM), 1, 400000, 12, M(N_1), 1 },
    { 3, 2, M(Z_0), M(N_0) | M(N_2), M(N_0) | M(N_2), M(S_0) | M(S_1), M(S_0) | M(S_1) | M(S_REM) | M(S_REM1), 0, 400000, 12, M(N_1), 1 },
    { 2, 2, M(Z_0), M(N_3) | M(N_MAX) | M(N_2P63), M(N_MAX), BEG_CORE, ALL_BOUNDS, 0, 400000, 3, 0, 0 },
};
static const struct cscope *scopes;
static int nscopes;

#define MAXALPHA 4096
static int build_alphabet(const struct cscope *sc, uint32_t *al)
{
    int n = 0, a, s, c, c2, z, f;
    for (a = 0; a < sc->nobj; a++) {
        for (z = 0; z < NSZ; z++) if (sc->szmask >> z & 1) {
            for (c = 0; c < N_NCLS; c++) if (sc->anm >> c & 1) {
                al[n++] = OP(K_ALLOC, a, 0, c, 0, z, 0, 0);
                if (sc->failpoints && (c == N_3 || c == N_2)) for (f = 1; f <= 2; f++) al[n++] = OP(K_ALLOC, a, 0, c, 0, z, f, 0);
            }
            for (c = 0; c < N_NCLS; c++) if (sc->snm >> c & 1) {
                al[n++] = OP(K_SET, a, 0, c, 0, z, 0, 0);
                if (sc->failpoints && (c == N_3 || c == N_2)) for (f = 1; f <= 2; f++) al[n++] = OP(K_SET, a, 0, c, 0, z, f, 0);
            }
            for (c = 0; c <= N_MID; c++) if (sc->wrapnm >> c & 1)
                for (s = 0; s < sc->nobj; s++) al[n++] = OP(K_SET, a, s, c, 1, z, 0, 0);
            if (sc->nullset) al[n++] = OP(K_SET, a, 0, N_0, 2, z, 0, 0);
        }
        for (s = 0; s < sc->nobj; s++) {
            for (c = 0; c < S_NCLS; c++) if (sc->begmask >> c & 1)
                for (c2 = 0; c2 < S_NCLS; c2++) if (sc->endmask >> c2 & 1)
                    al[n++] = OP(K_SLICE, a, s, c, c2, 0, 0, 0);
            al[n++] = OP(K_UNSLICE, a, s, 0, 0, 0, 0, 0);
        }
        al[n++] = OP(K_RESET, a, 0, 0, 0, 0, 0, 0);
        al[n++] = OP(K_RELEASE, a, 0, 0, 0, 0, 0, 0);
        al[n++] = OP(K_RELEASE, a, 0, 1, 0, 0, 0, 0);
        if (n > MAXALPHA - 600) vrt_fail("harness.array.alphabet-too-large", "%d ops", n);
    }
    return n;
}

static void run_closure(int ci)
{
    const struct cscope *sc = &scopes[ci];
    static uint32_t al[MAXALPHA];
    int n = build_alphabet(sc, al);
    struct vex_result r;
    vrt_case_note("closure objects=%d maxbuffers=%d alphabet=%d maxdepth=%d szmask=0x%x", sc->nobj, sc->maxbuf, n, sc->max_depth, sc->szmask);
    vex_closure(&model, SCOPE(sc->nobj, sc->maxbuf), al, n, sc->max_states, sc->max_depth, &r);
    VRT_COUNT_N("closure.states", r.states);
    VRT_COUNT_N("closure.transitions", r.transitions);
    VRT_COUNT_N("closure.replayed-ops", r.applied);
    VRT_MAX("max.closure.depth", r.maxdepth);
    if (r.closed) VRT_COUNT("closure.scopes-closed"); else VRT_COUNT("closure.scopes-capped");
    {
        char nm[64];
        snprintf(nm, sizeof(nm), "closure.scope%d.objects%d.states", ci, sc->nobj);
        vrt_count_dyn(nm, r.states);
        snprintf(nm, sizeof(nm), "closure.scope%d.objects%d.transitions", ci, sc->nobj);
        vrt_count_dyn(nm, r.transitions);
        snprintf(nm, sizeof(nm), "closure.scope%d.objects%d.closed", ci, sc->nobj);
        vrt_count_dyn(nm, (uint64_t)r.closed);
    }
}

/* ---- random histories ---- */
static int pick_bound(vrt_rng *g)
{
    /* boundary heavy */
    static const unsigned char w[S_NCLS] = { 6, 5, 3, 14, 4, 8, 4, 4, 8, 6, 3, 3, 3, 5, 3, 2, 4, 4, 3 };
    unsigned tot = 0, r;
    int i;
    for (i = 0; i < S_NCLS; i++) tot += w[i];
    r = vrt_below(g, tot);
    for (i = 0; i < S_NCLS; i++) { if (r < w[i]) return i; r -= w[i]; }
    return S_0;
}
static void run_random(uint64_t idx)
{
    vrt_rng g;
    int nops, i, no, mb, phase = 0;
    vrt_rng_seed(&g, vrt_seed, 0xC14000 + idx);
    no = idx % 8 == 0 ? 2 + (int)vrt_below(&g, 2) : 4;
    mb = 1 + (int)vrt_below(&g, 3);
    if (mb > no) mb = no;
    nops = vrt_thorough ? 1500 : 1000;
    vrt_case_note("random objects=%d maxbuffers=%d ops=%d", no, mb, nops);
    st_create(SCOPE(no, mb));
    for (i = 0; i < nops; i++) {
        uint32_t op;
        int a = (int)vrt_below(&g, no), s;
        const unsigned salt = vrt_below(&g, 256);
        /* element size class: 1 in 8 the degenerate size 0 */
        const int z = vrt_chance(&g, 1, 8) ? Z_0 : (int)vrt_below(&g, 5);
        unsigned r = vrt_below(&g, 100);
        if (i % 128 == 0) phase = (int)vrt_below(&g, 3);       /* 0 balanced, 1 slice heavy, 2 churn */
        if (phase == 1 && r < 30) r = 30 + vrt_below(&g, 40);
        if (phase == 2 && r >= 30 && r < 60) r = vrt_below(&g, 30);
        if (r >= 26 && V[a].b < 0 && !vrt_chance(&g, 1, 8)) {
            /* slice/unslice/release/queries: mostly from an object that refers to something */
            int k;
            for (k = 1; k < no; k++) if (V[(a + k) % no].b >= 0) { a = (a + k) % no; break; }
        }
        s = vrt_chance(&g, 1, 3) ? a : (int)vrt_below(&g, no);
        if (r < 14) {
            int c, f = vrt_chance(&g, 1, 6) ? 1 + (int)vrt_below(&g, 2) : 0;
            unsigned q = vrt_below(&g, 100);
            if (q < 50) c = N_SMALL; else if (q < 56) c = N_0; else if (q < 62) c = N_1; else if (q < 68) c = N_3;
            else if (q < 71) c = N_MID; else c = N_2P63 + (int)vrt_below(&g, N_NCLS - N_2P63);
            /* zero-sized elements: no SIZE_MAX / sz classes, every count can be had */
            if (z == Z_0 && c >= N_MAXDIV1 && c <= N_CAP1) c = (c & 1) ? N_MAX : N_2P32;
            op = OP(K_ALLOC, a, 0, c, 0, z, f, salt);
        } else if (r < 26) {
            int c, f = vrt_chance(&g, 1, 6) ? 1 + (int)vrt_below(&g, 2) : 0;
            unsigned q = vrt_below(&g, 100);
            unsigned q2 = vrt_below(&g, 12);
            if (q < 70) c = N_SMALL; else if (q < 78) c = N_0; else if (q < 86) c = N_1; else if (q < 96) c = N_3; else c = N_MID;
            if (z == Z_0 && q < 20) c = q < 8 ? N_MAX : q < 14 ? N_2P63 : N_2P32;      /* a block of 0 bytes holds any number of them */
            if (q2 < 3) {
                /* a second, separate wrapper over a block some object already wraps (any geometry that fits) */
                int k, src = (int)vrt_below(&g, no);
                for (k = 0; k < no; k++) {
                    const int o = (src + k) % no;
                    if (V[o].b >= 0 && B[V[o].b].external && B[V[o].b].x >= 0) { src = o; break; }
                }
                if (vrt_chance(&g, 1, 2)) c = N_MID;
                op = OP(K_SET, a, src, c, 1, z, f, salt);
            } else if (q2 == 3) op = OP(K_SET, a, 0, N_0, 2, z, f, salt);
            else op = OP(K_SET, a, 0, c, 0, z, f, salt);
        } else if (r < 62) {
            int cb = pick_bound(&g), ce = pick_bound(&g);
            if (vrt_chance(&g, 1, 2)) {
                /* keep a good share legal and non-empty */
                static const unsigned char lend[6] = { S_IN, S_LEN, S_LEN, S_REM, S_REM, S_REMM1 };
                cb = vrt_chance(&g, 1, 2) ? S_0 : vrt_chance(&g, 1, 2) ? S_1 : S_IN;
                ce = lend[vrt_below(&g, 6)];
            }
            op = OP(K_SLICE, a, s, cb, ce, 0, 0, salt);
        } else if (r < 70) op = OP(K_UNSLICE, a, s, 0, 0, 0, 0, 0);
        else if (r < 77) op = OP(K_RESET, a, 0, 0, 0, 0, 0, 0);
        else if (r < 87) op = OP(K_RELEASE, a, 0, vrt_below(&g, 4) == 0, 0, 0, 0, 0);
        else if (r < 96) op = OP(K_AT, a, 0, vrt_below(&g, I_NCLS), vrt_below(&g, 2), 0, 0, salt);
        else if (r < 98) op = OP(K_DATA, a, 0, vrt_below(&g, 2), 0, 0, 0, 0);
        else op = OP(K_SIZE, a, 0, 0, 0, 0, 0, 0);
        if (st_apply(op, 1) && OP_KIND(op) < K_AT && st_nontrivial()) vrt_sig(0, st_sig());
    }
    audit_all();
    st_destroy();
    VRT_COUNT("random.histories");
}


/* ---- re-allocation of an occupied object with related shapes, small and large ----
 *
 * a0 is allocated / set again and again with shapes that are related to the one it has: the same byte count with another
 * element size, count and size exchanged, a few elements fewer / more, the very same (nm, sz) again; at byte counts of a few
 * hundred bytes and at 64 KiB, 128 KiB, 256 KiB and 1 MiB; as the sole owner or while a1 / a2 co-own the previous buffers
 * through offset views; library buffers, external buffers (a fresh block each time, or a second wrapper of another geometry
 * over the block a0 already wraps) or both in turns.  Every call goes through st_apply(): the reference model, the lifetime
 * accounting and the full audit (new stride at the first / middle / last indices, at(size) aborts, old views keep their old
 * buffer) apply unchanged; rs_probe() adds the slice bounds by the new count and unslice.
 */
static const unsigned rs_elem[] = { 1, 2, 3, 4, 5, 6, 8, 12, 16, 24, 30, 48, 64, 120, 240, 256, 1024, 4096, 65536 };
static int rs_T;

static size_t rs_pick_elem(vrt_rng *g, size_t T, size_t not1, size_t not2)
{
    size_t cand[32];
    unsigned n = 0, i;
    for (i = 0; i < sizeof(rs_elem) / sizeof(rs_elem[0]); i++) {
        const size_t e = rs_elem[i];
        if (e <= T && T % e == 0 && e != not1 && e != not2) cand[n++] = e;
    }
    VRT_CHECK(n > 0, "harness.array.reshape-no-element-size", "no element size divides %zu", T);
    return cand[vrt_below(g, n)];
}
static void rs_must(uint32_t op)
{
    if (!st_apply(op, 1)) vrt_fail("harness.array.reshape-op-not-applicable", "op 0x%x (kind %d) was not applicable", (unsigned)op, (int)OP_KIND(op));
}
/* slice bounds by the (new) element count, unslice; a3 is the probe object and is empty again afterwards */
static void rs_probe(void)
{
    if (V[0].b < 0) { VRT_COUNT("reshape.left-empty"); return; }
    if (V[0].off == 0 && V[0].len == B[V[0].b].nm) {
        rs_must(OP(K_SLICE, 0, 3, S_0, S_REM1, 0, 0, 0));          /* [0, nm+1): abort */
        rs_must(OP(K_SLICE, 0, 3, S_REM, S_REM1, 0, 0, 0));        /* [nm, nm+1): abort */
        rs_must(OP(K_SLICE, 0, 3, S_REMM1, S_REM, 0, 0, 0));       /* the last element */
        rs_must(OP(K_SLICE, 3, 3, S_0, S_2, 0, 0, 0));             /* from there [0, 2), in place: abort */
        rs_must(OP(K_SLICE, 3, 3, S_1, S_1, 0, 0, 0));             /* [1, 1): the empty view at the very end */
        rs_must(OP(K_UNSLICE, 3, 3, 0, 0, 0, 0, 0));               /* in place: everything again */
        rs_must(OP(K_SLICE, 0, 3, S_HALF, S_REM, 0, 0, 0));        /* upper half */
        rs_must(OP(K_SLICE, 3, 3, S_0, S_LEN1, 0, 0, 0));          /* one more than there is: abort */
        VRT_COUNT("reshape.probed.full-view");
    } else {
        rs_must(OP(K_SLICE, 0, 3, S_0, S_REM1, 0, 0, 0));          /* one past the buffer, from an offset view: abort */
        rs_must(OP(K_SLICE, 0, 3, S_0, S_REM, 0, 0, 0));           /* up to the end of the buffer */
        rs_must(OP(K_UNSLICE, 0, 3, 0, 0, 0, 0, 0));
        VRT_COUNT("reshape.probed.offset-view");
    }
    rs_must(OP(K_RESET, 3, 0, 0, 0, 0, 0, 0));
}
/* give a0 the shape (nm, sz); how: 0 alloc, 1 set on a fresh block, 2 set as a second wrapper over the block a0 wraps */
static void rs_shape(int how, size_t nm, size_t sz)
{
    const int old = V[0].b;
    const int shared = old >= 0 && refs(old) > 1, offs = old >= 0 && V[0].off > 0;
    const size_t obytes = old >= 0 ? B[old].nm * B[old].sz : 0, onm = old >= 0 ? B[old].nm : 0, osz = old >= 0 ? B[old].sz : 0;
    const int oext = old >= 0 && B[old].external;
    if (how == 2 && !(old >= 0 && B[old].external && B[old].x >= 0)) how = 1;
    ov_on = 1; ov_nm = nm; ov_sz = sz;
    rs_must(how == 0 ? OP(K_ALLOC, 0, 0, N_MID, 0, 0, 0, 0) : OP(K_SET, 0, 0, N_MID, how == 2 ? 1 : 0, 0, 0, 0));
    ov_on = 0;
    if (V[0].b >= 0) {
        const size_t bytes = nm * sz;
        vrt_ctr[c_rs[how != 0][rs_T]]++;
        if (old >= 0) {
            if (shared) VRT_COUNT("reshape.onto-coowned"); else VRT_COUNT("reshape.onto-sole-owner");
            if (offs) VRT_COUNT("reshape.onto-offset-view");
            if (oext != (how != 0)) VRT_COUNT("reshape.library-external-switch");
            if (bytes == obytes && nm == onm && sz == osz) {
                VRT_COUNT("reshape.same-shape-again");
                if (bytes >= ((size_t)1 << 17) && !shared) VRT_COUNT("reshape.same-shape-again.sole-owner.128k-or-more");
            } else if (bytes == obytes) {
                VRT_COUNT("reshape.same-bytes.other-elem-size");
                if (nm == osz && sz == onm) VRT_COUNT("reshape.same-bytes.count-and-size-exchanged");
                if (bytes >= ((size_t)1 << 17)) {
                    if (shared) VRT_COUNT("reshape.same-bytes.other-elem-size.coowned.128k-or-more");
                    else VRT_COUNT("reshape.same-bytes.other-elem-size.sole-owner.128k-or-more");
                }
                if (how == 2) VRT_COUNT("reshape.same-bytes.rewrapped-own-block");
            } else if (bytes < obytes) VRT_COUNT("reshape.slightly-smaller");
            else VRT_COUNT("reshape.slightly-larger");
        }
        if (st_nontrivial()) vrt_sig(0, st_sig());
    }
    rs_probe();
}
static void run_reshape(uint64_t k)
{
    vrt_rng g;
    const int Ti = (int)(k % RS_NB), kind = (int)(k / RS_NB % 3), co = (int)(k / (RS_NB * 3) % 2);
    const size_t T = rs_bytes[Ti];
    size_t s1, s2, s3, n, s, d;
    int step = 0;
#define HOW (kind == 0 ? 0 : kind == 1 ? 1 : (step & 1))
    /* before the next re-allocation: a co-owner takes an offset view of what a0 has now; a0 itself is an offset view every other time */
#define PRE() do { \
        if (co && V[0].b >= 0) rs_must(OP(K_SLICE, 0, 1 + (step & 1), (step & 2) ? S_1 : S_HALF, S_REM, 0, 0, 0)); \
        if ((step & 1) && V[0].b >= 0) { rs_must(OP(K_SLICE, 0, 0, S_1, S_LEN, 0, 0, 0)); rs_probe(); } \
        step++; } while (0)
    vrt_rng_seed(&g, vrt_seed, 0xC14A00 + k);
    s1 = rs_pick_elem(&g, T, 0, 0); s2 = rs_pick_elem(&g, T, s1, 0); s3 = rs_pick_elem(&g, T, s1, s2);
    vrt_case_note("reshape bytes=%s kind=%s coowner=%d elem=%zu,%zu,%zu", rs_bname[Ti],
                  kind == 0 ? "alloc" : kind == 1 ? "set" : "alloc/set", co, s1, s2, s3);
    rs_T = Ti;
    st_create(SCOPE(4, 4));
    rs_shape(HOW, T / s1, s1); PRE();
    rs_shape(HOW, T / s2, s2); PRE();                   /* same bytes, other element size */
    n = T / s2; s = s2;
    rs_shape(HOW, n, s); PRE();                         /* the same shape again */
    d = 1 + vrt_below(&g, 3);
    if (vrt_chance(&g, 1, 2)) d = (24 + 8 * vrt_below(&g, 2) + s - 1) / s;      /* about the size of the descriptor */
    if (d >= n) d = n - 1;
    rs_shape(HOW, n - d, s); PRE();                     /* slightly smaller */
    rs_shape(HOW, n + d, s); PRE();                     /* slightly larger than the original */
    rs_shape(HOW, T / s3, s3); PRE();                   /* the original byte count again, third element size */
    n = T / s3; s = s3;
    if (n != s) { rs_shape(HOW, s, n); PRE(); { const size_t t = n; n = s; s = t; } }     /* count and size exchanged */
    if (kind != 0) {
        /* external: same block, other geometry, through a second wrapper (the first one goes or stays with its co-owners) */
        if (V[0].b >= 0 && V[0].off > 0) rs_must(OP(K_UNSLICE, 0, 0, 0, 0, 0, 0, 0));
        if (kind == 2 && (V[0].b < 0 || !B[V[0].b].external)) { rs_shape(1, n, s); step++; }
        rs_shape(2, T / s1, s1); PRE();
        n = T / s1; s = s1;
    }
    rs_shape(HOW, n, s); PRE();                         /* the same shape again (a0 possibly an offset view, possibly co-owned) */
    step |= 1;
    rs_shape(HOW, n, s);                                /* and again, sole owner of a full view when !co */
    rs_shape(HOW, T / s2, s2);
    /* the end: co-owners first or last */
    if (vrt_chance(&g, 1, 2)) { rs_must(OP(K_RELEASE, 0, 0, 0, 0, 0, 0, 0)); rs_must(OP(K_RESET, 0, 0, 0, 0, 0, 0, 0)); }
    rs_must(OP(K_RESET, 1, 0, 0, 0, 0, 0, 0));
    rs_must(OP(K_RELEASE, 2, 0, 1, 0, 0, 0, 0));
    rs_must(OP(K_RELEASE, 0, 0, 0, 0, 0, 0, 0));
    audit_all();
    st_destroy();
    VRT_COUNT("reshape.histories");
#undef HOW
#undef PRE
}

/* ---- very many views of one buffer ----
 *
 * One library or external buffer, one root object and N - 1 further objects that become views of it (slices of the root,
 * of the previous view, of any earlier view, also beyond the source view inside the buffer; unslice).  Own, flat model
 * (offset / length per object, number of referrers); the objects live in one harness block and are initialised in place.
 * After EVERY call: the allocator events (no block of the buffer may be freed while a referrer is left) and the size of the
 * object written.  At the referrer counts around 2^8, 2^16, 2^17 and 2^18, on the way up and on the way down (the order in
 * which the views go is first-in-first-out - the root goes first -, last-in-first-out or scattered): the blocks are live,
 * some views are audited (data, addresses of first / middle / last element, writes, at(size) and at(SIZE_MAX) abort), and
 * release() on the root, on the newest and on some other view reports NULL, causes no allocator traffic and changes
 * nothing.  The last referrer: release hands an external buffer back (or reset lets it go), every block of the buffer is
 * freed exactly once by that call and nothing stays allocated.
 */
static struct {
    cstl_array_t *W;
    uint8_t *off, *len, *live;
    size_t N, nm, sz, refs;
    char *base, *xb;
    int external;
    void *blk[MAXBLK];
    int nblk;
} mv;

static const char *mv_cls(void)
{
    return mv.refs <= 1 ? "sole" : mv.refs <= 256 ? "le-2p8-referrers" : mv.refs <= 65536 ? "le-2p16-referrers" : "gt-2p16-referrers";
}
static void mv_fail(const char *key, const char *fmt, ...) __attribute__((format(printf, 2, 3), noreturn));
static void mv_fail(const char *key, const char *fmt, ...)
{
    char k[160], m[400];
    va_list ap;
    va_start(ap, fmt);
    vsnprintf(m, sizeof(m), fmt, ap);
    va_end(ap);
    snprintf(k, sizeof(k), "%s.many-views.%s", key, mv_cls());
    vrt_fail(k, "%s (%s buffer of %zu elements of %zu bytes, %zu referrer(s))", m, mv.external ? "external" : "library", mv.nm, mv.sz, mv.refs);
}
static int mv_checkpoint(size_t c)
{
    return c <= 3 || (c >= 254 && c <= 258) || (c >= 65534 && c <= 65538) || (c >= 131071 && c <= 131073)
           || (c >= 262143 && c <= 262145) || c + 1 >= mv.N;
}
/* allocator events of the call just made; last = the call took the last referrer away */
static void mv_events(const char *what, int last)
{
    const int n = vrt_ev_n();
    void *nb[8];
    int nnb = 0, i, j, freed = 0;
    if (n == 0 && !last) {
        if (vrt_lib_live() != (size_t)mv.nblk)
            mv_fail("array.lifetime.live-block-count", "%zu live library blocks after %s, the buffer has %d", vrt_lib_live(), what, mv.nblk);
        return;
    }
    VRT_CHECK(n <= VRT_EV_MAX, "harness.array.event-log-overflow", "%d allocator events in one call", n);
    for (i = 0; i < n; i++) {
        const struct vrt_aev *e = vrt_ev(i);
        void *fp = NULL, *ap = NULL;
        if (e->kind == 'f') fp = e->p;
        else if (e->failed) continue;
        else if (e->kind == 'r') { fp = e->p; ap = e->q; }
        else ap = e->p;
        if (fp != NULL) {
            int found = 0;
            for (j = 0; j < nnb && !found; j++) if (nb[j] == fp) { nb[j] = nb[--nnb]; found = 1; }
            for (j = 0; j < mv.nblk && !found; j++) if (mv.blk[j] == fp) {
                found = 1;
                if (!last) mv_fail("array.lifetime.freed-while-referenced", "%s freed block %d of the buffer", what, j);
                if (freed >> j & 1) mv_fail("array.lifetime.freed-twice", "%s freed block %d of the buffer twice", what, j);
                freed |= 1 << j;
            }
            if (!found) mv_fail("array.lifetime.unexpected-free", "%s freed %p which is no block of the buffer", what, fp);
        }
        if (ap != NULL) {
            VRT_CHECK(nnb < 8, "harness.array.too-many-new-blocks", "more than 8 blocks allocated in one call");
            nb[nnb++] = ap;
        }
    }
    if (nnb != 0) mv_fail("array.lifetime.stray-allocation", "%s left %d library block(s) allocated", what, nnb);
    if (last) {
        if (freed != (1 << mv.nblk) - 1)
            mv_fail("array.lifetime.not-released", "%s took the last reference away but %d of the %d block(s) of the buffer stayed allocated",
                    what, mv.nblk - __builtin_popcount((unsigned)freed), mv.nblk);
        if (vrt_lib_live() != 0) mv_fail("array.lifetime.leak-at-end", "%zu library block(s) live after the last view went", vrt_lib_live());
    }
}
static void mv_blocks_live(void)
{
    int j;
    for (j = 0; j < mv.nblk; j++)
        if (vrt_lib_block(mv.blk[j], NULL) != mv.blk[j]) mv_fail("array.lifetime.block-gone", "block %d of the buffer is no longer live", j);
    if (vrt_lib_live() != (size_t)mv.nblk)
        mv_fail("array.lifetime.live-block-count", "%zu live library blocks, the buffer has %d", vrt_lib_live(), mv.nblk);
}
static int mv_call_at(size_t k, size_t i, int konst, void **out)
{
    void *volatile p = NULL;
    int ab;
    if (konst) ab = VRT_ABORTS(p = (void *)cstl_array_at_const(&mv.W[k], i));
    else ab = VRT_ABORTS(p = cstl_array_at(&mv.W[k], i));
    *out = p;
    return ab;
}
static void mv_at_aborts(size_t k, size_t i, const char *cls)
{
    void *p;
    char key[96];
    VRT_OP2("array.at", "view %ld [%lu] (must abort)", k, i);
    VRT_COUNT("abort.expected.at");
    if (mv_call_at(k, i, (int)(i & 1), &p)) { VRT_COUNT("abort.observed.at"); return; }
    snprintf(key, sizeof(key), "array.at.no-abort.%s", cls);
    mv_fail(key, "at(view %zu, %zu) returned %p instead of aborting", k, i, p);
}
static void mv_audit_view(size_t k)
{
    cstl_array_t *a = &mv.W[k];
    const size_t len = mv.live[k] ? mv.len[k] : 0, off = mv.live[k] ? mv.off[k] : 0;
    const void *d;
    size_t t;
    VRT_OP1("array.size", "view %ld", k);
    if (cstl_array_size(a) != len) mv_fail("array.size", "view %zu: size %zu, model %zu", k, cstl_array_size(a), len);
    VRT_OP1("array.data", "view %ld", k);
    d = (k & 1) ? cstl_array_data_const(a) : cstl_array_data(a);
    if (d != (void *)(mv.live[k] ? mv.base : NULL)) mv_fail("array.data", "view %zu: data() = %p, expected %p", k, d, (void *)(mv.live[k] ? mv.base : NULL));
    for (t = 0; t < 3 && len > 0; t++) {
        const size_t i = t == 0 ? 0 : t == 1 ? len / 2 : len - 1;
        void *p;
        VRT_OP2("array.at", "view %ld [%lu]", k, i);
        if (mv_call_at(k, i, (int)(t & 1), &p))
            mv_fail("array.at.abort-in-range", "at(view %zu, %zu) aborted, size is %zu (off %zu)", k, i, len, off);
        if (p != (void *)(mv.base + (off + i) * mv.sz))
            mv_fail("array.at.address", "at(view %zu, %zu) = %p, expected base %p + (%zu+%zu)*%zu", k, i, p, (void *)mv.base, off, i, mv.sz);
        memset(p, (int)(0x30 + (fillctr++ & 0x3f)), mv.sz);
    }
    mv_at_aborts(k, len, "index-eq-size");
    mv_at_aborts(k, SIZE_MAX, "index-size-max");
    if (off > 0) mv_at_aborts(k, SIZE_MAX - off + 1, "index-wraps-to-zero");
    VRT_COUNT("manyviews.view-audited");
}
/* release() that must be refused: NULL, no allocator traffic, nothing changed */
static void mv_release_refused(size_t k, int withnull)
{
    void *out = SENT;
    vrt_state(mv_cls());
    VRT_OP2("array.release", "view %ld out=%ld (must be refused)", k, !withnull);
    vrt_ev_begin();
    cstl_array_release(&mv.W[k], withnull ? NULL : &out);
    if (!withnull && out != NULL)
        mv_fail(!mv.live[k] ? "array.release.returned-while-empty" : !mv.external ? "array.release.returned-while-internal" : "array.release.returned-while-shared",
                "release(view %zu) returned %p (buffer %p)", k, out, (void *)mv.base);
    mv_events("a refused release", 0);
    mv_audit_view(k);
    if (!mv.live[k]) VRT_COUNT("manyviews.release.refused.empty-object");
    else if (mv.external) VRT_COUNT("manyviews.release.refused.external-shared"); else VRT_COUNT("manyviews.release.refused.internal");
}
static void mv_count_checkpoint(int down)
{
    const size_t c = mv.refs;
    const char *nm = NULL;
    switch (c) {
    case 255: nm = down ? "manyviews.down.referrers-255" : "manyviews.up.referrers-255"; break;
    case 256: nm = down ? "manyviews.down.referrers-256" : "manyviews.up.referrers-256"; break;
    case 257: nm = down ? "manyviews.down.referrers-257" : "manyviews.up.referrers-257"; break;
    case 65535: nm = down ? "manyviews.down.referrers-65535" : "manyviews.up.referrers-65535"; break;
    case 65536: nm = down ? "manyviews.down.referrers-65536" : "manyviews.up.referrers-65536"; break;
    case 65537: nm = down ? "manyviews.down.referrers-65537" : "manyviews.up.referrers-65537"; break;
    case 131073: nm = down ? "manyviews.down.referrers-131073" : "manyviews.up.referrers-131073"; break;
    case 262145: nm = down ? "manyviews.down.referrers-262145" : "manyviews.up.referrers-262145"; break;
    default: break;
    }
    if (nm != NULL) vrt_count_dyn(nm, 1);
    if (mv.external) VRT_COUNT("manyviews.checkpoint.external"); else VRT_COUNT("manyviews.checkpoint.library");
}
/* object k becomes a view of what object src refers to: slice [beg, end) or (unsl) unslice */
static void mv_view(size_t src, size_t k, size_t beg, size_t end, int unsl)
{
    volatile int ab;
    const int was = mv.live[k];
    vrt_ev_begin();
    if (unsl) {
        VRT_OP2("array.unslice", "view %ld -> view %ld", src, k);
        ab = VRT_ABORTS(cstl_array_unslice(&mv.W[src], &mv.W[k]));
        if (ab) mv_fail("array.unslice.abort", "unslice(view %zu, view %zu) aborted on a non-empty source", src, k);
        mv.off[k] = 0; mv.len[k] = (uint8_t)mv.nm;
        VRT_COUNT("op.unslice");
    } else {
        VRT_OP4("array.slice", "view %ld [%lu,%lu) -> view %ld", src, beg, end, k);
        ab = VRT_ABORTS(cstl_array_slice(&mv.W[src], beg, end, &mv.W[k]));
        if (ab) mv_fail(end > mv.len[src] ? "array.slice.abort-on-legal.beyond-view-inside-buffer" : "array.slice.abort-on-legal.within-view",
                        "slice(view %zu, %zu, %zu) aborted: off %u + end <= nm", src, beg, end, (unsigned)mv.off[src]);
        if (end > mv.len[src]) VRT_COUNT("manyviews.slice.beyond-view-inside-buffer");
        mv.off[k] = (uint8_t)(mv.off[src] + beg); mv.len[k] = (uint8_t)(end - beg);
        VRT_COUNT("op.slice");
    }
    if (!was) { mv.live[k] = 1; mv.refs++; }
    mv_events(unsl ? "unslice" : "slice", 0);
    if (cstl_array_size(&mv.W[k]) != mv.len[k]) mv_fail("array.size", "view %zu: size %zu after the call, model %u", k, cstl_array_size(&mv.W[k]), (unsigned)mv.len[k]);
}
static void mv_reset(size_t k)
{
    const int last = mv.live[k] && mv.refs == 1;
    vrt_state(mv_cls());
    VRT_OP1("array.reset", "view %ld", k);
    VRT_COUNT("op.reset");
    vrt_ev_begin();
    cstl_array_reset(&mv.W[k]);
    if (mv.live[k] && !last) { mv.live[k] = 0; mv.refs--; }     /* the class in a key is that of the referrers left */
    mv_events("reset", last);
    if (last) { mv.live[k] = 0; mv.refs = 0; }
    if (cstl_array_size(&mv.W[k]) != 0) mv_fail("array.size", "view %zu: size %zu after reset", k, cstl_array_size(&mv.W[k]));
}
static size_t mv_gcd(size_t a, size_t b) { while (b) { const size_t t = a % b; a = b; b = t; } return a; }

static void run_manyviews(uint64_t kcase)
{
    vrt_rng g;
    size_t k, j, start, step;
    int n, i, order;
    vrt_rng_seed(&g, vrt_seed, 0xC14B00 + kcase);
    memset(&mv, 0, sizeof(mv));
    mv.external = (int)(kcase & 1);
    order = (int)(kcase / 2 % 3);
    mv.N = vrt_thorough ? 300000 : 70000;
    mv.nm = 2 + vrt_below(&g, 200);
    mv.sz = szval[vrt_below(&g, 5)];
    vrt_case_note("many views: %zu objects, %s buffer nm=%zu sz=%zu, order %s", mv.N, mv.external ? "external" : "library", mv.nm, mv.sz,
                  order == 0 ? "fifo" : order == 1 ? "lifo" : "scattered");
    mv.W = vrt_alloc(mv.N * sizeof(cstl_array_t));
    memset(mv.W, 0x7b, mv.N * sizeof(cstl_array_t));
    mv.off = vrt_zalloc(mv.N); mv.len = vrt_zalloc(mv.N); mv.live = vrt_zalloc(mv.N);
    for (k = 0; k < mv.N; k++) {
        if ((k ^ kcase) & 1) cstl_array_init(&mv.W[k]);
        else mv.W[k] = (cstl_array_t)CSTL_ARRAY_INITIALIZER(mv.W[k]);
    }
    VRT_CHECK(vrt_lib_live() == 0, "harness.array.library-blocks-before-case", "%zu library blocks live at the start", vrt_lib_live());

    /* the root */
    vrt_state("empty");
    vrt_ev_begin();
    if (mv.external) {
        mv.xb = vrt_alloc(mv.nm * mv.sz);
        memset(mv.xb, 0xee, mv.nm * mv.sz);
        VRT_OP2("array.set", "root ext nm=%lu sz=%ld", mv.nm, mv.sz);
        cstl_array_set(&mv.W[0], mv.xb, mv.nm, mv.sz);
        VRT_COUNT("op.set");
    } else {
        VRT_OP2("array.alloc", "root nm=%lu sz=%ld", mv.nm, mv.sz);
        cstl_array_alloc(&mv.W[0], mv.nm, mv.sz);
        VRT_COUNT("op.alloc");
    }
    n = vrt_ev_n();
    for (i = 0; i < n && i < VRT_EV_MAX; i++) {
        const struct vrt_aev *e = vrt_ev(i);
        if (e->kind == 'f') {
            for (j = 0; j < (size_t)mv.nblk; j++) if (mv.blk[j] == e->p) mv.blk[j] = mv.blk[--mv.nblk];
        } else if (!e->failed && e->kind != 'r') {
            VRT_CHECK(mv.nblk < MAXBLK, "harness.array.too-many-blocks-per-buffer", "more than %d blocks back one buffer", MAXBLK);
            mv.blk[mv.nblk++] = e->p;
        }
    }
    if (cstl_array_size(&mv.W[0]) == 0 && cstl_array_data(&mv.W[0]) == NULL) {
        /* tolerated by the statement (see alloc.empty-without-failure); nothing to observe then */
        VRT_COUNT("manyviews.root-left-empty");
        VRT_CHECK(vrt_lib_live() == 0, "array.lifetime.stray-allocation", "empty object but %zu library block(s) live", vrt_lib_live());
        goto out;
    }
    mv.base = cstl_array_data(&mv.W[0]);
    mv.live[0] = 1; mv.off[0] = 0; mv.len[0] = (uint8_t)mv.nm; mv.refs = 1;
    if (mv.external ? mv.base != mv.xb : mv.base == NULL) mv_fail("array.data", "root: data() = %p", (void *)mv.base);
    if (mv.nblk < 1) mv_fail("array.lifetime.no-backing-block", "a new buffer but no library block came into being");
    if (!mv.external) {
        size_t rs = 0;
        char *blk = vrt_lib_block(mv.base, &rs);
        if (blk == NULL || (size_t)(mv.base - blk) + mv.nm * mv.sz > rs)
            mv_fail("array.alloc.block-too-small", "element area %p is not inside a live library block of sufficient size", (void *)mv.base);
    }
    mv_blocks_live();
    mv_audit_view(0);

    /* up */
    vrt_state("growing");
    for (k = 1; k < mv.N; k++) {
        const unsigned r = vrt_below(&g, 8);
        size_t src = r < 4 ? k - 1 : r == 4 ? 0 : vrt_below(&g, (uint32_t)k), rem, beg, end;
        rem = mv.nm - mv.off[src];
        if (r == 7 || rem < 2) mv_view(src, k, 0, 0, 1);
        else {
            beg = vrt_chance(&g, 1, 2) ? 0 : vrt_below(&g, (uint32_t)(rem + 1)) / 4;
            end = vrt_chance(&g, 1, 3) ? rem : beg + vrt_below(&g, (uint32_t)(rem - beg + 1));
            mv_view(src, k, beg, end, 0);
        }
        if (mv_checkpoint(mv.refs)) {
            const size_t other = vrt_below(&g, (uint32_t)k);
            vrt_state(mv_cls());
            mv_count_checkpoint(0);
            mv_blocks_live();
            mv_audit_view(0); mv_audit_view(k); mv_audit_view(other);
            mv_release_refused(k, 0);
            mv_release_refused(0, (int)(k & 1));
            mv_release_refused(other, 0);
            /* back and forth across the count */
            mv_reset(k);
            mv_release_refused(k, 0);           /* an empty object */
            if (mv.refs > 1) mv_release_refused(0, 0);
            mv_view(other, k, 0, mv.nm - mv.off[other], 0);
            mv_release_refused(k, 0);
            VRT_COUNT("manyviews.checkpoint.up");
            vrt_state("growing");
        }
    }
    VRT_MAX("max.manyviews.referrers", mv.refs);
    if (mv.refs > 65537) VRT_COUNT("manyviews.more-than-65537-referrers");
    vrt_sig(0, vrt_mix(vrt_mix(vrt_mix(0xC14B, mv.nm), mv.sz), (uint64_t)(mv.external * 4 + order)));

    /* down: order[j] = (start + j * step) mod N */
    if (order == 0) { start = 0; step = 1; }
    else if (order == 1) { start = mv.N - 1; step = mv.N - 1; }
    else { start = vrt_below(&g, (uint32_t)mv.N); step = 1 + vrt_below(&g, (uint32_t)mv.N - 1); while (mv_gcd(step, mv.N) != 1) step++; }
    vrt_state("shrinking");
    for (j = 0; j + 1 < mv.N; j++) {
        k = (start + j * step) % mv.N;
        mv_reset(k);
        if (mv_checkpoint(mv.refs)) {
            const size_t nxt = (start + (j + 1) * step) % mv.N, lastk = (start + (mv.N - 1) * step) % mv.N;
            const size_t midk = (start + (j + 1 + (mv.N - 1 - j) / 2) * step) % mv.N;
            vrt_state(mv_cls());
            mv_count_checkpoint(1);
            mv_blocks_live();
            mv_audit_view(nxt); mv_audit_view(lastk); mv_audit_view(midk); mv_audit_view(k);
            if (mv.refs > 1) {
                mv_release_refused(nxt, 0);
                mv_release_refused(lastk, (int)(j & 1));
                if (midk != lastk) mv_release_refused(midk, 0);
            }
            mv_release_refused(k, 0);           /* already empty */
            VRT_COUNT("manyviews.checkpoint.down");
            vrt_state("shrinking");
        }
    }
    /* the sole remaining user */
    k = (start + (mv.N - 1) * step) % mv.N;
    VRT_CHECK(mv.refs == 1 && mv.live[k], "harness.array.manyviews-model", "refs %zu at the end", mv.refs);
    vrt_state("sole");
    mv_blocks_live();
    mv_audit_view(k);
    if (k == 0) VRT_COUNT("manyviews.last-referrer.root"); else VRT_COUNT("manyviews.last-referrer.view");
    if (mv.external && kcase / 2 % 4 != 2) {
        void *out = SENT;
        const int withnull = (int)vrt_below(&g, 4) == 0;
        VRT_OP2("array.release", "view %ld out=%ld (sole remaining user)", k, !withnull);
        VRT_COUNT("op.release");
        vrt_ev_begin();
        cstl_array_release(&mv.W[k], withnull ? NULL : &out);
        if (!withnull) {
            if (out == NULL) mv_fail("array.release.sole-user-refused", "release(view %zu) reported NULL although it is the only user left", k);
            if (out != (void *)mv.xb) mv_fail("array.release.wrong-pointer", "release(view %zu) returned %p, the buffer given to set was %p", k, out, (void *)mv.xb);
        }
        if (cstl_array_size(&mv.W[k]) != 0 || cstl_array_data(&mv.W[k]) != NULL)
            mv_fail("array.release.object-not-empty", "view %zu still reports size %zu data %p after handing its buffer back",
                    k, cstl_array_size(&mv.W[k]), cstl_array_data(&mv.W[k]));
        mv.live[k] = 0;
        mv_events("release by the sole remaining user", 1);
        mv.refs = 0;
        VRT_COUNT("manyviews.release.returned-buffer-to-last-of-many");
    } else {
        if (!mv.external) mv_release_refused(k, 0);
        mv_reset(k);
        if (mv.external) VRT_COUNT("manyviews.reset.last-of-many.external"); else VRT_COUNT("manyviews.reset.last-of-many.library");
    }
    VRT_COUNT("manyviews.freed-exactly-once-at-the-end");
    mv_audit_view(k);
    mv_audit_view(0);
out:
    if (mv.xb != NULL) { memset(mv.xb, 0xa5, mv.nm * mv.sz); vrt_free(mv.xb); }
    vrt_free(mv.W); vrt_free(mv.off); vrt_free(mv.len); vrt_free(mv.live);
    memset(&mv, 0, sizeof(mv));
    VRT_COUNT("manyviews.histories");
}

static uint64_t nrandom(void) { return vrt_thorough ? 40000 : 5000; }
/* cases: closure scopes, many-views (the longest single cases: started first), reshape, random histories */
static uint64_t nmanyviews(void) { return vrt_thorough ? 12 : 6; }
static uint64_t nreshape(void) { return (uint64_t)RS_NB * 3 * 2 * (vrt_thorough ? 4 : 1); }
static uint64_t ncases(void)
{
    if (vrt_thorough) { scopes = thorough_scopes; nscopes = sizeof(thorough_scopes) / sizeof(scopes[0]); }
    else { scopes = quick_scopes; nscopes = sizeof(quick_scopes) / sizeof(scopes[0]); }
    return nscopes + nmanyviews() + nreshape() + nrandom();
}
static void run_case(uint64_t idx)
{
    if (idx < (uint64_t)nscopes) { run_closure((int)idx); return; }
    idx -= nscopes;
    if (idx < nmanyviews()) { run_manyviews(idx); return; }
    idx -= nmanyviews();
    if (idx < nreshape()) { run_reshape(idx); return; }
    run_random(idx - nreshape());
}
static void winit(void)
{
    vrt_sig_name(0, "view-states");
    (void)ncases();
    init_counters();
}

static const char *const required[] = {
    "op.alloc", "op.set", "op.slice", "op.unslice", "op.reset", "op.release", "op.at", "op.at_const", "op.data", "op.size",
    "set.second-wrapper-over-same-buffer", "set.second-wrapper-over-same-buffer.different-geometry", "set.null-zero",
    "slice.into-object-wrapping-same-base", "slice.null-wrapper-into-empty-object", "buffer.external.died.block-still-wrapped",
    "alloc.ok", "alloc.nm-zero", "alloc.onto-slice-with-offset", "set.onto-slice-with-offset",
    "alloc.request.unrepresentable", "alloc.request.over-cap", "alloc.failed.left-empty.unsatisfiable",
    "alloc.failed.left-empty.failpoint", "set.failed.left-empty", "alloc.block-located",
    "slice.legal.in-place", "slice.legal.into-other", "slice.legal.source-has-offset", "slice.legal.beyond-view-inside-buffer",
    "slice.legal.dest-was-last-referrer",
    "slice.abort.end-lt-beg", "slice.abort.past-buffer", "slice.abort.past-buffer-wrapping",
    "unslice.in-place", "unslice.into-other", "unslice.source-has-offset", "unslice.dest-had-offset",
    "reset.last-referrer", "reset.shared",
    "release.returned-buffer", "release.null.empty-object", "release.null.internal-sole", "release.null.internal-shared",
    "release.null.external-shared",
    "buffer.internal.died", "buffer.external.died",
    "abort.observed.at", "abort.observed.slice", "audit.elements-written", "audit.at.beyond-view-inside-buffer",
    "closure.states", "random.histories",
    /* re-allocation with related shapes, small and large */
    "reshape.histories", "audit.object.sparse", "reshape.probed.full-view", "reshape.probed.offset-view",
    "reshape.alloc.240-bytes", "reshape.alloc.720-bytes", "reshape.alloc.64k-bytes", "reshape.alloc.128k-bytes", "reshape.alloc.256k-bytes", "reshape.alloc.1m-bytes",
    "reshape.set.240-bytes", "reshape.set.720-bytes", "reshape.set.64k-bytes", "reshape.set.128k-bytes", "reshape.set.256k-bytes", "reshape.set.1m-bytes",
    "reshape.onto-sole-owner", "reshape.onto-coowned", "reshape.onto-offset-view", "reshape.library-external-switch",
    "reshape.same-shape-again", "reshape.same-shape-again.sole-owner.128k-or-more", "reshape.same-bytes.other-elem-size",
    "reshape.same-bytes.other-elem-size.sole-owner.128k-or-more", "reshape.same-bytes.other-elem-size.coowned.128k-or-more",
    "reshape.same-bytes.count-and-size-exchanged", "reshape.same-bytes.rewrapped-own-block", "reshape.slightly-smaller", "reshape.slightly-larger",
    /* degenerate shapes: no elements (real buffer), zero-sized elements */
    "alloc.elem-size.0", "set.elem-size.0", "alloc.ok.nm-zero", "alloc.ok.zero-size-elements", "alloc.ok.zero-size-elements.more-than-2p32",
    "alloc.block-located.zero-size-elements", "set.ok.nm-zero.real-buffer", "set.ok.zero-size-elements", "set.ok.zero-size-elements.more-than-2p32",
    "alloc.onto-degenerate-shape", "set.onto-degenerate-shape",
    "audit.object.zero-size-elements", "audit.object.zero-size-elements.offset-view", "audit.object.zero-size-elements.more-than-2p32",
    "audit.object.nm-zero.real-external-buffer", "audit.object.nm-zero.library-buffer",
    "slice.legal.nm-zero.real-external-buffer", "slice.legal.nm-zero.library-buffer", "slice.legal.nm-zero.in-place", "slice.abort.nm-zero.real-buffer",
    "slice.legal.zero-size-elements", "slice.legal.zero-size-elements.in-place", "slice.legal.zero-size-elements.offset-result",
    "slice.legal.zero-size-elements.from-offset-view-beyond-view",
    "slice.abort.zero-size-elements.end-lt-beg", "slice.abort.zero-size-elements.past-buffer", "slice.abort.zero-size-elements.past-buffer.from-offset-view",
    "unslice.nm-zero.real-buffer", "unslice.zero-size-elements", "unslice.zero-size-elements.source-has-offset",
    "release.returned-buffer.nm-zero", "release.returned-buffer.zero-size-elements",
    "release.null.external-shared.nm-zero.real-buffer", "release.null.external-shared.zero-size-elements",
    "at.in-range.zero-size-elements", "at.in-range.zero-size-elements.offset-plus-index-nonzero", "at.out-of-range.zero-size-elements",
    "at.out-of-range.nm-zero.real-buffer",
    /* very many views of one buffer */
    "manyviews.histories", "manyviews.more-than-65537-referrers", "manyviews.checkpoint.library", "manyviews.checkpoint.external",
    "manyviews.up.referrers-255", "manyviews.up.referrers-256", "manyviews.up.referrers-257",
    "manyviews.up.referrers-65535", "manyviews.up.referrers-65536", "manyviews.up.referrers-65537",
    "manyviews.down.referrers-255", "manyviews.down.referrers-256", "manyviews.down.referrers-257",
    "manyviews.down.referrers-65535", "manyviews.down.referrers-65536", "manyviews.down.referrers-65537",
    "manyviews.release.refused.external-shared", "manyviews.release.refused.internal", "manyviews.release.refused.empty-object",
    "manyviews.release.returned-buffer-to-last-of-many", "manyviews.reset.last-of-many.library", "manyviews.freed-exactly-once-at-the-end",
    "manyviews.last-referrer.root", "manyviews.last-referrer.view", "manyviews.slice.beyond-view-inside-buffer",
    NULL
};
static const struct vrt_harness H = { "array", ncases, run_case, winit, NULL, required, 16 };

/*
 * Build note: lib/checkdefs/C14.py compiles the harness TUs (not the library)
 * with `--param asan-use-after-return=0`.  Every audit arms ~16 abort
 * expectations, i.e. ~16 siglongjmp()s out of the library per call; with
 * fake-stack frames in the harness each of them makes ASan garbage-collect
 * its whole fake stack (~30 us per probe, 20x the cost of everything else).
 * The library keeps full stack-use-after-return instrumentation.
 */
int main(int argc, char **argv) { return vrt_main(argc, argv, &H); }
