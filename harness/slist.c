/*
 * C13 -- singly-linked list equals a reference sequence and its tail is the
 * true last element.  (Also used by C15 via mode "clear".)
 *
 * cases: [0, NCLOSURE)       closure / bounded-exhaustive scopes
 *        [NCLOSURE, ...)      seeded random histories
 */
#include "vrt.h"
#include "explore.h"
#include "cstl/slist.h"
#include <string.h>
#include <stdio.h>

#define MAXL 3
#define MAXE 520
#define MAGIC 0x51157e1eu

/* an element carries two embedded nodes so that it can sit on two lists at once (one per
 * "offset class"); lists of class c link elements through node[c].  This makes the `off` member
 * of the list object observable (swap between lists of different classes, concat refusal). */
struct elem {
    uint32_t magic;
    int id, key;
    int where[2];               /* per class: list index, -1 = free */
    uint64_t pad0;
    struct cstl_slist_node node[2];
    uint64_t pad1;
};

static struct elem *pool[MAXE];
static int npool, nkeys, nlists;
static struct cstl_slist L[MAXL];
static struct elem *M[MAXL][MAXE];
static int Mn[MAXL];
static int lastkind[MAXL];      /* previous mutating op kind per list (coverage) */
static int cls[MAXL];           /* offset class of each list */
static int mixed;               /* scope uses both classes */
#define OFF(c) (offsetof(struct elem, node) + (size_t)(c) * sizeof(struct cstl_slist_node))

enum {
    K_PUSH_FRONT = 1, K_PUSH_BACK, K_INS_AFTER, K_ERASE_AFTER, K_POP_FRONT,
    K_REVERSE, K_SORT, K_CONCAT, K_SWAP, K_FOREACH, K_CLEAR, K_NKINDS
};
static const char *kindname[K_NKINDS] = {
    "none", "push_front", "push_back", "insert_after", "erase_after", "pop_front",
    "reverse", "sort", "concat", "swap", "foreach", "clear"
};
#define OP(kind, l1, l2, key, pos) \
    ((uint32_t)(kind) | (uint32_t)(l1) << 8 | (uint32_t)(l2) << 10 | (uint32_t)(key) << 12 | (uint32_t)(pos) << 16)
#define OP_KIND(o) ((o) & 0xff)
#define OP_L1(o)   (((o) >> 8) & 3)
#define OP_L2(o)   (((o) >> 10) & 3)
#define OP_KEY(o)  (((o) >> 12) & 15)
#define OP_POS(o)  ((o) >> 16)
#define NOSTOP 0xffff

static struct elem *new_elem(int id, int key)
{
    struct elem *e = vrt_alloc(sizeof(*e));
    memset(e, 0x5e, sizeof(*e));
    e->magic = MAGIC; e->id = id; e->key = key; e->where[0] = e->where[1] = -1;
    return e;
}

static int sortdir[2] = { 1, -1 };
static int cmp_key(const void *a, const void *b, void *p)
{
    const struct elem *x = a, *y = b;
    /* the priv pointer carries the sort direction: the same function sorts ascending or descending */
    VRT_CHECK(p == (void *)&sortdir[0] || p == (void *)&sortdir[1], "slist.sort.cmp-priv", "comparison called with wrong priv %p", p);
    if (*(const int *)p < 0) { const struct elem *t = x; x = y; y = t; }
    VRT_CHECK(x->magic == MAGIC && y->magic == MAGIC, "slist.sort.cmp-non-element",
              "comparison called with a non-element");
    /* only the sign is specified: the magnitude is unrelated to the key distance */
    if ((x->id + y->id) % 3 == 0)                  /* ... and sits on the edges of the integer types */
        return vrt_cmp_result((x->key > y->key) - (x->key < y->key), (unsigned)(x->id * 131 + y->id * 31));
    return ((x->key > y->key) - (x->key < y->key)) * (1 + (x->id * 131 + y->id * 31) % 997);
}

static int big_cmp(const void *a, const void *b, void *p)
{
    (void)p;
    /* first member of the big element is its key */
    return (*(const int *)a > *(const int *)b) - (*(const int *)a < *(const int *)b);
}

static void st_create(int scope)
{
    int i;
    /* scope: bits 0-3 nlists, 4-7 nkeys, 8-19 npool, bit 20: odd lists use the second node */
    nlists = scope & 15; nkeys = (scope >> 4) & 15; npool = (scope >> 8) & 0xfff; mixed = (scope >> 20) & 1;
    for (i = 0; i < npool; i++) pool[i] = new_elem(i, i % nkeys);
    for (i = 0; i < nlists; i++) {
        cls[i] = mixed ? (i & 1) : 0;
        memset(&L[i], 0x77, sizeof(L[i]));      /* the object's previous bytes are garbage to a fresh list */
        /* both documented ways of making a list: the init function and the static initialiser macro */
        if ((scope >> 21) & 1) {
            if (cls[i]) L[i] = (struct cstl_slist)CSTL_SLIST_INITIALIZER(L[i], struct elem, node[1]);
            else L[i] = (struct cstl_slist)CSTL_SLIST_INITIALIZER(L[i], struct elem, node[0]);
            VRT_COUNT("lists.made-with-initializer-macro");
        } else cstl_slist_init(&L[i], OFF(cls[i]));
        Mn[i] = 0; lastkind[i] = 0;
    }
}
static void st_destroy(void)
{
    int i;
    for (i = 0; i < npool; i++) { vrt_free(pool[i]); pool[i] = NULL; }
}
#define SCOPE(nl, nk, np) ((nl) | (nk) << 4 | (np) << 8)
#define SCOPE_MIXED (1 << 20)
#define SCOPE_MACRO (1 << 21)

static struct elem *take_free(int key, int c)
{
    int i;
    for (i = 0; i < npool; i++) if (pool[i]->where[c] < 0 && pool[i]->key == key) return pool[i];
    return NULL;
}

/* ---- audits ---- */
struct walkp { int l; int n; int stop_at; int stop_val; int bad; };
static int visit_cb(void *e, void *p)
{
    struct walkp *w = p;
    struct elem *x = e;
    if (w->n >= Mn[w->l] || M[w->l][w->n] != x) { w->bad = 1 + w->n; return 99; }
    w->n++;
    if (w->stop_at == w->n - 1) return w->stop_val;
    return 0;
}

static void audit_list(int l)
{
    struct cstl_slist *sl = &L[l];
    struct walkp w = { l, 0, -1, 0, 0 };
    const struct cstl_slist_node *n, *last;
    int cnt, r;

    VRT_CHECK(cstl_slist_size(sl) == (size_t)Mn[l], "slist.size",
              "list %d: size %zu, reference %d", l, cstl_slist_size(sl), Mn[l]);
    if (Mn[l] == 0) {
        VRT_CHECK(cstl_slist_front(sl) == NULL, "slist.front.empty", "front of empty list %d not NULL", l);
        VRT_CHECK(cstl_slist_back(sl) == NULL, "slist.back.empty", "back of empty list %d not NULL", l);
    } else {
        VRT_CHECK(cstl_slist_front(sl) == M[l][0], "slist.front", "list %d: front is not the reference first", l);
        VRT_CHECK(cstl_slist_back(sl) == M[l][Mn[l] - 1], "slist.back",
                  "list %d: back is not the reference last (len %d)", l, Mn[l]);
    }
    r = cstl_slist_foreach(sl, visit_cb, &w);
    VRT_CHECK(w.bad == 0, "slist.traversal.mismatch", "list %d: traversal differs from reference at index %d", l, w.bad - 1);
    VRT_CHECK(r == 0, "slist.foreach.ret", "foreach returned %d without a stop request", r);
    VRT_CHECK(w.n == Mn[l], "slist.traversal.short", "list %d: traversal yields %d elements, reference %d", l, w.n, Mn[l]);
    /* link walker over the header-visible fields (extra, white box) */
    last = &sl->h;
    for (n = sl->h.n, cnt = 0; n != NULL && cnt <= Mn[l]; n = n->n, cnt++) last = n;
    VRT_CHECK(cnt == Mn[l], "slist.walker.length", "list %d: link chain has %d+ nodes, reference %d", l, cnt, Mn[l]);
    VRT_CHECK(sl->t == last, "slist.walker.tail-not-last", "list %d: tail pointer is not the last node (len %d)", l, Mn[l]);
    VRT_COUNT("audit.list");
}
static void audit_all(void)
{
    int l;
    for (l = 0; l < nlists; l++) audit_list(l);
}

/* clear callback: exactly-once state machine, poison, free */
static int clear_list, clear_seen;
static void clear_cb(void *e, void *p)
{
    struct elem *x = e;
    int id;
    VRT_CHECK(p == NULL, "slist.clear.priv", "clear callback got priv %p", p);
    VRT_CHECK(x->magic == MAGIC, "slist.clear.non-element", "clear callback for a non-element / twice");
    VRT_CHECK(x->where[cls[clear_list]] == clear_list, "slist.clear.non-member", "clear callback for element %d not in list %d", x->id, clear_list);
    id = x->id;
    clear_seen++;
    if (x->where[!cls[clear_list]] >= 0) {
        /* still linked into a list of the other class through its other node: only this node is dead */
        memset(&x->node[cls[clear_list]], 0xa5, sizeof(x->node[0]));
        x->where[cls[clear_list]] = -1;
    } else {
        memset(x, 0xa5, sizeof(*x));
        vrt_free(x);
        pool[id] = new_elem(id, id % nkeys);
    }
    VRT_COUNT("clear.handed-over");
}

static void ins_model(int l, int at, struct elem *e)
{
    memmove(&M[l][at + 1], &M[l][at], (Mn[l] - at) * sizeof(M[l][0]));
    M[l][at] = e; Mn[l]++; e->where[cls[l]] = l;
}
static struct elem *del_model(int l, int at)
{
    struct elem *e = M[l][at];
    memmove(&M[l][at], &M[l][at + 1], (Mn[l] - at - 1) * sizeof(M[l][0]));
    Mn[l]--; e->where[cls[l]] = -1;
    return e;
}

static void count_after(int l, int kind)
{
    /* which mutating op preceded this push_back on the same list */
    static int ids[K_NKINDS];
    static int init;
    if (!init) {
        int k;
        for (k = 0; k < K_NKINDS; k++) {
            char nm[64];
            snprintf(nm, sizeof(nm), "push_back.right-after.%s", kindname[k]);
            ids[k] = vrt_counter_id(nm);
        }
        init = 1;
    }
    (void)kind;
    vrt_ctr[ids[lastkind[l]]]++;
}

static int st_apply(uint32_t op, int audit)
{
    const int kind = OP_KIND(op), l1 = OP_L1(op), l2 = OP_L2(op), key = OP_KEY(op);
    const int pos = OP_POS(op);
    struct elem *e, *r;
    int i;

    if (l1 >= nlists) return 0;
    switch (kind) {
    case K_PUSH_FRONT:
        if ((e = take_free(key, cls[l1])) == NULL) return 0;
        vrt_state(Mn[l1] ? "nonempty" : "empty");
        VRT_OP3("slist.push_front", "l%ld e%ld(k%ld)", l1, e->id, key);
        cstl_slist_push_front(&L[l1], e);
        ins_model(l1, 0, e);
        VRT_COUNT("op.push_front");
        break;
    case K_PUSH_BACK:
        if ((e = take_free(key, cls[l1])) == NULL) return 0;
        vrt_state(Mn[l1] ? "nonempty" : "empty");
        VRT_OP3("slist.push_back", "l%ld e%ld(k%ld)", l1, e->id, key);
        cstl_slist_push_back(&L[l1], e);
        ins_model(l1, Mn[l1], e);
        VRT_COUNT("op.push_back");
        count_after(l1, kind);
        /* the appended element must be the true last right now */
        VRT_CHECK(cstl_slist_back(&L[l1]) == e, "slist.push_back.not-last",
                  "back() after push_back is not the pushed element (prev op %s)", kindname[lastkind[l1]]);
        break;
    case K_INS_AFTER:
        if (pos >= Mn[l1] || (e = take_free(key, cls[l1])) == NULL) return 0;
        vrt_state(pos == Mn[l1] - 1 ? "after-last" : "inner");
        VRT_OP4("slist.insert_after", "l%ld after#%ld e%ld(k%ld)", l1, pos, e->id, key);
        cstl_slist_insert_after(&L[l1], M[l1][pos], e);
        ins_model(l1, pos + 1, e);
        VRT_COUNT("op.insert_after");
        if (pos + 2 == Mn[l1]) VRT_COUNT("op.insert_after.last");
        break;
    case K_ERASE_AFTER:
        if (pos + 1 >= Mn[l1]) return 0;
        vrt_state(pos + 2 == Mn[l1] ? "erases-last" : "inner");
        VRT_OP2("slist.erase_after", "l%ld after#%ld", l1, pos);
        r = cstl_slist_erase_after(&L[l1], M[l1][pos]);
        VRT_CHECK(r == M[l1][pos + 1], "slist.erase_after.ret", "erase_after returned %p, expected successor %p",
                  (void *)r, (void *)M[l1][pos + 1]);
        if (pos + 2 == Mn[l1]) VRT_COUNT("op.erase_after.last");
        del_model(l1, pos + 1);
        VRT_COUNT("op.erase_after");
        break;
    case K_POP_FRONT:
        vrt_state(Mn[l1] == 0 ? "empty" : Mn[l1] == 1 ? "to-empty" : "nonempty");
        VRT_OP1("slist.pop_front", "l%ld", l1);
        r = cstl_slist_pop_front(&L[l1]);
        if (Mn[l1] == 0) {
            VRT_CHECK(r == NULL, "slist.pop_front.empty-not-null", "pop_front on empty list returned %p", (void *)r);
            VRT_COUNT("op.pop_front.empty");
        } else {
            VRT_CHECK(r == M[l1][0], "slist.pop_front.ret", "pop_front returned %p, expected first %p",
                      (void *)r, (void *)M[l1][0]);
            del_model(l1, 0);
            VRT_COUNT("op.pop_front");
        }
        break;
    case K_REVERSE:
        vrt_state(Mn[l1] <= 1 ? "short" : "nonempty");
        VRT_OP1("slist.reverse", "l%ld", l1);
        cstl_slist_reverse(&L[l1]);
        for (i = 0; i < Mn[l1] / 2; i++) {
            e = M[l1][i]; M[l1][i] = M[l1][Mn[l1] - 1 - i]; M[l1][Mn[l1] - 1 - i] = e;
        }
        VRT_COUNT("op.reverse");
        break;
    case K_SORT: {
        /* ordered permutation required; stability is not */
        struct walkp w = { l1, 0, -1, 0, 0 };
        static struct elem *got[MAXE];
        static int gotn;
        const struct cstl_slist_node *n;
        vrt_state(Mn[l1] <= 1 ? "short" : "nonempty");
        VRT_OP2("slist.sort", "l%ld %ld(0 ascending, 1 descending)", l1, key & 1);
        cstl_slist_sort(&L[l1], cmp_key, &sortdir[key & 1]);
        if (key & 1) VRT_COUNT("op.sort.descending");
        (void)w;
        /* read the new order through the links, bounded by the reference length */
        gotn = 0;
        for (n = L[l1].h.n; n != NULL && gotn <= Mn[l1]; n = n->n)
            got[gotn++] = (struct elem *)((char *)n - OFF(cls[l1]));
        VRT_CHECK(gotn == Mn[l1], "slist.sort.length", "sort changed the number of linked elements: %d vs %d", gotn, Mn[l1]);
        for (i = 0; i < gotn; i++) {
            VRT_CHECK(got[i]->magic == MAGIC && got[i]->where[cls[l1]] == l1, "slist.sort.foreign-element",
                      "element at %d after sort is not a member", i);
            VRT_CHECK(i == 0 || ((key & 1) ? got[i - 1]->key >= got[i]->key : got[i - 1]->key <= got[i]->key), "slist.sort.unordered",
                      "keys out of order at %d (%s sort)", i, (key & 1) ? "descending" : "ascending");
            got[i]->where[cls[l1]] = -2;         /* mark seen: detects duplicates */
        }
        for (i = 0; i < gotn; i++) got[i]->where[cls[l1]] = l1;
        for (i = 0; i < Mn[l1]; i++) M[l1][i] = got[i];
        VRT_COUNT("op.sort");
        break;
    }
    case K_CONCAT:
        if (l2 >= nlists || l1 == l2) return 0;
        vrt_state(Mn[l2] == 0 ? "src-empty" : Mn[l1] == 0 ? "dst-empty" : "both");
        VRT_OP2("slist.concat", "l%ld += l%ld", l1, l2);
        cstl_slist_concat(&L[l1], &L[l2]);
        if (cls[l1] != cls[l2]) {
            /* lists of different node offsets cannot be concatenated: the call changes nothing */
            VRT_COUNT("op.concat.different-offsets-refused");
        } else {
            for (i = 0; i < Mn[l2]; i++) { M[l1][Mn[l1] + i] = M[l2][i]; M[l2][i]->where[cls[l1]] = l1; }
            Mn[l1] += Mn[l2]; Mn[l2] = 0;
        }
        lastkind[l2] = kind;
        VRT_COUNT("op.concat");
        break;
    case K_SWAP: {
        static struct elem *tmp[MAXE];
        int tn;
        if (l2 >= nlists || l1 == l2) return 0;
        vrt_state(Mn[l1] == 0 || Mn[l2] == 0 ? "one-empty" : "both");
        VRT_OP2("slist.swap", "l%ld <-> l%ld", l1, l2);
        cstl_slist_swap(&L[l1], &L[l2]);
        tn = Mn[l1];
        memcpy(tmp, M[l1], tn * sizeof(tmp[0]));
        memcpy(M[l1], M[l2], Mn[l2] * sizeof(tmp[0]));
        memcpy(M[l2], tmp, tn * sizeof(tmp[0]));
        Mn[l1] = Mn[l2]; Mn[l2] = tn;
        /* the list objects trade everything, including the node offset they use */
        if (cls[l1] != cls[l2]) { int c = cls[l1]; cls[l1] = cls[l2]; cls[l2] = c; VRT_COUNT("op.swap.different-offsets"); }
        for (i = 0; i < Mn[l1]; i++) M[l1][i]->where[cls[l1]] = l1;
        for (i = 0; i < Mn[l2]; i++) M[l2][i]->where[cls[l2]] = l2;
        lastkind[l2] = kind;
        VRT_COUNT("op.swap");
        break;
    }
    case K_FOREACH: {
        struct walkp w = { l1, 0, -1, 0, 0 };
        int rr, stop = pos == NOSTOP ? -1 : pos;
        if (stop >= Mn[l1]) return 0;
        w.stop_at = stop; w.stop_val = vrt_stop_value((unsigned)stop * 31u + 5u * vrt_case_tick());    /* any non-zero value stops */
        VRT_OP2("slist.foreach", "l%ld stop@%ld", l1, stop);
        rr = cstl_slist_foreach(&L[l1], visit_cb, &w);
        VRT_CHECK(w.bad == 0, "slist.foreach.order", "foreach visited a wrong element at index %d", w.bad - 1);
        if (stop < 0) {
            VRT_CHECK(rr == 0 && w.n == Mn[l1], "slist.foreach.full", "foreach returned %d after %d of %d", rr, w.n, Mn[l1]);
        } else {
            VRT_CHECK(rr == w.stop_val, "slist.foreach.stop-value", "foreach returned %d, visitor asked %d", rr, w.stop_val);
            VRT_CHECK(w.n == stop + 1, "slist.foreach.continued", "foreach made %d visits, stop requested at %d", w.n, stop);
            VRT_COUNT("op.foreach.early-stop");
        }
        VRT_COUNT("op.foreach");
        return 1;       /* not mutating: lastkind unchanged */
    }
    case K_CLEAR:
        vrt_state(Mn[l1] == 0 ? "empty" : "nonempty");
        VRT_OP1("slist.clear", "l%ld", l1);
        clear_list = l1; clear_seen = 0;
        if (vrt_case_tick() & 1) cstl_slist_clear(&L[l1], clear_cb); else VRT_NOMEM(cstl_slist_clear(&L[l1], clear_cb));     /* clear has no way to fail: also with an allocator that refuses everything */
        VRT_CHECK(clear_seen == Mn[l1], "slist.clear.count", "clear handed over %d of %d elements", clear_seen, Mn[l1]);
        Mn[l1] = 0;
        VRT_COUNT("op.clear");
        break;
    default:
        return 0;
    }
    lastkind[l1] = kind;
    if (audit) audit_all();
    return 1;
}

static uint64_t st_sig(void)
{
    uint64_t h = 0x1234 + nlists;
    int l, i;
    for (l = 0; l < nlists; l++) {
        h = vrt_mix(h, 0xfff0 + Mn[l] + (cls[l] << 12));
        for (i = 0; i < Mn[l]; i++) h = vrt_mix(h, M[l][i]->key + 1);
    }
    return h;
}
static int st_nontrivial(void)
{
    int l, n = 0;
    for (l = 0; l < nlists; l++) n += Mn[l];
    return n >= 2;
}

/* probes (mode "clear", C15): clear every reachable state on a replica, then re-use */
static void st_probe(int pi)
{
    int l, i;
    (void)pi;
    for (l = 0; l < nlists; l++) {
        st_apply(OP(K_CLEAR, l, 0, 0, 0), 1);
    }
    /* fresh fill / drain under the model */
    for (i = 0; i < 3; i++) st_apply(OP(K_PUSH_BACK, 0, 0, i % nkeys, 0), 1);
    st_apply(OP(K_PUSH_FRONT, 0, 0, 0, 0), 1);
    st_apply(OP(K_POP_FRONT, 0, 0, 0, 0), 1);
    st_apply(OP(K_ERASE_AFTER, 0, 0, 0, 0), 1);
    st_apply(OP(K_CLEAR, 0, 0, 0, 0), 1);
    VRT_COUNT("probe.clear-then-reuse");
}

static struct vex model = { st_create, st_destroy, st_apply, st_sig, st_nontrivial, 0, NULL };

/* ---- closure scopes ---- */
struct cscope { int nl, nk, np, maxlen; uint64_t max_states; int max_depth; int mixed; };
static const struct cscope quick_scopes[] = {
    { 1, 1, 5, 5, 200000, 40 },         /* one list, lengths 0..5, structure only */
    { 1, 2, 5, 5, 200000, 40 },         /* + two key values (sort) */
    { 2, 1, 5, 5, 200000, 40 },         /* two lists: concat/swap */
    { 2, 2, 4, 4, 200000, 40 },
    { 3, 1, 4, 4, 200000, 40 },
    { 2, 1, 4, 4, 200000, 40, 1 },      /* two lists linking through different nodes of the same elements */
    { 3, 2, 3, 3, 200000, 40, 1 },
    { 1, 2, 6, 6, 200000, 40 },
    { 2, 2, 5, 5, 200000, 40 },
    { 1, 3, 5, 5, 200000, 40 },
    { 2, 2, 4, 4, 200000, 40, 1 },
};
static const struct cscope thorough_scopes[] = {
    { 1, 1, 6, 6, 2000000, 60 },
    { 1, 3, 6, 6, 2000000, 60 },
    { 2, 2, 6, 6, 2000000, 60 },
    { 3, 2, 5, 5, 2000000, 60 },
    { 3, 1, 6, 6, 2000000, 60 },
    { 2, 3, 5, 5, 2000000, 60 },
    { 2, 2, 5, 5, 2000000, 60, 1 },
    { 3, 1, 5, 5, 2000000, 60, 1 },
};
static const struct cscope *scopes;
static int nscopes;
static int is_clear_mode;

static int build_alphabet(const struct cscope *s, uint32_t *al)
{
    int n = 0, l, l2, k, p;
    for (l = 0; l < s->nl; l++) {
        for (k = 0; k < s->nk; k++) {
            al[n++] = OP(K_PUSH_FRONT, l, 0, k, 0);
            al[n++] = OP(K_PUSH_BACK, l, 0, k, 0);
            for (p = 0; p < s->np; p++) al[n++] = OP(K_INS_AFTER, l, 0, k, p);
        }
        for (p = 0; p + 1 < s->np; p++) al[n++] = OP(K_ERASE_AFTER, l, 0, 0, p);
        al[n++] = OP(K_POP_FRONT, l, 0, 0, 0);
        al[n++] = OP(K_REVERSE, l, 0, 0, 0);
        al[n++] = OP(K_SORT, l, 0, 0, 0);
        al[n++] = OP(K_SORT, l, 0, 1, 0);
        al[n++] = OP(K_CLEAR, l, 0, 0, 0);
        al[n++] = OP(K_FOREACH, l, 0, 0, NOSTOP);
        for (p = 0; p < s->np; p++) al[n++] = OP(K_FOREACH, l, 0, 0, p);
        for (l2 = 0; l2 < s->nl; l2++) if (l2 != l) {
            al[n++] = OP(K_CONCAT, l, l2, 0, 0);
            if (l < l2) al[n++] = OP(K_SWAP, l, l2, 0, 0);
        }
    }
    return n;
}

static void run_closure(int ci)
{
    const struct cscope *s = &scopes[ci];
    uint32_t al[512];
    int n = build_alphabet(s, al);
    struct vex_result r;
    vrt_case_note("closure nlists=%d keys=%d pool=%d alphabet=%d%s%s", s->nl, s->nk, s->np, n,
                  s->mixed ? " mixed-node-offsets" : "", is_clear_mode ? " +clear probe in every state" : "");
    model.nprobes = is_clear_mode ? 1 : 0;
    model.probe = st_probe;
    vex_closure(&model, SCOPE(s->nl, s->nk, s->np) | (s->mixed ? SCOPE_MIXED : 0) | ((ci & 1) ? SCOPE_MACRO : 0), al, n, s->max_states, s->max_depth, &r);
    VRT_COUNT_N("closure.states", r.states);
    VRT_COUNT_N("closure.transitions", r.transitions);
    VRT_COUNT_N("closure.replayed-ops", r.applied);
    VRT_COUNT_N("closure.probes", r.probes);
    VRT_MAX("max.closure.depth", r.maxdepth);
    if (r.closed) VRT_COUNT("closure.scopes-closed"); else VRT_COUNT("closure.scopes-capped");
}

/* ---- random histories ---- */
static void run_random(uint64_t idx)
{
    vrt_rng g;
    int nl, nk, np, nops, i, bias = 0;
    vrt_rng_seed(&g, vrt_seed, 0xC13000 + idx);
    nl = 1 + vrt_below(&g, 3);
    nk = 1 + vrt_below(&g, 6);
    np = (idx % 4 == 0) ? 400 + vrt_below(&g, 112) : 4 + vrt_below(&g, 40);
    nops = vrt_thorough ? 6000 : 1500;
    vrt_case_note("random nlists=%d keys=%d pool=%d ops=%d", nl, nk, np, nops);
    st_create(SCOPE(nl, nk, np) | (nl > 1 && idx % 3 == 1 ? SCOPE_MIXED : 0) | (idx % 2 ? SCOPE_MACRO : 0));
    for (i = 0; i < nops; i++) {
        uint32_t op;
        int l = vrt_below(&g, nl), l2 = vrt_below(&g, nl), k = vrt_below(&g, nk);
        int len = Mn[l], r = vrt_below(&g, 100);
        int audit = (i % 8) == 0 || np <= 16;
        if (i % 256 == 0) bias = vrt_below(&g, 3);        /* 0 balanced, 1 fill, 2 drain */
        if (bias == 1 && r >= 40 && r < 70) r = vrt_below(&g, 40);
        if (bias == 2 && r < 30) r = 40 + vrt_below(&g, 30);
        if (r < 8) op = OP(K_PUSH_FRONT, l, 0, k, 0);
        else if (r < 26) op = OP(K_PUSH_BACK, l, 0, k, 0);
        else if (r < 40) op = OP(K_INS_AFTER, l, 0, k, len ? (vrt_chance(&g, 1, 3) ? len - 1 : (int)vrt_below(&g, len)) : 0);
        else if (r < 55) op = OP(K_ERASE_AFTER, l, 0, 0, len > 1 ? (vrt_chance(&g, 1, 2) ? len - 2 : (int)vrt_below(&g, len - 1)) : 0);
        else if (r < 68) op = OP(K_POP_FRONT, l, 0, 0, 0);
        else if (r < 74) op = OP(K_REVERSE, l, 0, 0, 0);
        else if (r < 80) {
            /* the elements belong to the caller: a key may change while the element is linked; the next sort must see it */
            if (len > 0 && vrt_chance(&g, 1, 3)) {
                struct elem *x = M[l][vrt_below(&g, len)];
                x->key = (x->key + 1 + (nk > 1 ? (int)vrt_below(&g, nk - 1) : 0)) % nk;
                VRT_COUNT("op.key-changed-while-linked");
            }
            op = OP(K_SORT, l, 0, vrt_below(&g, 2), 0);
        }
        else if (r < 86) op = OP(K_CONCAT, l, l2, 0, 0);
        else if (r < 92) op = OP(K_SWAP, l, l2, 0, 0);
        else if (r < 98) op = OP(K_FOREACH, l, 0, 0, (len && vrt_chance(&g, 1, 2)) ? (int)vrt_below(&g, len) : NOSTOP);
        else op = OP(K_CLEAR, l, 0, 0, 0);
        if (st_apply(op, audit)) {
            /* follow with a push_back probe with probability 1/2 (C13 tail clause) */
            if (OP_KIND(op) != K_PUSH_BACK && OP_KIND(op) != K_FOREACH && vrt_chance(&g, 1, 2))
                st_apply(OP(K_PUSH_BACK, l, 0, vrt_below(&g, nk), 0), 1);
        }
    }
    audit_all();
    vrt_sig(0, vrt_mix(st_sig(), idx));
    /* drain through clear so that nothing is left linked */
    for (i = 0; i < nl; i++) st_apply(OP(K_CLEAR, i, 0, 0, 0), 1);
    st_destroy();
    VRT_COUNT("random.histories");
}

/* lists far longer than 2^16 elements: counters, sort and reverse must not depend on the length */
#define BIGL 70000
static void run_big(uint64_t which)
{
    struct belem { int key; int seq; struct cstl_slist_node n; } *E = vrt_alloc(sizeof(*E) * BIGL);
    struct cstl_slist a, b;
    vrt_rng g;
    size_t i, n;
    const struct cstl_slist_node *p;
    vrt_rng_seed(&g, vrt_seed, 0xC13B16 + which);
    vrt_case_note("big: %d elements, push_back/concat/sort/reverse/pop_front", BIGL);
    cstl_slist_init(&a, offsetof(struct belem, n)); cstl_slist_init(&b, offsetof(struct belem, n));
    VRT_OP1("slist.push_back", "%ld elements into two lists", BIGL);
    for (i = 0; i < BIGL; i++) {
        E[i].key = (int)vrt_below(&g, which ? 5 : 1000000); E[i].seq = (int)i;
        cstl_slist_push_back(i < BIGL / 2 ? &a : &b, &E[i]);
    }
    VRT_CHECK(cstl_slist_size(&a) + cstl_slist_size(&b) == BIGL, "slist.big.size", "sizes %zu + %zu", cstl_slist_size(&a), cstl_slist_size(&b));
    VRT_OP0("slist.concat", "two halves");
    cstl_slist_concat(&a, &b);
    VRT_CHECK(cstl_slist_size(&a) == BIGL && cstl_slist_size(&b) == 0, "slist.big.concat.size", "size %zu after concat", cstl_slist_size(&a));
    VRT_CHECK(cstl_slist_back(&a) == &E[BIGL - 1] && cstl_slist_front(&a) == &E[0], "slist.big.concat.ends", "front/back wrong after concat");
    for (p = a.h.n, n = 0; p != NULL; p = p->n, n++)
        VRT_CHECK(p == &E[n].n, "slist.big.concat.order", "element %zu out of place after concat", n);
    VRT_CHECK(n == BIGL, "slist.big.concat.length", "%zu elements linked", n);
    VRT_OP0("slist.sort", "big");
    cstl_slist_sort(&a, big_cmp, NULL);
    for (p = a.h.n, n = 0; p != NULL; p = p->n, n++) {
        const struct belem *x = (const struct belem *)((const char *)p - offsetof(struct belem, n));
        VRT_CHECK(x >= E && x < E + BIGL, "slist.big.sort.foreign", "foreign node after sort");
        if (p->n != NULL) {
            const struct belem *y = (const struct belem *)((const char *)p->n - offsetof(struct belem, n));
            VRT_CHECK(x->key <= y->key, "slist.big.sort.order", "keys out of order at %zu", n);
        }
    }
    VRT_CHECK(n == BIGL && cstl_slist_size(&a) == BIGL, "slist.big.sort.length", "%zu elements linked, size %zu", n, cstl_slist_size(&a));
    VRT_OP0("slist.reverse", "big");
    cstl_slist_reverse(&a);
    {
        int last = 0x7fffffff;
        void *e;
        n = 0;
        VRT_OP0("slist.pop_front", "drain");
        while ((e = cstl_slist_pop_front(&a)) != NULL) {
            const struct belem *x = e;
            VRT_CHECK(x->key <= last, "slist.big.reverse.order", "keys not descending after reverse at %zu", n);
            last = x->key; n++;
            VRT_CHECK(n <= BIGL, "slist.big.drain.overlong", "more elements popped than were pushed");
        }
        VRT_CHECK(n == BIGL && cstl_slist_size(&a) == 0, "slist.big.drain.count", "%zu elements popped", n);
    }
    /* the tail is still the true last: push_back on the drained list */
    cstl_slist_push_back(&a, &E[0]); cstl_slist_push_back(&a, &E[1]);
    VRT_CHECK(cstl_slist_back(&a) == &E[1] && cstl_slist_front(&a) == &E[0], "slist.big.reuse", "push_back after the drain landed in the wrong place");
    vrt_free(E);
    VRT_COUNT("big.cases");
    vrt_sig(0, 0xb16 + which);
}
#define NBIG 2
static uint64_t nrandom(void)
{
    if (is_clear_mode) return vrt_thorough ? 2000 : 200;
    return vrt_thorough ? 200000 : 60000;
}
static uint64_t ncases(void)
{
    is_clear_mode = strcmp(vrt_mode, "clear") == 0;
    if (vrt_thorough) { scopes = thorough_scopes; nscopes = sizeof(thorough_scopes) / sizeof(scopes[0]); }
    else { scopes = quick_scopes; nscopes = sizeof(quick_scopes) / sizeof(scopes[0]); }
    return nscopes + (is_clear_mode ? 0 : NBIG) + nrandom();
}
static void run_case(uint64_t idx)
{
    const uint64_t nb = is_clear_mode ? 0 : NBIG;
    /* none of these containers ever needs memory: every second case runs with an allocator that refuses everything */
    if (idx & 1) { vrt_fp_arm(NULL, 0, 1); VRT_COUNT("nomem.cases"); }
    if (idx < (uint64_t)nscopes) run_closure((int)idx);
    else if (idx < nscopes + nb) run_big(idx - nscopes);
    else run_random(idx - nscopes - nb);
    vrt_fp_disarm();
}
static void winit(void)
{
    vrt_sig_name(0, "list-states");
    (void)ncases();
}

static const char *const required[] = {
    "op.push_back", "op.erase_after.last", "op.pop_front.empty", "op.reverse", "op.sort",
    "op.concat", "op.swap", "op.clear", "closure.states", "random.histories", NULL
};
static const struct vrt_harness H = { "slist", ncases, run_case, winit, NULL, required, 16 };

int main(int argc, char **argv) { return vrt_main(argc, argv, &H); }
