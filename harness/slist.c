/*
 * C13 -- singly-linked list equals a reference sequence and its tail is the
 * true last element.  (Also used by C15 via mode "clear".)
 *
 * cases: [0, NCLOSURE)       closure / bounded-exhaustive scopes
 *        then NBIG            lists of 70 000 elements
 *        then nruns()         sorts of 800 .. 33 000 (thorough 200 000) elements whose keys come in runs
 *                             (run_shapes[] x runs ascending/descending x comparator ascending/descending),
 *                             with a push_back probe right after the sort
 *        the rest             seeded random histories
 * (mode "clear" has the closure scopes and the random histories only)
 *
 * foreach with key 1: the visitor calls size/front/back and foreach on the list that is being walked and on
 * another one (read-only re-entrancy), with early stop of the inner and of the outer walk (keys
 * slist.foreach.reentrant.*).
 */
#include "vrt.h"
#include "explore.h"
#include "cstl/slist.h"
#include <string.h>
#include <stdio.h>

#define MAXL 3
#define MAXE 520
#define MAGIC 0x51157e1eu

/* an element carries two embedded nodes so that it can sit on two lists at once (one per
 * "offset class"); lists of class c link elements through node[c].  This makes the `off` member
 * of the list object observable (swap between lists of different classes, concat refusal). */
struct elem {
    uint32_t magic;
    int id, key;
    int where[2];               /* per class: list index, -1 = free */
    uint64_t pad0;
    struct cstl_slist_node node[2];
    uint64_t pad1;
};

static struct elem *pool[MAXE];
static int npool, nkeys, nlists;
static struct cstl_slist L[MAXL];
static struct elem *M[MAXL][MAXE];
static int Mn[MAXL];
static int lastkind[MAXL];      /* previous mutating op kind per list (coverage) */
static int cls[MAXL];           /* offset class of each list */
static int mixed;               /* scope uses both classes */
#define OFF(c) (offsetof(struct elem, node) + (size_t)(c) * sizeof(struct cstl_slist_node))

enum {
    K_PUSH_FRONT = 1, K_PUSH_BACK, K_INS_AFTER, K_ERASE_AFTER, K_POP_FRONT,
    K_REVERSE, K_SORT, K_CONCAT, K_SWAP, K_FOREACH, K_CLEAR, K_NKINDS
};
static const char *kindname[K_NKINDS] = {
    "none", "push_front", "push_back", "insert_after", "erase_after", "pop_front",
    "reverse", "sort", "concat", "swap", "foreach", "clear"
};
#define OP(kind, l1, l2, key, pos) \
    ((uint32_t)(kind) | (uint32_t)(l1) << 8 | (uint32_t)(l2) << 10 | (uint32_t)(key) << 12 | (uint32_t)(pos) << 16)
#define OP_KIND(o) ((o) & 0xff)
#define OP_L1(o)   (((o) >> 8) & 3)
#define OP_L2(o)   (((o) >> 10) & 3)
#define OP_KEY(o)  (((o) >> 12) & 15)
#define OP_POS(o)  ((o) >> 16)
#define NOSTOP 0xffff
#define POS_LAST 0xfffe     /* foreach whose visitor reads the lists: stop at the last visit, wherever that is (lists of 3 and more) */

static struct elem *new_elem(int id, int key)
{
    struct elem *e = vrt_alloc(sizeof(*e));
    memset(e, 0x5e, sizeof(*e));
    e->magic = MAGIC; e->id = id; e->key = key; e->where[0] = e->where[1] = -1;
    return e;
}

static int sortdir[2] = { 1, -1 };
static int cmp_key(const void *a, const void *b, void *p)
{
    const struct elem *x = a, *y = b;
    /* the priv pointer carries the sort direction: the same function sorts ascending or descending */
    VRT_CHECK(p == (void *)&sortdir[0] || p == (void *)&sortdir[1], "slist.sort.cmp-priv", "comparison called with wrong priv %p", p);
    if (*(const int *)p < 0) { const struct elem *t = x; x = y; y = t; }
    VRT_CHECK(x->magic == MAGIC && y->magic == MAGIC, "slist.sort.cmp-non-element",
              "comparison called with a non-element");
    /* only the sign is specified: the magnitude is unrelated to the key distance */
    if ((x->id + y->id) % 3 == 0)                  /* ... and sits on the edges of the integer types */
        return vrt_cmp_result((x->key > y->key) - (x->key < y->key), (unsigned)(x->id * 131 + y->id * 31));
    return ((x->key > y->key) - (x->key < y->key)) * (1 + (x->id * 131 + y->id * 31) % 997);
}

static int big_cmp(const void *a, const void *b, void *p)
{
    (void)p;
    /* first member of the big element is its key */
    return (*(const int *)a > *(const int *)b) - (*(const int *)a < *(const int *)b);
}

static void nest_reset(void);
static void st_create(int scope)
{
    int i;
    /* scope: bits 0-3 nlists, 4-7 nkeys, 8-19 npool, bit 20: odd lists use the second node */
    nlists = scope & 15; nkeys = (scope >> 4) & 15; npool = (scope >> 8) & 0xfff; mixed = (scope >> 20) & 1;
    for (i = 0; i < npool; i++) pool[i] = new_elem(i, i % nkeys);
    nest_reset();
    for (i = 0; i < nlists; i++) {
        cls[i] = mixed ? (i & 1) : 0;
        memset(&L[i], 0x77, sizeof(L[i]));      /* the object's previous bytes are garbage to a fresh list */
        /* both documented ways of making a list: the init function and the static initialiser macro */
        if ((scope >> 21) & 1) {
            if (cls[i]) L[i] = (struct cstl_slist)CSTL_SLIST_INITIALIZER(L[i], struct elem, node[1]);
            else L[i] = (struct cstl_slist)CSTL_SLIST_INITIALIZER(L[i], struct elem, node[0]);
            VRT_COUNT("lists.made-with-initializer-macro");
        } else cstl_slist_init(&L[i], OFF(cls[i]));
        Mn[i] = 0; lastkind[i] = 0;
    }
}
static void st_destroy(void)
{
    int i;
    for (i = 0; i < npool; i++) { vrt_free(pool[i]); pool[i] = NULL; }
}
#define SCOPE(nl, nk, np) ((nl) | (nk) << 4 | (np) << 8)
#define SCOPE_MIXED (1 << 20)
#define SCOPE_MACRO (1 << 21)

static struct elem *take_free(int key, int c)
{
    int i;
    for (i = 0; i < npool; i++) if (pool[i]->where[c] < 0 && pool[i]->key == key) return pool[i];
    return NULL;
}

/* ---- audits ---- */
struct walkp { int l; int n; int stop_at; int stop_val; int bad; };
static int visit_cb(void *e, void *p)
{
    struct walkp *w = p;
    struct elem *x = e;
    if (w->n >= Mn[w->l] || M[w->l][w->n] != x) { w->bad = 1 + w->n; return 99; }
    w->n++;
    if (w->stop_at == w->n - 1) return w->stop_val;
    return 0;
}

/* ---- read-only re-entrancy: a visitor that looks at the list it is being shown, and at another one ----
 * size, front, back and foreach change nothing, so a visitor may call them on any list, including the one that is
 * being walked (the all-pairs loop); the outer walk must go on as if nothing had happened. */
static void look_at(int l, int same, int full, unsigned salt)
{
    struct cstl_slist *sl = &L[l];
    const int len = Mn[l];
    struct walkp w = { l, 0, -1, 0, 0 };
    int r;

    VRT_CHECK(cstl_slist_size(sl) == (size_t)len, "slist.foreach.reentrant.size", "size of list %d read inside a visitor: %zu, reference %d", l, cstl_slist_size(sl), len);
    VRT_CHECK(cstl_slist_front(sl) == (len ? (void *)M[l][0] : NULL), "slist.foreach.reentrant.front", "front of list %d read inside a visitor is not the reference first (len %d)", l, len);
    VRT_CHECK(cstl_slist_back(sl) == (len ? (void *)M[l][len - 1] : NULL), "slist.foreach.reentrant.back", "back of list %d read inside a visitor is not the reference last (len %d)", l, len);
    if (!full && len > 0) {
        w.stop_at = (int)((salt >> 1) % (unsigned)(len < 40 ? len : 40));
        w.stop_val = vrt_stop_value(salt * 7u + 3u);
    }
    r = cstl_slist_foreach(sl, visit_cb, &w);
    VRT_CHECK(w.bad == 0, "slist.foreach.reentrant.inner.order", "walk of list %d started inside a visitor: wrong element at visit %d (len %d)", l, w.bad - 1, len);
    if (w.stop_at >= 0) {
        VRT_CHECK(w.n == w.stop_at + 1, "slist.foreach.reentrant.inner.incomplete", "walk of list %d started inside a visitor made %d visits, the stop was due at visit %d", l, w.n, w.stop_at);
        VRT_CHECK(r == w.stop_val, "slist.foreach.reentrant.inner.stop-value", "walk started inside a visitor returned %d, its visitor's non-zero result was %d", r, w.stop_val);
        VRT_COUNT("foreach.reentrant.inner-early-stop");
    } else {
        VRT_CHECK(w.n == len, "slist.foreach.reentrant.inner.incomplete", "walk of list %d started inside a visitor made %d visits over %d elements", l, w.n, len);
        VRT_CHECK(r == 0, "slist.foreach.reentrant.inner.ret", "walk started inside a visitor returned %d without a stop request", r);
        if (len >= 2) { if (same) VRT_COUNT("foreach.reentrant.inner-full-walk.same-list"); else VRT_COUNT("foreach.reentrant.inner-full-walk.other-list"); }
    }
}
static int nest_cb(void *e, void *p)
{
    struct walkp *w = p;
    const int i = w->n, len = Mn[w->l];
    const unsigned salt = (unsigned)i * 2654435761u + 40503u * vrt_case_tick();
    int full;

    if (i >= len || M[w->l][i] != e) { w->bad = 1 + i; return 99; }
    w->n++;
    /* short lists: every third inner walk is complete (all pairs); long ones: at the first, the middle and the last visit */
    full = len <= 40 ? (salt >> 7) % 3 == 0 || len <= 3 : (i == 0 || i == len / 2 || i == len - 1);
    look_at(w->l, 1, full, salt >> 9);
    if (nlists > 1) {
        look_at((w->l + 1 + ((i & 1) && nlists > 2)) % nlists, 0, len <= 40 ? (salt >> 5) % 2 == 0 : i == len / 3, salt >> 11);
        VRT_COUNT("foreach.reentrant.other-list");
    }
    return w->stop_at == i ? w->stop_val : 0;
}

static void audit_list(int l)
{
    struct cstl_slist *sl = &L[l];
    struct walkp w = { l, 0, -1, 0, 0 };
    const struct cstl_slist_node *n, *last;
    int cnt, r;

    VRT_CHECK(cstl_slist_size(sl) == (size_t)Mn[l], "slist.size",
              "list %d: size %zu, reference %d", l, cstl_slist_size(sl), Mn[l]);
    if (Mn[l] == 0) {
        VRT_CHECK(cstl_slist_front(sl) == NULL, "slist.front.empty", "front of empty list %d not NULL", l);
        VRT_CHECK(cstl_slist_back(sl) == NULL, "slist.back.empty", "back of empty list %d not NULL", l);
    } else {
        VRT_CHECK(cstl_slist_front(sl) == M[l][0], "slist.front", "list %d: front is not the reference first", l);
        VRT_CHECK(cstl_slist_back(sl) == M[l][Mn[l] - 1], "slist.back",
                  "list %d: back is not the reference last (len %d)", l, Mn[l]);
    }
    r = cstl_slist_foreach(sl, visit_cb, &w);
    VRT_CHECK(w.bad == 0, "slist.traversal.mismatch", "list %d: traversal differs from reference at index %d", l, w.bad - 1);
    VRT_CHECK(r == 0, "slist.foreach.ret", "foreach returned %d without a stop request", r);
    VRT_CHECK(w.n == Mn[l], "slist.traversal.short", "list %d: traversal yields %d elements, reference %d", l, w.n, Mn[l]);
    /* link walker over the header-visible fields (extra, white box) */
    last = &sl->h;
    for (n = sl->h.n, cnt = 0; n != NULL && cnt <= Mn[l]; n = n->n, cnt++) last = n;
    VRT_CHECK(cnt == Mn[l], "slist.walker.length", "list %d: link chain has %d+ nodes, reference %d", l, cnt, Mn[l]);
    VRT_CHECK(sl->t == last, "slist.walker.tail-not-last", "list %d: tail pointer is not the last node (len %d)", l, Mn[l]);
    VRT_COUNT("audit.list");
}
static void audit_all(void)
{
    int l;
    for (l = 0; l < nlists; l++) audit_list(l);
}

/* ---- nested lists (mode "clear", C15): a list of directories each owning a list of files ----
 * Right before a clear some elements of the list (the first, the last, several, all, one) are given a private,
 * non-empty list of individually allocated sub-elements.  The outer clear callback destroys what the element
 * owns first: it clears the inner list through the library with ANOTHER callback function.  That is a clear of
 * another object of the same type running inside a clear: every outer element must still reach the outer
 * callback exactly once, every sub-element the callback of its own clear call exactly once, nothing the wrong
 * function, nothing after its callback returned, and both lists end empty and usable.  Half of the inner lists
 * keep the overwritten sub-elements until their clear has returned and verify the overwrite then (a write after
 * the callback shows without a sanitizer, a read runs into 0xa5a5.. links), the others free them at once. */
#define SMAGIC 0x5ab5115fu
#define SUBMAX 3
struct subl;
struct felem {
    uint32_t magic;
    int key;
    struct subl *owner;
    uint64_t pad0;
    struct cstl_slist_node node;
    uint64_t pad1;
};
struct subl {
    uint32_t magic;
    int n, seen, hold, owner_id;
    struct felem *se[SUBMAX];           /* linked sub-elements (NULL once handed over) */
    struct felem *held[SUBMAX];         /* hold: handed over and overwritten, not freed yet */
    struct felem *spare;                /* for the push that proves the cleared inner list usable */
    struct cstl_slist l;
};
static struct subl *SUB[MAXE];          /* by element id */
static int nest_on;                     /* mode "clear" */
static struct subl *cur_sub;            /* the inner list being cleared right now */
static int outer_running, inner_done, nsubs;
static struct felem *new_felem(struct subl *s, int key)
{
    struct felem *x = vrt_alloc(sizeof(*x));
    memset(x, 0x5e, sizeof(*x));
    x->magic = SMAGIC; x->key = key; x->owner = s;
    return x;
}
static void sub_attach(struct elem *e, unsigned salt)
{
    struct subl *s = vrt_alloc(sizeof(*s));
    int i;
    memset(s, 0x5e, sizeof(*s));
    s->magic = SMAGIC; s->n = 1 + (int)(salt % SUBMAX); s->seen = 0; s->hold = (salt >> 3) & 1; s->owner_id = e->id;
    VRT_OP2("slist.nested.fill", "inner list of e%ld, %ld sub-elements", e->id, s->n);
    if (salt & 4) cstl_slist_init(&s->l, offsetof(struct felem, node));
    else s->l = (struct cstl_slist)CSTL_SLIST_INITIALIZER(s->l, struct felem, node);
    for (i = 0; i < SUBMAX; i++) s->se[i] = s->held[i] = NULL;
    for (i = 0; i < s->n; i++) {
        s->se[i] = new_felem(s, i);
        if ((salt >> (4 + i)) & 1) cstl_slist_push_front(&s->l, s->se[i]); else cstl_slist_push_back(&s->l, s->se[i]);
    }
    s->spare = new_felem(s, SUBMAX);
    SUB[e->id] = s; nsubs++;
    VRT_COUNT("nested.attached");
}
static void sub_clear_cb(void *ev, void *p)
{
    struct felem *x = ev;
    int i, k = -1;
    VRT_CHECK(cur_sub != NULL, "slist.clear.nested.callback-outside-its-clear",
              "the callback given to the clear of an inner list was invoked while no inner clear is running");
    VRT_CHECK(p == NULL, "slist.clear.nested.priv", "inner clear callback got priv %p", p);
    for (i = 0; i < cur_sub->n; i++) if (cur_sub->se[i] == x) k = i;
    VRT_CHECK(k >= 0, "slist.clear.nested.foreign-element", "inner clear callback was handed something that is not a linked element of the inner list being cleared (or an element twice)");
    VRT_CHECK(x->magic == SMAGIC && x->owner == cur_sub, "slist.clear.nested.element-damaged", "sub-element handed to the inner clear callback does not carry its owner's marks any more");
    cur_sub->se[k] = NULL;
    cur_sub->seen++;
    memset(x, 0xa5, sizeof(*x));
    if (cur_sub->hold) cur_sub->held[k] = x; else vrt_free(x);
    VRT_COUNT("clear.nested.handed-over");
}
/* the owning element is being destroyed (inside the outer clear callback): clear its list through the library */
static void sub_destroy(struct elem *e)
{
    struct subl *s = SUB[e->id], *prev = cur_sub;
    int i;
    size_t k;
    cur_sub = s; s->seen = 0;
    VRT_OP2("slist.nested.clear", "inner list of e%ld (%ld sub-elements), from the clear callback of the outer list", e->id, s->n);
    cstl_slist_clear(&s->l, sub_clear_cb);
    cur_sub = prev;
    VRT_CHECK(s->seen == s->n, "slist.clear.nested.count", "inner clear handed over %d of %d sub-elements", s->seen, s->n);
    for (i = 0; i < s->n; i++) if (s->held[i] != NULL) {
        const unsigned char *b = (const unsigned char *)s->held[i];
        for (k = 0; k < sizeof(struct felem) && b[k] == 0xa5; k++) ;
        VRT_CHECK(k == sizeof(struct felem), "slist.clear.nested.touched-after-callback", "sub-element written at byte %zu after its clear callback had returned", k);
        vrt_free(s->held[i]); s->held[i] = NULL;
        VRT_COUNT("clear.nested.overwrite-verified");
    }
    VRT_CHECK(cstl_slist_size(&s->l) == 0 && cstl_slist_front(&s->l) == NULL && cstl_slist_back(&s->l) == NULL,
              "slist.clear.nested.not-empty", "inner list after its clear: size %zu, front/back not both NULL", cstl_slist_size(&s->l));
    /* usable like a fresh one */
    cstl_slist_push_back(&s->l, s->spare);
    VRT_CHECK(cstl_slist_size(&s->l) == 1 && cstl_slist_front(&s->l) == (void *)s->spare && cstl_slist_back(&s->l) == (void *)s->spare
              && s->spare->node.n == NULL,
              "slist.clear.nested.reuse", "push_back on the cleared inner list: size %zu, front/back are not the one element or it has a successor", cstl_slist_size(&s->l));
    VRT_CHECK(cstl_slist_pop_front(&s->l) == (void *)s->spare && cstl_slist_size(&s->l) == 0 && cstl_slist_back(&s->l) == NULL,
              "slist.clear.nested.reuse", "pop_front on the re-used inner list did not return its only element / leave it empty");
    vrt_free(s->spare);
    memset(s, 0xa5, sizeof(*s));
    vrt_free(s);
    SUB[e->id] = NULL; nsubs--;
    inner_done++;
    VRT_COUNT("clear.nested.lists-cleared");
}
static void nest_reset(void)
{
    int i;
    for (i = 0; i < npool; i++) SUB[i] = NULL;
    cur_sub = NULL; outer_running = 0; inner_done = 0; nsubs = 0;
}
/* give some elements of list l a list of their own; which ones changes from clear to clear */
static void sub_attach_some(int l)
{
    const unsigned salt = vrt_case_tick() * 2654435761u + 0x9e37u;
    const int len = Mn[l], variant = (int)((salt >> 28) % 5);
    int i, owners = 0;
    for (i = 0; i < len; i++) {
        const unsigned h = (salt ^ (unsigned)i * 40503u) * 2246822519u >> 16;
        int own;
        switch (variant) {
        case 0: own = len <= 16 || i == 0 || i == len - 1 || h % 4 == 0; break;       /* all (long lists: first, last, every fourth) */
        case 1: own = i == 0 || i == len - 1; break;                                    /* both ends */
        case 2: own = i == 0 || i == len - 1 || h % 3 == 0; break;                      /* both ends and some in between */
        case 3: own = i != 0 && i != len - 1 && h % 2 == 0; break;                      /* neither end */
        default: own = len <= 16 ? ((salt >> 8) % (unsigned)len == (unsigned)i) : h % 8 == 0; break;    /* one, anywhere */
        }
        if (!own || SUB[M[l][i]->id] != NULL) continue;
        sub_attach(M[l][i], h ^ (salt >> 7));
        owners++;
        if (i == 0) VRT_COUNT("clear.nested.first-element-owns-a-list");
        if (i == len - 1) VRT_COUNT("clear.nested.last-element-owns-a-list");
        if (i > 0 && i < len - 1) VRT_COUNT("clear.nested.inner-element-owns-a-list");
    }
    if (owners >= 2) VRT_COUNT("clear.nested.several-owners");
    if (owners > 0 && owners < len) VRT_COUNT("clear.nested.owners-and-plain-elements");
}

/* clear callback: exactly-once state machine, poison, free */
static int clear_list, clear_seen;
static void clear_cb(void *e, void *p)
{
    struct elem *x = e;
    int id;
    VRT_CHECK(cur_sub == NULL, "slist.clear.nested.wrong-callback", "the clear of an inner list invoked the callback given to the clear of the outer list");
    VRT_CHECK(outer_running, "slist.clear.callback-outside-its-clear", "clear callback invoked while its clear is not running");
    VRT_CHECK(p == NULL, "slist.clear.priv", "clear callback got priv %p", p);
    VRT_CHECK(x->magic == MAGIC, "slist.clear.non-element", "clear callback for a non-element / twice");
    VRT_CHECK(x->where[cls[clear_list]] == clear_list, "slist.clear.non-member", "clear callback for element %d not in list %d", x->id, clear_list);
    id = x->id;
    clear_seen++;
    if (inner_done) VRT_COUNT("clear.nested.outer-went-on-after-inner-clear");
    if (SUB[id] != NULL) {
        sub_destroy(x);
        VRT_OP2("slist.clear", "l%ld (goes on after the nested clear in the callback for e%ld)", clear_list, id);
    }
    if (x->where[!cls[clear_list]] >= 0) {
        /* still linked into a list of the other class through its other node: only this node is dead */
        memset(&x->node[cls[clear_list]], 0xa5, sizeof(x->node[0]));
        x->where[cls[clear_list]] = -1;
    } else {
        memset(x, 0xa5, sizeof(*x));
        vrt_free(x);
        pool[id] = new_elem(id, id % nkeys);
    }
    VRT_COUNT("clear.handed-over");
}

static void ins_model(int l, int at, struct elem *e)
{
    memmove(&M[l][at + 1], &M[l][at], (Mn[l] - at) * sizeof(M[l][0]));
    M[l][at] = e; Mn[l]++; e->where[cls[l]] = l;
}
static struct elem *del_model(int l, int at)
{
    struct elem *e = M[l][at];
    memmove(&M[l][at], &M[l][at + 1], (Mn[l] - at - 1) * sizeof(M[l][0]));
    Mn[l]--; e->where[cls[l]] = -1;
    return e;
}

static void count_after(int l, int kind)
{
    /* which mutating op preceded this push_back on the same list */
    static int ids[K_NKINDS];
    static int init;
    if (!init) {
        int k;
        for (k = 0; k < K_NKINDS; k++) {
            char nm[64];
            snprintf(nm, sizeof(nm), "push_back.right-after.%s", kindname[k]);
            ids[k] = vrt_counter_id(nm);
        }
        init = 1;
    }
    (void)kind;
    vrt_ctr[ids[lastkind[l]]]++;
}

static int st_apply(uint32_t op, int audit)
{
    const int kind = OP_KIND(op), l1 = OP_L1(op), l2 = OP_L2(op), key = OP_KEY(op);
    const int pos = OP_POS(op);
    struct elem *e, *r;
    int i;

    if (l1 >= nlists) return 0;
    switch (kind) {
    case K_PUSH_FRONT:
        if ((e = take_free(key, cls[l1])) == NULL) return 0;
        vrt_state(Mn[l1] ? "nonempty" : "empty");
        VRT_OP3("slist.push_front", "l%ld e%ld(k%ld)", l1, e->id, key);
        cstl_slist_push_front(&L[l1], e);
        ins_model(l1, 0, e);
        VRT_COUNT("op.push_front");
        break;
    case K_PUSH_BACK:
        if ((e = take_free(key, cls[l1])) == NULL) return 0;
        vrt_state(Mn[l1] ? "nonempty" : "empty");
        VRT_OP3("slist.push_back", "l%ld e%ld(k%ld)", l1, e->id, key);
        cstl_slist_push_back(&L[l1], e);
        ins_model(l1, Mn[l1], e);
        VRT_COUNT("op.push_back");
        count_after(l1, kind);
        /* the appended element must be the true last right now */
        VRT_CHECK(cstl_slist_back(&L[l1]) == e, "slist.push_back.not-last",
                  "back() after push_back is not the pushed element (prev op %s)", kindname[lastkind[l1]]);
        break;
    case K_INS_AFTER:
        if (pos >= Mn[l1] || (e = take_free(key, cls[l1])) == NULL) return 0;
        vrt_state(pos == Mn[l1] - 1 ? "after-last" : "inner");
        VRT_OP4("slist.insert_after", "l%ld after#%ld e%ld(k%ld)", l1, pos, e->id, key);
        cstl_slist_insert_after(&L[l1], M[l1][pos], e);
        ins_model(l1, pos + 1, e);
        VRT_COUNT("op.insert_after");
        if (pos + 2 == Mn[l1]) VRT_COUNT("op.insert_after.last");
        break;
    case K_ERASE_AFTER:
        if (pos + 1 >= Mn[l1]) return 0;
        vrt_state(pos + 2 == Mn[l1] ? "erases-last" : "inner");
        VRT_OP2("slist.erase_after", "l%ld after#%ld", l1, pos);
        r = cstl_slist_erase_after(&L[l1], M[l1][pos]);
        VRT_CHECK(r == M[l1][pos + 1], "slist.erase_after.ret", "erase_after returned %p, expected successor %p",
                  (void *)r, (void *)M[l1][pos + 1]);
        if (pos + 2 == Mn[l1]) VRT_COUNT("op.erase_after.last");
        del_model(l1, pos + 1);
        VRT_COUNT("op.erase_after");
        break;
    case K_POP_FRONT:
        vrt_state(Mn[l1] == 0 ? "empty" : Mn[l1] == 1 ? "to-empty" : "nonempty");
        VRT_OP1("slist.pop_front", "l%ld", l1);
        r = cstl_slist_pop_front(&L[l1]);
        if (Mn[l1] == 0) {
            VRT_CHECK(r == NULL, "slist.pop_front.empty-not-null", "pop_front on empty list returned %p", (void *)r);
            VRT_COUNT("op.pop_front.empty");
        } else {
            VRT_CHECK(r == M[l1][0], "slist.pop_front.ret", "pop_front returned %p, expected first %p",
                      (void *)r, (void *)M[l1][0]);
            del_model(l1, 0);
            VRT_COUNT("op.pop_front");
        }
        break;
    case K_REVERSE:
        vrt_state(Mn[l1] <= 1 ? "short" : "nonempty");
        VRT_OP1("slist.reverse", "l%ld", l1);
        cstl_slist_reverse(&L[l1]);
        for (i = 0; i < Mn[l1] / 2; i++) {
            e = M[l1][i]; M[l1][i] = M[l1][Mn[l1] - 1 - i]; M[l1][Mn[l1] - 1 - i] = e;
        }
        VRT_COUNT("op.reverse");
        break;
    case K_SORT: {
        /* ordered permutation required; stability is not */
        struct walkp w = { l1, 0, -1, 0, 0 };
        static struct elem *got[MAXE];
        static int gotn;
        const struct cstl_slist_node *n;
        vrt_state(Mn[l1] <= 1 ? "short" : "nonempty");
        VRT_OP2("slist.sort", "l%ld %ld(0 ascending, 1 descending)", l1, key & 1);
        cstl_slist_sort(&L[l1], cmp_key, &sortdir[key & 1]);
        if (key & 1) VRT_COUNT("op.sort.descending");
        (void)w;
        /* read the new order through the links, bounded by the reference length */
        gotn = 0;
        for (n = L[l1].h.n; n != NULL && gotn <= Mn[l1]; n = n->n)
            got[gotn++] = (struct elem *)((char *)n - OFF(cls[l1]));
        VRT_CHECK(gotn == Mn[l1], "slist.sort.length", "sort changed the number of linked elements: %d vs %d", gotn, Mn[l1]);
        for (i = 0; i < gotn; i++) {
            VRT_CHECK(got[i]->magic == MAGIC && got[i]->where[cls[l1]] == l1, "slist.sort.foreign-element",
                      "element at %d after sort is not a member", i);
            VRT_CHECK(i == 0 || ((key & 1) ? got[i - 1]->key >= got[i]->key : got[i - 1]->key <= got[i]->key), "slist.sort.unordered",
                      "keys out of order at %d (%s sort)", i, (key & 1) ? "descending" : "ascending");
            got[i]->where[cls[l1]] = -2;         /* mark seen: detects duplicates */
        }
        for (i = 0; i < gotn; i++) got[i]->where[cls[l1]] = l1;
        for (i = 0; i < Mn[l1]; i++) M[l1][i] = got[i];
        VRT_COUNT("op.sort");
        break;
    }
    case K_CONCAT:
        if (l2 >= nlists || l1 == l2) return 0;
        vrt_state(Mn[l2] == 0 ? "src-empty" : Mn[l1] == 0 ? "dst-empty" : "both");
        VRT_OP2("slist.concat", "l%ld += l%ld", l1, l2);
        cstl_slist_concat(&L[l1], &L[l2]);
        if (cls[l1] != cls[l2]) {
            /* lists of different node offsets cannot be concatenated: the call changes nothing */
            VRT_COUNT("op.concat.different-offsets-refused");
        } else {
            for (i = 0; i < Mn[l2]; i++) { M[l1][Mn[l1] + i] = M[l2][i]; M[l2][i]->where[cls[l1]] = l1; }
            Mn[l1] += Mn[l2]; Mn[l2] = 0;
        }
        lastkind[l2] = kind;
        VRT_COUNT("op.concat");
        break;
    case K_SWAP: {
        static struct elem *tmp[MAXE];
        int tn;
        if (l2 >= nlists || l1 == l2) return 0;
        vrt_state(Mn[l1] == 0 || Mn[l2] == 0 ? "one-empty" : "both");
        VRT_OP2("slist.swap", "l%ld <-> l%ld", l1, l2);
        cstl_slist_swap(&L[l1], &L[l2]);
        tn = Mn[l1];
        memcpy(tmp, M[l1], tn * sizeof(tmp[0]));
        memcpy(M[l1], M[l2], Mn[l2] * sizeof(tmp[0]));
        memcpy(M[l2], tmp, tn * sizeof(tmp[0]));
        Mn[l1] = Mn[l2]; Mn[l2] = tn;
        /* the list objects trade everything, including the node offset they use */
        if (cls[l1] != cls[l2]) { int c = cls[l1]; cls[l1] = cls[l2]; cls[l2] = c; VRT_COUNT("op.swap.different-offsets"); }
        for (i = 0; i < Mn[l1]; i++) M[l1][i]->where[cls[l1]] = l1;
        for (i = 0; i < Mn[l2]; i++) M[l2][i]->where[cls[l2]] = l2;
        lastkind[l2] = kind;
        VRT_COUNT("op.swap");
        break;
    }
    case K_FOREACH: {
        struct walkp w = { l1, 0, -1, 0, 0 };
        int rr, stop = pos == NOSTOP ? -1 : pos == POS_LAST ? Mn[l1] - 1 : pos;
        const int re = key == 1;        /* the visitor reads the list it is shown, and another one */
        if (stop >= Mn[l1] || key > 1 || (pos == POS_LAST && (!re || Mn[l1] < 3))) return 0;
        w.stop_at = stop; w.stop_val = vrt_stop_value((unsigned)stop * 31u + 5u * vrt_case_tick());    /* any non-zero value stops */
        vrt_state(re ? (stop < 0 ? "visitor-reads-the-lists" : "visitor-reads-the-lists-and-stops") : stop < 0 ? "plain" : "early-stop");
        VRT_OP3("slist.foreach", "l%ld stop@%ld visitor-reads-lists=%ld", l1, stop, re);
        rr = cstl_slist_foreach(&L[l1], re ? nest_cb : visit_cb, &w);
        VRT_CHECK(w.bad == 0, re ? "slist.foreach.reentrant.order" : "slist.foreach.order", "foreach visited a wrong element (or went on after the stop) at index %d", w.bad - 1);
        if (stop < 0) {
            VRT_CHECK(rr == 0 && w.n == Mn[l1], re ? "slist.foreach.reentrant.incomplete" : "slist.foreach.full", "foreach returned %d after %d of %d", rr, w.n, Mn[l1]);
        } else {
            VRT_CHECK(rr == w.stop_val, re ? "slist.foreach.reentrant.stop-value" : "slist.foreach.stop-value", "foreach returned %d, visitor asked %d", rr, w.stop_val);
            VRT_CHECK(w.n == stop + 1, re ? "slist.foreach.reentrant.incomplete" : "slist.foreach.continued", "foreach made %d visits, stop requested at %d", w.n, stop);
            VRT_COUNT("op.foreach.early-stop");
        }
        if (re && Mn[l1] >= 2) {
            VRT_COUNT("op.foreach.reentrant");
            if (stop >= 0) VRT_COUNT("op.foreach.reentrant.outer-stop");
        }
        VRT_COUNT("op.foreach");
        return 1;       /* not mutating: lastkind unchanged */
    }
    case K_CLEAR:
        vrt_state(Mn[l1] == 0 ? "empty" : "nonempty");
        VRT_OP1("slist.clear", "l%ld", l1);
        if (nest_on && Mn[l1] > 0) { sub_attach_some(l1); VRT_OP1("slist.clear", "l%ld", l1); }
        clear_list = l1; clear_seen = 0; outer_running = 1; inner_done = 0;
        if (vrt_case_tick() & 1) cstl_slist_clear(&L[l1], clear_cb); else VRT_NOMEM(cstl_slist_clear(&L[l1], clear_cb));     /* clear has no way to fail: also with an allocator that refuses everything */
        outer_running = 0;
        VRT_CHECK(clear_seen == Mn[l1], "slist.clear.count", "clear handed over %d of %d elements", clear_seen, Mn[l1]);
        VRT_CHECK(nsubs == 0, "slist.clear.nested.owner-not-handed-over", "%d elements that own a list were not handed to the clear callback", nsubs);
        if (inner_done) VRT_COUNT("op.clear.with-nested-clears");
        Mn[l1] = 0;
        VRT_COUNT("op.clear");
        break;
    default:
        return 0;
    }
    lastkind[l1] = kind;
    if (audit) audit_all();
    return 1;
}

static uint64_t st_sig(void)
{
    uint64_t h = 0x1234 + nlists;
    int l, i;
    for (l = 0; l < nlists; l++) {
        h = vrt_mix(h, 0xfff0 + Mn[l] + (cls[l] << 12));
        for (i = 0; i < Mn[l]; i++) h = vrt_mix(h, M[l][i]->key + 1);
    }
    return h;
}
static int st_nontrivial(void)
{
    int l, n = 0;
    for (l = 0; l < nlists; l++) n += Mn[l];
    return n >= 2;
}

/* probes (mode "clear", C15): clear every reachable state on a replica, then re-use */
static void st_probe(int pi)
{
    int l, i;
    (void)pi;
    for (l = 0; l < nlists; l++) {
        st_apply(OP(K_CLEAR, l, 0, 0, 0), 1);
    }
    /* fresh fill / drain under the model */
    for (i = 0; i < 3; i++) st_apply(OP(K_PUSH_BACK, 0, 0, i % nkeys, 0), 1);
    st_apply(OP(K_PUSH_FRONT, 0, 0, 0, 0), 1);
    st_apply(OP(K_POP_FRONT, 0, 0, 0, 0), 1);
    st_apply(OP(K_ERASE_AFTER, 0, 0, 0, 0), 1);
    st_apply(OP(K_CLEAR, 0, 0, 0, 0), 1);
    VRT_COUNT("probe.clear-then-reuse");
}

static struct vex model = { st_create, st_destroy, st_apply, st_sig, st_nontrivial, 0, NULL };

/* ---- closure scopes ---- */
struct cscope { int nl, nk, np, maxlen; uint64_t max_states; int max_depth; int mixed; };
static const struct cscope quick_scopes[] = {
    { 1, 1, 5, 5, 200000, 40 },         /* one list, lengths 0..5, structure only */
    { 1, 2, 5, 5, 200000, 40 },         /* + two key values (sort) */
    { 2, 1, 5, 5, 200000, 40 },         /* two lists: concat/swap */
    { 2, 2, 4, 4, 200000, 40 },
    { 3, 1, 4, 4, 200000, 40 },
    { 2, 1, 4, 4, 200000, 40, 1 },      /* two lists linking through different nodes of the same elements */
    { 3, 2, 3, 3, 200000, 40, 1 },
    { 1, 2, 6, 6, 200000, 40 },
    { 2, 2, 5, 5, 200000, 40 },
    { 1, 3, 5, 5, 200000, 40 },
    { 2, 2, 4, 4, 200000, 40, 1 },
};
static const struct cscope thorough_scopes[] = {
    { 1, 1, 6, 6, 2000000, 60 },
    { 1, 3, 6, 6, 2000000, 60 },
    { 2, 2, 6, 6, 2000000, 60 },
    { 3, 2, 5, 5, 2000000, 60 },
    { 3, 1, 6, 6, 2000000, 60 },
    { 2, 3, 5, 5, 2000000, 60 },
    { 2, 2, 5, 5, 2000000, 60, 1 },
    { 3, 1, 5, 5, 2000000, 60, 1 },
};
static const struct cscope *scopes;
static int nscopes;
static int is_clear_mode;

static int build_alphabet(const struct cscope *s, uint32_t *al)
{
    int n = 0, l, l2, k, p;
    for (l = 0; l < s->nl; l++) {
        for (k = 0; k < s->nk; k++) {
            al[n++] = OP(K_PUSH_FRONT, l, 0, k, 0);
            al[n++] = OP(K_PUSH_BACK, l, 0, k, 0);
            for (p = 0; p < s->np; p++) al[n++] = OP(K_INS_AFTER, l, 0, k, p);
        }
        for (p = 0; p + 1 < s->np; p++) al[n++] = OP(K_ERASE_AFTER, l, 0, 0, p);
        al[n++] = OP(K_POP_FRONT, l, 0, 0, 0);
        al[n++] = OP(K_REVERSE, l, 0, 0, 0);
        al[n++] = OP(K_SORT, l, 0, 0, 0);
        al[n++] = OP(K_SORT, l, 0, 1, 0);
        al[n++] = OP(K_CLEAR, l, 0, 0, 0);
        al[n++] = OP(K_FOREACH, l, 0, 0, NOSTOP);
        for (p = 0; p < s->np; p++) al[n++] = OP(K_FOREACH, l, 0, 0, p);
        /* the visitor reads the same and another list; no outer stop, outer stop at the first, the second and the last visit */
        al[n++] = OP(K_FOREACH, l, 0, 1, NOSTOP);
        al[n++] = OP(K_FOREACH, l, 0, 1, 0);
        al[n++] = OP(K_FOREACH, l, 0, 1, 1);
        al[n++] = OP(K_FOREACH, l, 0, 1, POS_LAST);
        for (l2 = 0; l2 < s->nl; l2++) if (l2 != l) {
            al[n++] = OP(K_CONCAT, l, l2, 0, 0);
            if (l < l2) al[n++] = OP(K_SWAP, l, l2, 0, 0);
        }
    }
    return n;
}

static void run_closure(int ci)
{
    const struct cscope *s = &scopes[ci];
    uint32_t al[512];
    int n = build_alphabet(s, al);
    struct vex_result r;
    vrt_case_note("closure nlists=%d keys=%d pool=%d alphabet=%d%s%s", s->nl, s->nk, s->np, n,
                  s->mixed ? " mixed-node-offsets" : "", is_clear_mode ? " +clear probe in every state" : "");
    model.nprobes = is_clear_mode ? 1 : 0;
    model.probe = st_probe;
    vex_closure(&model, SCOPE(s->nl, s->nk, s->np) | (s->mixed ? SCOPE_MIXED : 0) | ((ci & 1) ? SCOPE_MACRO : 0), al, n, s->max_states, s->max_depth, &r);
    VRT_COUNT_N("closure.states", r.states);
    VRT_COUNT_N("closure.transitions", r.transitions);
    VRT_COUNT_N("closure.replayed-ops", r.applied);
    VRT_COUNT_N("closure.probes", r.probes);
    VRT_MAX("max.closure.depth", r.maxdepth);
    if (r.closed) VRT_COUNT("closure.scopes-closed"); else VRT_COUNT("closure.scopes-capped");
}

/* ---- random histories ---- */
static void run_random(uint64_t idx)
{
    vrt_rng g;
    int nl, nk, np, nops, i, bias = 0;
    vrt_rng_seed(&g, vrt_seed, 0xC13000 + idx);
    nl = 1 + vrt_below(&g, 3);
    nk = 1 + vrt_below(&g, 6);
    np = (idx % 4 == 0) ? 400 + vrt_below(&g, 112) : 4 + vrt_below(&g, 40);
    nops = vrt_thorough ? 6000 : 1500;
    vrt_case_note("random nlists=%d keys=%d pool=%d ops=%d", nl, nk, np, nops);
    st_create(SCOPE(nl, nk, np) | (nl > 1 && idx % 3 == 1 ? SCOPE_MIXED : 0) | (idx % 2 ? SCOPE_MACRO : 0));
    for (i = 0; i < nops; i++) {
        uint32_t op;
        int l = vrt_below(&g, nl), l2 = vrt_below(&g, nl), k = vrt_below(&g, nk);
        int len = Mn[l], r = vrt_below(&g, 100);
        int audit = (i % 8) == 0 || np <= 16;
        if (i % 256 == 0) bias = vrt_below(&g, 3);        /* 0 balanced, 1 fill, 2 drain */
        if (bias == 1 && r >= 40 && r < 70) r = vrt_below(&g, 40);
        if (bias == 2 && r < 30) r = 40 + vrt_below(&g, 30);
        if (r < 8) op = OP(K_PUSH_FRONT, l, 0, k, 0);
        else if (r < 26) op = OP(K_PUSH_BACK, l, 0, k, 0);
        else if (r < 40) op = OP(K_INS_AFTER, l, 0, k, len ? (vrt_chance(&g, 1, 3) ? len - 1 : (int)vrt_below(&g, len)) : 0);
        else if (r < 55) op = OP(K_ERASE_AFTER, l, 0, 0, len > 1 ? (vrt_chance(&g, 1, 2) ? len - 2 : (int)vrt_below(&g, len - 1)) : 0);
        else if (r < 68) op = OP(K_POP_FRONT, l, 0, 0, 0);
        else if (r < 74) op = OP(K_REVERSE, l, 0, 0, 0);
        else if (r < 80) {
            /* the elements belong to the caller: a key may change while the element is linked; the next sort must see it */
            if (len > 0 && vrt_chance(&g, 1, 3)) {
                struct elem *x = M[l][vrt_below(&g, len)];
                x->key = (x->key + 1 + (nk > 1 ? (int)vrt_below(&g, nk - 1) : 0)) % nk;
                VRT_COUNT("op.key-changed-while-linked");
            }
            op = OP(K_SORT, l, 0, vrt_below(&g, 2), 0);
        }
        else if (r < 86) op = OP(K_CONCAT, l, l2, 0, 0);
        else if (r < 92) op = OP(K_SWAP, l, l2, 0, 0);
        else if (r < 98) {
            const int re = vrt_chance(&g, 1, 4);        /* the visitor reads the same and another list */
            op = OP(K_FOREACH, l, 0, re, (len && vrt_chance(&g, 1, 2)) ? (int)vrt_below(&g, len) : NOSTOP);
        }
        else op = OP(K_CLEAR, l, 0, 0, 0);
        if (st_apply(op, audit)) {
            /* follow with a push_back probe with probability 1/2 (C13 tail clause) */
            if (OP_KIND(op) != K_PUSH_BACK && OP_KIND(op) != K_FOREACH && vrt_chance(&g, 1, 2))
                st_apply(OP(K_PUSH_BACK, l, 0, vrt_below(&g, nk), 0), 1);
        }
    }
    audit_all();
    vrt_sig(0, vrt_mix(st_sig(), idx));
    /* drain through clear so that nothing is left linked */
    for (i = 0; i < nl; i++) st_apply(OP(K_CLEAR, i, 0, 0, 0), 1);
    st_destroy();
    VRT_COUNT("random.histories");
}

/* lists far longer than 2^16 elements: counters, sort and reverse must not depend on the length */
#define BIGL 70000
static void run_big(uint64_t which)
{
    struct belem { int key; int seq; struct cstl_slist_node n; } *E = vrt_alloc(sizeof(*E) * BIGL);
    struct cstl_slist a, b;
    vrt_rng g;
    size_t i, n;
    const struct cstl_slist_node *p;
    vrt_rng_seed(&g, vrt_seed, 0xC13B16 + which);
    vrt_case_note("big: %d elements, push_back/concat/sort/reverse/pop_front", BIGL);
    cstl_slist_init(&a, offsetof(struct belem, n)); cstl_slist_init(&b, offsetof(struct belem, n));
    VRT_OP1("slist.push_back", "%ld elements into two lists", BIGL);
    for (i = 0; i < BIGL; i++) {
        E[i].key = (int)vrt_below(&g, which ? 5 : 1000000); E[i].seq = (int)i;
        cstl_slist_push_back(i < BIGL / 2 ? &a : &b, &E[i]);
    }
    VRT_CHECK(cstl_slist_size(&a) + cstl_slist_size(&b) == BIGL, "slist.big.size", "sizes %zu + %zu", cstl_slist_size(&a), cstl_slist_size(&b));
    VRT_OP0("slist.concat", "two halves");
    cstl_slist_concat(&a, &b);
    VRT_CHECK(cstl_slist_size(&a) == BIGL && cstl_slist_size(&b) == 0, "slist.big.concat.size", "size %zu after concat", cstl_slist_size(&a));
    VRT_CHECK(cstl_slist_back(&a) == &E[BIGL - 1] && cstl_slist_front(&a) == &E[0], "slist.big.concat.ends", "front/back wrong after concat");
    for (p = a.h.n, n = 0; p != NULL; p = p->n, n++)
        VRT_CHECK(p == &E[n].n, "slist.big.concat.order", "element %zu out of place after concat", n);
    VRT_CHECK(n == BIGL, "slist.big.concat.length", "%zu elements linked", n);
    VRT_OP0("slist.sort", "big");
    cstl_slist_sort(&a, big_cmp, NULL);
    for (p = a.h.n, n = 0; p != NULL; p = p->n, n++) {
        const struct belem *x = (const struct belem *)((const char *)p - offsetof(struct belem, n));
        VRT_CHECK(x >= E && x < E + BIGL, "slist.big.sort.foreign", "foreign node after sort");
        if (p->n != NULL) {
            const struct belem *y = (const struct belem *)((const char *)p->n - offsetof(struct belem, n));
            VRT_CHECK(x->key <= y->key, "slist.big.sort.order", "keys out of order at %zu", n);
        }
    }
    VRT_CHECK(n == BIGL && cstl_slist_size(&a) == BIGL, "slist.big.sort.length", "%zu elements linked, size %zu", n, cstl_slist_size(&a));
    VRT_OP0("slist.reverse", "big");
    cstl_slist_reverse(&a);
    {
        int last = 0x7fffffff;
        void *e;
        n = 0;
        VRT_OP0("slist.pop_front", "drain");
        while ((e = cstl_slist_pop_front(&a)) != NULL) {
            const struct belem *x = e;
            VRT_CHECK(x->key <= last, "slist.big.reverse.order", "keys not descending after reverse at %zu", n);
            last = x->key; n++;
            VRT_CHECK(n <= BIGL, "slist.big.drain.overlong", "more elements popped than were pushed");
        }
        VRT_CHECK(n == BIGL && cstl_slist_size(&a) == 0, "slist.big.drain.count", "%zu elements popped", n);
    }
    /* the tail is still the true last: push_back on the drained list */
    cstl_slist_push_back(&a, &E[0]); cstl_slist_push_back(&a, &E[1]);
    VRT_CHECK(cstl_slist_back(&a) == &E[1] && cstl_slist_front(&a) == &E[0], "slist.big.reuse", "push_back after the drain landed in the wrong place");
    vrt_free(E);
    VRT_COUNT("big.cases");
    vrt_sig(0, 0xb16 + which);
}
/* ---- sort inputs with run structure ----
 * What a natural / bottom-up merge sort with a fixed-size stack of pending runs keys on: the number of maximal
 * ascending (or descending) runs, the sequence of their lengths, and whether the comparator's order agrees with
 * them.  A few cheap big lists per shape; the oracle is the one of K_SORT (ordered permutation of the same
 * elements, link chain and tail consistent, push_back lands behind the true last).  In every second case the
 * comparator now and then sorts ANOTHER (small) list with another comparison function and another priv: sorts of
 * distinct lists know nothing of each other. */
struct relem { int key; unsigned mark; uint64_t pad; struct cstl_slist_node n; };
struct selem { uint64_t pad[3]; struct cstl_slist_node n; int key; };
#define NSIDE 11
static struct selem SIDE[NSIDE];
static struct cstl_slist side_list;
static int side_tag;
static struct runs_ctx {
    int dir;                    /* +1 ascending, -1 descending */
    struct relem *E; size_t n;  /* the elements that may be compared */
    long budget;
    unsigned long calls, nested;
    int nest, in_nested;
} RC;
static struct relem **RORD;     /* order seen by the traversal */
static size_t RLn;              /* number of elements linked */

static int side_cmp(const void *a, const void *b, void *p)
{
    const struct selem *x = a, *y = b;
    VRT_CHECK(p == (void *)&side_tag, "slist.sort.nested.cmp-priv", "comparison function of the sort started inside a comparator called with wrong priv %p", p);
    VRT_CHECK(x >= SIDE && x < SIDE + NSIDE && y >= SIDE && y < SIDE + NSIDE, "slist.sort.nested.cmp-foreign-element",
              "comparison function of the sort started inside a comparator called with elements of another list");
    VRT_CHECK(RC.in_nested, "slist.sort.nested.cmp-after-return", "comparison function of the inner sort called after that sort had returned");
    return (x->key < y->key) - (x->key > y->key);       /* descending */
}
static void nested_sort(struct runs_ctx *c)
{
    const struct cstl_slist_node *q, *lastn = &side_list.h;
    int i, last = 0x7fffffff;
    for (i = 0; i < NSIDE; i++) SIDE[i].key = (int)((c->calls / 7 + (unsigned)i * 5u) % 13u);
    c->in_nested = 1;
    cstl_slist_sort(&side_list, side_cmp, &side_tag);
    c->in_nested = 0;
    for (q = side_list.h.n, i = 0; q != NULL && i <= NSIDE; q = q->n, i++) {
        const struct selem *x = (const struct selem *)((const char *)q - offsetof(struct selem, n));
        VRT_CHECK(x >= SIDE && x < SIDE + NSIDE, "slist.sort.nested.links", "foreign node in the list sorted inside a comparator");
        VRT_CHECK(x->key <= last, "slist.sort.nested.unordered", "list sorted inside a comparator is out of order at %d", i);
        last = x->key; lastn = q;
    }
    VRT_CHECK(i == NSIDE && q == NULL && cstl_slist_size(&side_list) == NSIDE, "slist.sort.nested.length", "list sorted inside a comparator has %d elements linked, size %zu", i, cstl_slist_size(&side_list));
    VRT_CHECK(side_list.t == lastn, "slist.sort.nested.tail-not-last", "tail of the list sorted inside a comparator is not its last node");
    c->nested++;
}
static int runs_is_elem(const void *e)
{
    const char *c = e, *b = (const char *)RC.E;
    return c >= b && c < b + RC.n * sizeof(struct relem) && (size_t)(c - b) % sizeof(struct relem) == 0;
}
static int runs_cmp(const void *a, const void *b, void *p)
{
    struct runs_ctx *c = &RC;
    const struct relem *x = a, *y = b;
    int r;
    VRT_CHECK(p == (void *)&RC, "slist.sort.cmp-priv", "comparison called with wrong priv %p", p);
    VRT_CHECK(!c->in_nested && runs_is_elem(a) && runs_is_elem(b), "slist.sort.cmp-non-element", "comparison called with a non-element");
    VRT_CHECK(c->budget-- > 0, "slist.sort.runaway", "sort made more than 64*n+64 comparisons");
    c->calls++;
    if (c->nest && (c->calls & 511) == 257) nested_sort(c);
    r = (x->key > y->key) - (x->key < y->key);
    if (c->dir < 0) r = -r;
    return (c->calls & 7) == 3 ? vrt_cmp_result(r, (unsigned)c->calls) : r * (int)(1 + c->calls % 997);
}
struct rwalk { size_t n; int bad, dir, last; unsigned stamp; };
static int runs_fwd_cb(void *e, void *p)
{
    struct rwalk *w = p;
    struct relem *x = e;
    if (w->n >= RLn) { w->bad = 1; return 91; }
    if (!runs_is_elem(e)) { w->bad = 2; return 92; }
    if (x->mark == w->stamp) { w->bad = 3; return 93; }
    x->mark = w->stamp;
    if (w->n > 0 && (w->dir > 0 ? x->key < w->last : x->key > w->last)) { w->bad = 4; return 94; }
    w->last = x->key;
    RORD[w->n++] = x;
    return 0;
}
static void runs_sort_and_check(struct cstl_slist *a, int dir, unsigned stamp)
{
    struct rwalk w;
    const struct cstl_slist_node *q, *lastn = &a->h;
    size_t n;
    int r;
    RC.dir = dir; RC.budget = 64L * (long)RLn + 64; RC.in_nested = 0;
    vrt_state(dir > 0 ? "runs-ascending-order" : "runs-descending-order");
    VRT_OP2("slist.sort", "%ld elements with run structure, direction %ld", RLn, dir);
    cstl_slist_sort(a, runs_cmp, &RC);
    VRT_CHECK(cstl_slist_size(a) == RLn, "slist.sort.runs.size", "size %zu after sort of %zu elements", cstl_slist_size(a), RLn);
    memset(&w, 0, sizeof(w)); w.dir = dir; w.stamp = stamp;
    r = cstl_slist_foreach(a, runs_fwd_cb, &w);
    VRT_CHECK(w.bad != 1, "slist.sort.runs.overlong", "traversal after sort yields more than the %zu elements that were in the list", RLn);
    VRT_CHECK(w.bad != 2, "slist.sort.runs.foreign-element", "element at %zu after sort was not in the list", w.n);
    VRT_CHECK(w.bad != 3, "slist.sort.runs.not-a-permutation", "element at %zu after sort appears twice", w.n);
    VRT_CHECK(w.bad != 4, "slist.sort.runs.unordered", "keys out of order at %zu of %zu (%s sort)", w.n, RLn, dir > 0 ? "ascending" : "descending");
    VRT_CHECK(w.n == RLn && r == 0, "slist.sort.runs.length", "sort changed the number of linked elements: %zu vs %zu", w.n, RLn);
    VRT_CHECK(cstl_slist_front(a) == (void *)RORD[0], "slist.sort.runs.front", "front after sort is not the first of the traversal");
    VRT_CHECK(cstl_slist_back(a) == (void *)RORD[RLn - 1], "slist.sort.runs.back", "back after sort is not the last of the traversal");
    /* white-box extra: the chain and the tail */
    for (q = a->h.n, n = 0; q != NULL && n < RLn; q = q->n, n++) {
        VRT_CHECK(q == &RORD[n]->n, "slist.walker.runs.chain", "node %zu of the chain after sort is not the one the traversal showed", n);
        lastn = q;
    }
    VRT_CHECK(q == NULL && n == RLn, "slist.walker.runs.length", "link chain does not end after %zu nodes", RLn);
    VRT_CHECK(a->t == lastn, "slist.walker.tail-not-last", "tail pointer is not the last node after sort (len %zu)", RLn);
}

enum { RS_DECR, RS_INCR, RS_EQUAL, RS_LONG_ONES, RS_ONES_LONG, RS_SAW, RS_ORGAN, RS_RANDOM, RS_GEOM, RS_FIB };
struct rshape { int shape, param; size_t n; };
static const struct rshape run_shapes[] = {
    { RS_DECR, 40, 0 }, { RS_DECR, 72, 0 }, { RS_DECR, 100, 0 }, { RS_DECR, 150, 0 },  /* run lengths k, k-1, ..., 1 */
    { RS_INCR, 40, 0 }, { RS_INCR, 72, 0 }, { RS_INCR, 100, 0 }, { RS_INCR, 150, 0 },  /* 1, 2, ..., k */
    { RS_EQUAL, 2, 4000 }, { RS_EQUAL, 3, 6000 }, { RS_EQUAL, 5, 20000 },
    { RS_LONG_ONES, 0, 3000 }, { RS_ONES_LONG, 0, 3000 },                              /* one long run, many of length 1 */
    { RS_SAW, 7, 5000 }, { RS_SAW, 100, 20000 }, { RS_ORGAN, 0, 4001 },
    { RS_RANDOM, 3, 0 }, { RS_RANDOM, 8, 0 }, { RS_RANDOM, 300, 0 },                   /* random lengths 1..param */
    { RS_GEOM, 0, 14 }, { RS_GEOM, 1, 14 }, { RS_FIB, 0, 20 }, { RS_FIB, 1, 20 },      /* 2^14, 2^13, ..., 1 / Fibonacci lengths; 1: shortest first */
#define NRS_QUICK 23
    { RS_DECR, 632, 0 }, { RS_INCR, 632, 0 }, { RS_EQUAL, 2, 200000 }, { RS_EQUAL, 5, 200000 },
    { RS_LONG_ONES, 0, 200000 }, { RS_ONES_LONG, 0, 200000 }, { RS_RANDOM, 64, 200000 }, { RS_SAW, 3, 200000 },
};
#define NRS_ALL ((int)(sizeof(run_shapes) / sizeof(run_shapes[0])))
static const char *const rs_name[] = { "decreasing-lengths", "increasing-lengths", "equal-lengths", "long-then-ones", "ones-then-long",
                                       "sawtooth", "organ-pipe", "random-lengths", "halving-lengths", "fibonacci-lengths" };

/* the keys of one maximal non-descending run (dup: steps 0..2 instead of 1), starting below the end of the previous one */
struct rgen { vrt_rng *g; int *key; size_t n, cap; int have, last, dup; size_t runs; };
static void emit_run(struct rgen *G, size_t len)
{
    int k = (int)vrt_below(G->g, 1000);
    if (len == 0 || G->n >= G->cap) return;
    if (G->have && k >= G->last) k = G->last - 1 - (int)vrt_below(G->g, 3);
    while (len-- > 0 && G->n < G->cap) {
        G->key[G->n++] = k;
        G->last = k;
        k += G->dup ? (int)vrt_below(G->g, 3) : 1;
    }
    G->have = 1; G->runs++;
}
static size_t runs_total(const struct rshape *s, vrt_rng *g)
{
    size_t f0 = 1, f1 = 1, t = 0;
    int i;
    switch (s->shape) {
    case RS_DECR: case RS_INCR: return (size_t)s->param * (s->param + 1) / 2;
    case RS_GEOM: return ((size_t)2 << s->n) - 1;
    case RS_FIB: for (i = 0; i < (int)s->n; i++) { size_t f = f0 + f1; t += f0; f0 = f1; f1 = f; } return t;
    case RS_RANDOM: return s->n ? s->n : 2000 + vrt_below(g, 18000);
    default: return s->n;
    }
}
static void runs_keys(const struct rshape *s, struct rgen *G)
{
    size_t i, fib[64];
    switch (s->shape) {
    case RS_DECR: for (i = s->param; i >= 1; i--) emit_run(G, i); break;
    case RS_INCR: for (i = 1; i <= (size_t)s->param; i++) emit_run(G, i); break;
    case RS_EQUAL: while (G->n < G->cap) emit_run(G, s->param); break;
    case RS_LONG_ONES: emit_run(G, G->cap / 2); while (G->n < G->cap) emit_run(G, 1); break;
    case RS_ONES_LONG: while (G->n < G->cap / 2) emit_run(G, 1); emit_run(G, G->cap - G->n); break;
    case RS_SAW: for (i = 0; i < G->cap; i++) G->key[G->n++] = (int)(i % (size_t)s->param); G->runs = G->cap / s->param; break;
    case RS_ORGAN: for (i = 0; i < G->cap; i++) G->key[G->n++] = (int)(i < G->cap / 2 ? i : G->cap - 1 - i); G->runs = G->cap / 2; break;
    case RS_RANDOM: while (G->n < G->cap) emit_run(G, 1 + vrt_below(G->g, s->param)); break;
    case RS_GEOM:
        for (i = 0; i <= s->n; i++) emit_run(G, (size_t)1 << (s->param ? i : s->n - i));
        break;
    case RS_FIB:
        fib[0] = fib[1] = 1;
        for (i = 2; i < s->n; i++) fib[i] = fib[i - 1] + fib[i - 2];
        for (i = 0; i < s->n; i++) emit_run(G, fib[s->param ? i : s->n - 1 - i]);
        break;
    }
}
static void run_runs(uint64_t which)
{
    const int nshapes = vrt_thorough ? NRS_ALL : NRS_QUICK;
    const struct rshape *s = &run_shapes[which % nshapes];
    const int v = (int)(which / nshapes);           /* 0..3: runs ascending/descending x comparator ascending/descending */
    const int mirror = v & 1, dir = (v & 2) ? -1 : 1;
    struct cstl_slist a;
    struct rgen G;
    struct relem *E;
    vrt_rng g;
    size_t i, n;
    int *key;

    vrt_rng_seed(&g, vrt_seed, 0xC13A00 + which);
    n = runs_total(s, &g);
    key = vrt_alloc(sizeof(*key) * n);
    memset(&G, 0, sizeof(G));
    G.g = &g; G.key = key; G.cap = n; G.dup = (int)vrt_below(&g, 2);
    runs_keys(s, &G);
    n = G.n;
    E = vrt_alloc(sizeof(*E) * (n + 1));            /* one spare element for the push_back probe */
    RORD = vrt_alloc(sizeof(*RORD) * (n + 1));
    memset(E, 0x5e, sizeof(*E) * (n + 1));
    memset(&RC, 0, sizeof(RC));
    RC.E = E; RC.n = n + 1; RC.nest = (int)((which + v) & 1);
    vrt_case_note("sort of %zu elements in %zu %s runs: %s (param %d), comparator %s%s", n, G.runs, mirror ? "descending" : "ascending",
                  rs_name[s->shape], s->param, dir > 0 ? "ascending" : "descending", RC.nest ? ", comparator sorts another list now and then" : "");
    memset(&side_list, 0x77, sizeof(side_list));
    cstl_slist_init(&side_list, offsetof(struct selem, n));
    for (i = 0; i < NSIDE; i++) { SIDE[i].key = (int)i; cstl_slist_push_back(&side_list, &SIDE[i]); }
    memset(&a, 0x77, sizeof(a));
    cstl_slist_init(&a, offsetof(struct relem, n));
    VRT_OP1("slist.push_back", "%ld elements", n);
    for (i = 0; i < n; i++) {
        E[i].key = mirror ? -key[i] : key[i]; E[i].mark = 0;
        if (which & 4) cstl_slist_push_back(&a, &E[i]);
    }
    if (!(which & 4)) for (i = n; i-- > 0; ) cstl_slist_push_front(&a, &E[i]);
    RLn = n;
    runs_sort_and_check(&a, dir, 1);
    /* push_back right after sort appends behind the true last (the C13 tail clause) */
    E[n].key = (int)vrt_below(&g, 1000) - 500; E[n].mark = 0;
    VRT_OP0("slist.push_back", "probe after the sort of a list with run structure");
    cstl_slist_push_back(&a, &E[n]);
    VRT_CHECK(cstl_slist_back(&a) == (void *)&E[n] && RORD[n - 1]->n.n == &E[n].n && E[n].n.n == NULL && cstl_slist_size(&a) == n + 1,
              "slist.push_back.not-last", "push_back after sort did not append behind the last element (prev op sort, %zu elements)", n);
    RLn = n + 1;
    /* the result is one single run against the order asked for next, plus one element */
    runs_sort_and_check(&a, -dir, 2);
    VRT_COUNT_N("sort.comparator-sorted-another-list", RC.nested);
    VRT_COUNT("sort.runs.cases");
    if (G.runs > 64) VRT_COUNT("sort.runs.more-than-64-runs");
    if (G.runs > 1024) VRT_COUNT("sort.runs.more-than-1024-runs");
    if (mirror) VRT_COUNT("sort.runs.descending-runs"); else VRT_COUNT("sort.runs.ascending-runs");
    if ((dir > 0) == !mirror) VRT_COUNT("sort.runs.comparator-agrees-with-runs"); else VRT_COUNT("sort.runs.comparator-against-runs");
    VRT_MAX("max.sort.runs.elements", n);
    vrt_sig(0, vrt_mix(vrt_mix(0x5045 + which, n), G.runs));
    vrt_free(RORD); RORD = NULL;
    vrt_free(E);
    vrt_free(key);
}
static uint64_t nruns(void) { return 4 * (uint64_t)(vrt_thorough ? NRS_ALL : NRS_QUICK); }
#define NBIG 2
static uint64_t nrandom(void)
{
    if (is_clear_mode) return vrt_thorough ? 2000 : 200;
    return vrt_thorough ? 200000 : 60000;
}
static uint64_t ncases(void)
{
    is_clear_mode = strcmp(vrt_mode, "clear") == 0;
    nest_on = is_clear_mode;
    if (vrt_thorough) { scopes = thorough_scopes; nscopes = sizeof(thorough_scopes) / sizeof(scopes[0]); }
    else { scopes = quick_scopes; nscopes = sizeof(quick_scopes) / sizeof(scopes[0]); }
    return nscopes + (is_clear_mode ? 0 : NBIG + nruns()) + nrandom();
}
static void run_case(uint64_t idx)
{
    const uint64_t nb = is_clear_mode ? 0 : NBIG, nr = is_clear_mode ? 0 : nruns();
    /* none of these containers ever needs memory: every second case runs with an allocator that refuses everything */
    if (idx & 1) { vrt_fp_arm(NULL, 0, 1); VRT_COUNT("nomem.cases"); }
    if (idx < (uint64_t)nscopes) run_closure((int)idx);
    else if (idx < nscopes + nb) run_big(idx - nscopes);
    else if (idx < nscopes + nb + nr) run_runs(idx - nscopes - nb);
    else run_random(idx - nscopes - nb - nr);
    vrt_fp_disarm();
}
static void winit(void)
{
    vrt_sig_name(0, "list-states");
    (void)ncases();
}

/* the names up to "sort.runs.cases" are observations every mode makes; the rest belong to the cases that mode "clear" (C15) leaves out */
static const char *required_clear[64];
static const char *const required[] = {
    "op.push_back", "op.erase_after.last", "op.pop_front.empty", "op.reverse", "op.sort",
    "op.concat", "op.swap", "op.clear", "closure.states", "random.histories",
    "op.foreach.reentrant", "op.foreach.reentrant.outer-stop", "foreach.reentrant.inner-early-stop",
    "foreach.reentrant.inner-full-walk.same-list", "foreach.reentrant.inner-full-walk.other-list",
    /* from here on: not in mode "clear" */
    "sort.runs.cases", "sort.runs.more-than-64-runs", "sort.runs.more-than-1024-runs", "sort.runs.ascending-runs", "sort.runs.descending-runs",
    "sort.runs.comparator-agrees-with-runs", "sort.runs.comparator-against-runs", "sort.comparator-sorted-another-list", NULL
};
/* mode "clear" only: a clear inside a clear */
static const char *const required_nested[] = {
    "nested.attached", "clear.nested.handed-over", "clear.nested.lists-cleared", "clear.nested.overwrite-verified",
    "clear.nested.first-element-owns-a-list", "clear.nested.last-element-owns-a-list", "clear.nested.inner-element-owns-a-list",
    "clear.nested.several-owners", "clear.nested.owners-and-plain-elements", "clear.nested.outer-went-on-after-inner-clear",
    "op.clear.with-nested-clears", NULL
};
static const struct vrt_harness H = { "slist", ncases, run_case, winit, NULL, required, 16 };
static struct vrt_harness H_clear;

int main(int argc, char **argv)
{
    int i;
    /* mode "clear" has no sort-with-run-structure cases: it must not be asked for their counters */
    for (i = 1; i + 1 < argc; i++) if (!strcmp(argv[i], "--mode") && !strcmp(argv[i + 1], "clear")) {
        int k;
        for (k = 0; k < 63 && required[k] && strcmp(required[k], "sort.runs.cases"); k++) required_clear[k] = required[k];
        for (i = 0; required_nested[i]; i++) required_clear[k++] = required_nested[i];
        required_clear[k] = NULL;
        H_clear = H; H_clear.required = required_clear;
        return vrt_main(argc, argv, &H_clear);
    }
    return vrt_main(argc, argv, &H);
}
