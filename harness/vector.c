/*
 * C09 -- a vector never reports size or capacity it has no storage for.
 *
 * cases: [0, NMATRIX)        systematic matrix: one mini-run per
 *                            (element size, xtor mode, start state, size variant, op, argument class, failpoint)
 *        [.., +NSWAPCELLS)   swap cells: two differently initialised vectors (element size x element size x
 *                            start state x start state x xtor pairing), swapped and used afterwards; once both
 *                            are cleared they are swapped again (nothing but the configuration to exchange), used,
 *                            brought to capacity 0 with a buffer, swapped, used
 *                            (constructor and destructor are chosen independently: none, two functions, one-sided,
 *                            ONE function in both roles, the same function on both vectors with different priv)
 *        [.., ...)           seeded random histories over 1-2 vectors (independent element size / xtor mode)
 *
 * Oracle (after every call, audit_all): size == model, cap >= size, data() is a
 * live library block with room for (cap+1)*elem bytes (128-bit), in-range bytes
 * equal the model image, at()/at_const() return data+i*elem for i < size and
 * abort for i >= size (incl. indices whose i*elem wraps), every in-range element
 * is rewritten and read back through at(), live library blocks == vectors that
 * have a buffer.  Op-specific: reserve/resize satisfiable vs not (allocator cap
 * 64 MiB, unrepresentable byte counts, failpoints), constructor/destructor slot
 * state machine, clear releases the buffer.
 */
#include "vrt.h"
#include "cstl/vector.h"
#include <string.h>
#include <stdio.h>

typedef unsigned __int128 u128;

#define MAXN      4096          /* largest element count that is ever really constructed */
#define MAXSCRIB  (32u << 10)  /* spare capacity is scribbled over up to this many bytes */
#define NES 8
static const size_t ESZ[NES] = { 1, 2, 3, 4, 8, 16, 24, 64 };

/* constructor/destructor configurations.  A vector registers none, one or two of the two hook functions below
 * (hook_a, hook_b); which role a hook plays is a property of the VECTOR, not of the function:
 *   cons+dest   hook_a constructs, hook_b destroys        same-fn    hook_a is constructor AND destructor
 *   cons-only   hook_a                                    reversed   hook_b constructs, hook_a destroys
 *   dest-only   hook_b
 * so the same function serves different vectors (different priv) in the same or in opposite roles. */
enum { X_NONE, X_BOTH, X_CONS, X_DEST, X_SAME, X_REV, NX };
#define NXM 5                   /* modes of the systematic matrix (X_REV: swap cells and histories only) */
static const char *const xname[NX] = { "plain", "cons+dest", "cons-only", "dest-only", "cons==dest(same function)",
                                       "cons+dest(roles reversed)" };
static const unsigned char xcons[NX] = { 0, 1, 1, 0, 1, 2 };   /* 0 none, 1 hook_a, 2 hook_b */
static const unsigned char xdest[NX] = { 0, 2, 0, 2, 1, 1 };

/* argument classes (requested sizes and at() indices) */
enum {
    A_ZERO, A_ONE, A_INRANGE, A_SIZE_M1, A_SIZE, A_SIZE_P1, A_CAP, A_CAP_P1, A_SMALL, A_HUNDREDS,
    A_BIGOK, A_ATCAP, A_OVERCAP1, A_OVERCAP, A_MAXDIV_M1, A_MAXDIV, A_MAXDIV_P1, A_WRAP,
    A_P62, A_P63, A_MAX_M1, A_MAX, NA
};
static const char *const aname[NA] = {
    "0", "1", "in-range", "size-1", "size", "size+1", "cap", "cap+1", "small", "hundreds",
    "big-satisfiable", "largest-below-alloc-cap", "first-above-alloc-cap", "above-alloc-cap",
    "SIZE_MAX_div_elem-1", "SIZE_MAX_div_elem", "SIZE_MAX_div_elem+1", "bytes-wrap-to-small",
    "2pow62", "2pow63", "SIZE_MAX-1", "SIZE_MAX"
};

enum { K_RESIZE, K_RESERVE, K_AT, K_AT_CONST, K_SHRINK, K_CLEAR, K_SWAP, K_SORT, K_REVERSE, NK };
static const char *const kname[NK] = {
    "resize", "reserve", "at", "at_const", "shrink_to_fit", "clear", "swap", "sort", "reverse"
};

/* ---- state ---- */
struct vm {
    size_t n;                   /* reference size */
    unsigned char *img;         /* byte image of [0,n) */
    size_t imgcap;              /* in elements */
    unsigned char *live;        /* per-slot state: 0 dead, 1 live */
    size_t livecap;
    uint64_t serial;            /* content generator */
    size_t es;                  /* element size this (logical) vector was initialised with */
    int xmode;                  /* and its constructor/destructor mode; priv is the address of this struct */
};
static struct cstl_vector V[2];
static struct vm MOD[2];
static struct vm *mod[2];       /* mod[i] is the reference of V[i] (swap exchanges them) */
/* parameters of the vector currently operated on / audited (loaded from its reference by use_mod):
 * swap exchanges whole objects, so element size, xtor mode and priv travel with the contents */
static size_t es;
static int xmode, has_cons, has_dest;
static int nvec, keyspace;
static size_t live0;
static int after_bare_swap[2];  /* V[i] was swapped while neither vector had storage and has not been grown since */
static void use_mod(const struct vm *m)
{
    es = m->es; xmode = m->xmode;
    has_cons = xcons[xmode] != 0;
    has_dest = xdest[xmode] != 0;
}

/* context of the call in flight (violation keys, callbacks) */
static const char *cur_op = "none";
static const char *cur_state = "none";
enum { CB_NONE, CB_CONS, CB_DEST };
static struct cstl_vector *cb_vec;
static struct vm *cb_mod;
static int cb_kind;
static size_t cb_lo, cb_hi, cb_calls;

static const char *mkkey(const char *oracle)
{
    static char k[160];
    snprintf(k, sizeof(k), "vector.%s.%s.%s", oracle, cur_op, cur_state);
    return k;
}
#define CHK(cond, oracle, ...) do { if (!(cond)) vrt_fail(mkkey(oracle), __VA_ARGS__); } while (0)

static const char *state_class(int vi)
{
    const struct cstl_vector *v = &V[vi];
    if (cstl_vector_data((struct cstl_vector *)v) == NULL) return "fresh";
    if (mod[vi]->n == 0) return "empty";
    if (cstl_vector_capacity(v) == mod[vi]->n) return "full";
    return "slack";
}
static int state_index(const char *s)
{
    return s[0] == 'f' ? (s[1] == 'r' ? 0 : 2) : s[0] == 'e' ? 1 : 3;
}

static void count_opcls(int kind, int cls)
{
    static int ids[4][NA];
    static int init;
    if (!init) {
        int k, a;
        for (k = 0; k < 4; k++) for (a = 0; a < NA; a++) ids[k][a] = -1;
        init = 1;
    }
    if (ids[kind][cls] < 0) {
        char nm[64];
        snprintf(nm, sizeof(nm), "op.%s.arg.%s", kname[kind], aname[cls]);
        ids[kind][cls] = vrt_counter_id(nm);
    }
    vrt_ctr[ids[kind][cls]]++;
}
static void note_sig(int kind, int cls)
{
    uint64_t h = vrt_mix(vrt_mix(vrt_mix(vrt_mix(0xC09, es), kind), cls + 1), state_index(cur_state));
    vrt_sig(0, h);
    vrt_sig(1, vrt_mix(h, xmode + 17));
}

static void gen_bytes(unsigned char *dst, struct vm *m)
{
    uint64_t tag = m->serial++, x;
    size_t j;
    if (keyspace) tag = vrt_mix(0x5eed, tag) % (uint64_t)keyspace;
    x = vrt_mix(0x76656374, tag);
    for (j = 0; j < es; j++) {
        if (j % 8 == 0 && j) x = vrt_mix(x, j);
        dst[j] = (unsigned char)(x >> (8 * (j % 8)));
    }
}

static void need_model(struct vm *m, size_t n)
{
    if (n > m->imgcap) {
        size_t nc = n + n / 2 + 8;
        unsigned char *p = vrt_alloc(nc * es);
        if (m->n) memcpy(p, m->img, m->n * es);
        vrt_free(m->img);
        m->img = p; m->imgcap = nc;
    }
    if (n > m->livecap) {
        size_t nc = n + n / 2 + 8;
        unsigned char *p = vrt_zalloc(nc);
        if (m->livecap) memcpy(p, m->live, m->livecap);
        vrt_free(m->live);
        m->live = p; m->livecap = nc;
    }
}

/* ---- constructor / destructor monitors ---- */
static size_t slot_index(void *slot, const char *what)
{
    unsigned char *d = cstl_vector_data(cb_vec);
    uintptr_t off;
    CHK(d != NULL && (uintptr_t)slot >= (uintptr_t)d, what, "callback slot %p is below data() %p", slot, (void *)d);
    off = (uintptr_t)slot - (uintptr_t)d;
    CHK(off % es == 0, what, "callback slot %p is not data()+i*%zu (offset %zu)", slot, es, (size_t)off);
    return (size_t)(off / es);
}
static void cons_cb(void *slot, void *priv)
{
    size_t i;
    CHK(cb_kind == CB_CONS, "ctor.unexpected", "constructor called where no element enters [0,size)");
    CHK(priv == (void *)cb_mod, "ctor.priv", "constructor called with priv %p", priv);
    i = slot_index(slot, "ctor.slot-address");
    CHK(i >= cb_lo && i < cb_hi, "ctor.slot-out-of-range",
        "constructor called for slot %zu, entering range is [%zu,%zu)", i, cb_lo, cb_hi);
    CHK(cb_mod->live[i] == 0, "ctor.twice", "constructor called for slot %zu which is already live", i);
    cb_mod->live[i] = 1;
    gen_bytes(cb_mod->img + i * es, cb_mod);
    memcpy(slot, cb_mod->img + i * es, es);
    cb_calls++;
    VRT_COUNT("xtor.constructor-calls");
}
static void dest_cb(void *slot, void *priv)
{
    size_t i;
    CHK(cb_kind == CB_DEST, "dtor.unexpected", "destructor called where no element leaves [0,size)");
    CHK(priv == (void *)cb_mod, "dtor.priv", "destructor called with priv %p", priv);
    i = slot_index(slot, "dtor.slot-address");
    CHK(i >= cb_lo && i < cb_hi, "dtor.slot-out-of-range",
        "destructor called for slot %zu, leaving range is [%zu,%zu)", i, cb_lo, cb_hi);
    CHK(cb_mod->live[i] == 1, "dtor.twice", "destructor called for slot %zu which is not live", i);
    CHK(memcmp(slot, cb_mod->img + i * es, es) == 0, "dtor.bytes",
        "element %zu handed to the destructor does not hold the bytes it was given", i);
    cb_mod->live[i] = 0;
    memset(slot, 0xdd, es);
    cb_calls++;
    VRT_COUNT("xtor.destructor-calls");
}
/* the functions the library gets.  The role of a call follows from the configuration of the vector operated on;
 * where one function is registered in both roles it follows from the slot: a call on a slot entering [0,size) is
 * a construction, on a slot leaving it a destruction, anything else is a violation (cons_cb/dest_cb check the slot
 * against the entering/leaving range and its dead/live state). */
static void hook(int f, void *slot, void *priv)
{
    const int is_c = cb_mod != NULL && xcons[cb_mod->xmode] == f, is_d = cb_mod != NULL && xdest[cb_mod->xmode] == f;
    CHK(is_c || is_d, "xtor.foreign-function",
        "a function that is neither constructor nor destructor of the vector operated on was called (slot %p priv %p)",
        slot, priv);
    if (is_c && is_d) {
        CHK(cb_kind != CB_NONE, "xtor.unexpected",
            "constructor/destructor (one function) called where no element enters or leaves [0,size)");
        if (cb_kind == CB_CONS) { cons_cb(slot, priv); VRT_COUNT("xtor.same-function.constructions"); }
        else { dest_cb(slot, priv); VRT_COUNT("xtor.same-function.destructions"); }
    } else if (is_c) {
        cons_cb(slot, priv);
        if (f == 2) VRT_COUNT("xtor.reversed-roles.constructions");
    } else {
        dest_cb(slot, priv);
        if (f == 1) VRT_COUNT("xtor.reversed-roles.destructions");
    }
}
static void hook_a(void *slot, void *priv) { hook(1, slot, priv); }
static void hook_b(void *slot, void *priv) { hook(2, slot, priv); }
static cstl_xtor_func_t *const hookfn[3] = { NULL, hook_a, hook_b };

static void cb_expect(int vi, int kind, size_t lo, size_t hi)
{
    cb_vec = &V[vi]; cb_mod = mod[vi]; cb_kind = kind; cb_lo = lo; cb_hi = hi; cb_calls = 0;
}

/* ---- at / at_const with abort capture ---- */
static void *volatile at_ret;
static int call_at(struct cstl_vector *v, size_t i, int cnst)
{
    int ab;
    at_ret = NULL;
    if (cnst) ab = VRT_ABORTS(at_ret = (void *)cstl_vector_at_const(v, i));
    else ab = VRT_ABORTS(at_ret = cstl_vector_at(v, i));
    return ab;
}
static void must_abort(struct cstl_vector *v, size_t i, size_t n)
{
    int c;
    if (i < n) return;
    for (c = 0; c < 2; c++) {
        int ab = call_at(v, i, c);
        VRT_COUNT("abort.at.expected");
        CHK(ab, c ? "at_const.out-of-range-returned" : "at.out-of-range-returned",
            "at(0x%zx) with size %zu returned %p instead of aborting", i, n, at_ret);
        VRT_COUNT("abort.at.observed");
    }
}

/* ---- the audit ---- */
static void audit_vec(int vi, size_t known, const char *bytes_oracle)
{
    struct cstl_vector *v = &V[vi];
    struct vm *m = mod[vi];
    const size_t n = cstl_vector_size(v), cap = cstl_vector_capacity(v);
    unsigned char *d = cstl_vector_data(v);
    size_t i, bsz = 0;

    use_mod(m);
    VRT_COUNT("op.size"); VRT_COUNT("op.capacity"); VRT_COUNT("op.data");
    CHK(n == m->n, "size", "size() is %zu, reference %zu", n, m->n);
    CHK(cap >= n, "cap-below-size", "capacity %zu < size %zu", cap, n);
    if (d == NULL) {
        CHK(cap == 0, "storage.null", "data() is NULL but capacity is %zu (size %zu)", cap, n);
    } else {
        unsigned char *base = vrt_lib_block(d, &bsz);
        u128 need = ((u128)cap + 1) * es, avail;
        CHK(base != NULL, "storage.not-live", "data() %p is not inside a live library block (size %zu cap %zu)",
            (void *)d, n, cap);
        avail = bsz - (size_t)(d - base);
        CHK(need <= avail, "storage.too-small",
            "capacity 0x%zx needs (cap+1)*%zu = 0x%zx%016zx bytes, the block data() points at has %zu",
            cap, es, (size_t)(need >> 64), (size_t)need, (size_t)avail);
        for (i = 0; i < (size_t)nvec; i++)
            CHK((int)i == vi || cstl_vector_data(&V[i]) != d, "storage.shared-block",
                "two vectors report the same buffer %p", (void *)d);
    }
    if (known > n) known = n;
    /* in-range: address, no abort, bytes */
    for (i = 0; i < n; i++) {
        int ab = call_at(v, i, 0);
        CHK(!ab, "at.in-range-aborted", "at(%zu) aborted with size %zu", i, n);
        CHK(at_ret == (void *)(d + i * es), "at.address", "at(%zu) returned %p, data()+i*elem is %p", i, at_ret,
            (void *)(d + i * es));
        ab = call_at(v, i, 1);
        CHK(!ab, "at_const.in-range-aborted", "at_const(%zu) aborted with size %zu", i, n);
        CHK(at_ret == (void *)(d + i * es), "at_const.address", "at_const(%zu) returned %p, data()+i*elem is %p",
            i, at_ret, (void *)(d + i * es));
        if (i < known)
            CHK(memcmp(at_ret, m->img + i * es, es) == 0, bytes_oracle,
                "element %zu of %zu does not hold the bytes the reference has (elem %zu)", i, n, es);
        if (has_cons || has_dest)
            CHK(m->live[i] == 1, "xtor.in-range-slot-dead", "slot %zu is in range but was never constructed", i);
    }
    /* write every element through at(), read back through at_const() */
    for (i = 0; i < n; i++) {
        int ab = call_at(v, i, 0);
        CHK(!ab, "at.in-range-aborted", "at(%zu) aborted with size %zu", i, n);
        gen_bytes(m->img + i * es, m);
        memcpy(at_ret, m->img + i * es, es);
    }
    for (i = 0; i < n; i++) {
        int ab = call_at(v, i, 1);
        CHK(!ab, "at_const.in-range-aborted", "at_const(%zu) aborted with size %zu", i, n);
        CHK(memcmp(at_ret, m->img + i * es, es) == 0, "bytes.readback", "element %zu reads back differently", i);
    }
    VRT_COUNT_N("audit.elements-written-and-read-back", n);
    /* spare capacity and the scratch slot are the caller's to scribble on */
    if (d != NULL && cap - n < MAXSCRIB && (cap + 1 - n) * es <= MAXSCRIB) {
        memset(d + n * es, 0xee, (cap + 1 - n) * es);
        VRT_COUNT_N("audit.spare-bytes-scribbled", (cap + 1 - n) * es);
    }
    /* out of range: must abort */
    must_abort(v, n, n);
    must_abort(v, n + 1, n);
    must_abort(v, cap, n);
    must_abort(v, cap + 1, n);
    must_abort(v, SIZE_MAX, n);
    must_abort(v, SIZE_MAX - 1, n);
    must_abort(v, (size_t)1 << 63, n);
    must_abort(v, (size_t)1 << 62, n);
    if (es > 1) {
        /* i*elem wraps to an offset inside the buffer */
        size_t w = SIZE_MAX / es + 1;
        must_abort(v, w, n);
        must_abort(v, w + n / 2, n);
        must_abort(v, w + (n ? n - 1 : 0), n);
        must_abort(v, w - 1, n);
        VRT_COUNT("at.wrapping-index-probes");
    }
    VRT_COUNT("audit.vector");
}
static void audit_all(int vi_known, size_t known, const char *bytes_oracle)
{
    int i;
    size_t bufs = 0;
    for (i = 0; i < nvec; i++) {
        if (i == vi_known) audit_vec(i, known, bytes_oracle);
        else audit_vec(i, mod[i]->n, "bytes.changed-in-other-vector");
        if (cstl_vector_data(&V[i]) != NULL) bufs++;
    }
    CHK(vrt_lib_live() == live0 + bufs, "alloc.block-count",
        "%zu live library blocks, but %zu vectors have a buffer", vrt_lib_live() - live0, bufs);
}

/* the library's randomised quicksort draws pivots from rand(): make the draws a function of the case */
static vrt_rng rand_rng;
int rand(void) { return (int)(vrt_next(&rand_rng) >> 33); }

/* ---- setup ---- */
typedef struct { char b[3]; } el3_t;
typedef struct { char b[16]; } el16_t;
typedef struct { char b[24]; } el24_t;
typedef struct { char b[64]; } el64_t;
static void init_by_macro(struct cstl_vector *v, size_t esz)
{
    switch (esz) {
    case 1: { DECLARE_CSTL_VECTOR(t, char); *v = t; break; }
    case 2: { DECLARE_CSTL_VECTOR(t, uint16_t); *v = t; break; }
    case 3: { DECLARE_CSTL_VECTOR(t, el3_t); *v = t; break; }
    case 4: { DECLARE_CSTL_VECTOR(t, uint32_t); *v = t; break; }
    case 8: { DECLARE_CSTL_VECTOR(t, uint64_t); *v = t; break; }
    case 16: { DECLARE_CSTL_VECTOR(t, el16_t); *v = t; break; }
    case 24: { DECLARE_CSTL_VECTOR(t, el24_t); *v = t; break; }
    default: { DECLARE_CSTL_VECTOR(t, el64_t); *v = t; break; }
    }
    VRT_COUNT("init.DECLARE_CSTL_VECTOR");
}

static void st_create2(size_t es0, int xm0, size_t es1, int xm1, int nv, int ks)
{
    int i;
    nvec = nv; keyspace = ks;
    after_bare_swap[0] = after_bare_swap[1] = 0;
    live0 = vrt_lib_live();
    vrt_rng_seed(&rand_rng, 0x72616e64, (es0 * 64 + xm0 * 8 + nv) * 1024 + es1 * 4 + xm1);
    for (i = 0; i < nv; i++) {
        memset(&MOD[i], 0, sizeof(MOD[i]));
        mod[i] = &MOD[i];
        MOD[i].es = i ? es1 : es0; MOD[i].xmode = i ? xm1 : xm0;
        use_mod(mod[i]);
        need_model(mod[i], 8);
        memset(&V[i], 0x5a, sizeof(V[i]));
        if (xmode == X_NONE && i == 0 && ks == 0) init_by_macro(&V[i], es);
        else if (xmode == X_NONE && i == 0) { cstl_vector_init(&V[i], es); VRT_COUNT("init.cstl_vector_init"); }
        else {
            cstl_vector_init_complex(&V[i], es, hookfn[xcons[xmode]], hookfn[xdest[xmode]], &MOD[i]);
            VRT_COUNT("init.cstl_vector_init_complex");
            if (xmode == X_SAME) VRT_COUNT("init.constructor-and-destructor-same-function");
        }
    }
    cur_op = "init"; cur_state = "fresh";
}
static void st_create(size_t esz, int xm, int nv, int ks) { st_create2(esz, xm, esz, xm, nv, ks); }
static void st_destroy(void)
{
    int i;
    for (i = 0; i < nvec; i++) {
        vrt_free(MOD[i].img); vrt_free(MOD[i].live);
        MOD[i].img = MOD[i].live = NULL;
    }
}

/* allocator events of the call just made */
static void scan_events(int *refused, int *failed, int *genuine)
{
    int i, n = vrt_ev_n();
    *refused = (int)vrt_ev_refused();
    *failed = 0;
    /* failed although below the cap and no failpoint fired: the real allocator ran out of memory */
    *genuine = 0;
    for (i = 0; i < n && i < VRT_EV_MAX; i++) {
        const struct vrt_aev *e = vrt_ev(i);
        if (e->kind == 'r') {
            VRT_COUNT("alloc.realloc-calls");
            if (e->failed) {
                (*failed)++; VRT_COUNT("alloc.realloc-refused");
                if (e->sz <= vrt_alloc_cap && vrt_ev_fired() == 0) { (*genuine)++; VRT_COUNT("alloc.genuine-out-of-memory"); }
            }
            else if (e->p != NULL && e->q != NULL && e->q != e->p) VRT_COUNT("alloc.realloc-moved-the-block");
            else if (e->p != NULL && e->q == e->p) VRT_COUNT("alloc.realloc-in-place");
            else if (e->p == NULL) VRT_COUNT("alloc.realloc-first-buffer");
        }
    }
}

/* value of an argument class in the current state; 0 = class has no value here */
static int arg_value(int cls, int vi, vrt_rng *g, int hundreds_ok, size_t *out)
{
    const size_t n = mod[vi]->n, cap = cstl_vector_capacity(&V[vi]);
    const size_t lim = vrt_alloc_cap / mod[vi]->es;     /* (lim)*es <= alloc cap < (lim+1)*es */
    const size_t md = SIZE_MAX / mod[vi]->es;
    use_mod(mod[vi]);
    switch (cls) {
    case A_ZERO: *out = 0; return 1;
    case A_ONE: *out = 1; return 1;
    case A_INRANGE: if (n < 3) return 0; *out = 1 + vrt_below(g, (uint32_t)(n - 2)); return 1;
    case A_SIZE_M1: if (n == 0) return 0; *out = n - 1; return 1;
    case A_SIZE: *out = n; return 1;
    case A_SIZE_P1: *out = n + 1; return 1;
    case A_CAP: *out = cap; return 1;
    case A_CAP_P1: *out = cap + 1; return 1;
    case A_SMALL: *out = 2 + vrt_below(g, 38); return 1;
    case A_HUNDREDS: if (!hundreds_ok) return 0; *out = 100 + vrt_below(g, vrt_chance(g, 1, 4) ? 3900 : 500); return 1;
    case A_BIGOK: *out = ((size_t)(64u << 10) + vrt_below(g, 960u << 10)) / es; return 1;
    case A_ATCAP: *out = lim - 1; return 1;
    case A_OVERCAP1: *out = lim; return 1;
    case A_OVERCAP: *out = lim + 1 + ((size_t)vrt_next(g) >> (24 + vrt_below(g, 30))); return 1;
    case A_MAXDIV_M1: *out = md - 1; return 1;
    case A_MAXDIV: *out = md; return 1;
    case A_MAXDIV_P1: if (es == 1) return 0; *out = md + 1; return 1;
    case A_WRAP: {
        /* (sz+1)*elem wraps to the byte size of a buffer for 1 .. cap+3 elements */
        size_t k;
        if (es == 1) return 0;
        k = vrt_chance(g, 1, 3) ? n : vrt_chance(g, 1, 2) ? cap + 1 : vrt_below(g, (uint32_t)(cap < 4000 ? cap + 3 : 4000));
        *out = md + k;
        return 1;
    }
    case A_P62: *out = (size_t)1 << 62; return 1;
    case A_P63: *out = (size_t)1 << 63; return 1;
    case A_MAX_M1: *out = SIZE_MAX - 1; return 1;
    case A_MAX: *out = SIZE_MAX; return 1;
    }
    return 0;
}

static void begin_op(int kind, int vi, int cls)
{
    use_mod(mod[vi]);
    cur_op = kname[kind];
    cur_state = state_class(vi);
    vrt_state(cur_state);
    if (cls >= 0) { count_opcls(kind, cls); note_sig(kind, cls); }
    else note_sig(kind, NA);
}

/* ---- operations ---- */
static int op_reserve(int vi, size_t req, int cls, int fp)
{
    struct cstl_vector *v = &V[vi];
    const size_t n0 = mod[vi]->n, cap0 = cstl_vector_capacity(v);
    void *const d0 = cstl_vector_data(v);
    const u128 need = ((u128)req + 1) * mod[vi]->es;
    int sat = req <= cap0 || (!fp && need <= vrt_alloc_cap);
    int ab, refused, failed, genuine;
    size_t cap1;

    begin_op(K_RESERVE, vi, cls);
    VRT_OP3("vector.reserve", "v%ld reserve(0x%lx) all-allocations-fail=%ld", vi, req, fp);
    cb_expect(vi, CB_NONE, 0, 0);
    vrt_ev_begin();
    if (fp) vrt_fp_arm(NULL, 0, 1);
    ab = VRT_ABORTS(cstl_vector_reserve(v, req));
    vrt_fp_disarm();
    scan_events(&refused, &failed, &genuine);
    if (genuine) sat = req <= cap0;
    CHK(!ab, "reserve.aborted", "reserve(0x%zx) called abort() (cap was %zu)", req, cap0);
    cap1 = cstl_vector_capacity(v);
    if (fp) VRT_COUNT("op.reserve.with-failpoint");
    if (sat) {
        VRT_COUNT("reserve.satisfiable");
        CHK(cap1 >= req, "reserve.satisfiable-not-grown",
            "reserve(%zu) below the allocator cap left capacity %zu (was %zu)", req, cap1, cap0);
        if (cap1 > cap0) VRT_COUNT("reserve.grew"); else VRT_COUNT("reserve.noop.capacity-already-enough");
    } else {
        VRT_COUNT("reserve.unsatisfiable");
        CHK(cap1 == cap0 && cstl_vector_data(v) == d0 && cstl_vector_size(v) == n0, "reserve.unsatisfiable-changed-state",
            "reserve(0x%zx) cannot be satisfied but size/cap/data went %zu/0x%zx/%p -> %zu/0x%zx/%p", req,
            n0, cap0, d0, cstl_vector_size(v), cap1, cstl_vector_data(v));
        if (need > (u128)SIZE_MAX) VRT_COUNT("reserve.noop.byte-count-unrepresentable");
        else if (fp && need <= vrt_alloc_cap) VRT_COUNT("reserve.noop.failpoint");
        else VRT_COUNT("reserve.noop.allocator-cap-refused");
        if (failed) VRT_COUNT("reserve.noop.after-refused-allocator-call");
        else VRT_COUNT("reserve.noop.without-allocator-call");
    }
    audit_all(vi, n0, "bytes.changed");
    return 1;
}

static int op_resize(int vi, size_t req, int cls, int fp)
{
    struct cstl_vector *v = &V[vi];
    struct vm *m = mod[vi];
    const size_t n0 = m->n, cap0 = cstl_vector_capacity(v);
    void *const d0 = cstl_vector_data(v);
    const u128 need = ((u128)req + 1) * mod[vi]->es;
    volatile int sat = req <= cap0 || (!fp && need <= vrt_alloc_cap);
    int ab, refused, failed, genuine;
    size_t known, i;

    if (sat && req > MAXN) return 0;    /* keep real sizes small */
    begin_op(K_RESIZE, vi, cls);
    VRT_OP3("vector.resize", "v%ld resize(0x%lx) all-allocations-fail=%ld", vi, req, fp);
    if (sat) {
        need_model(m, req);
        if (req > n0) cb_expect(vi, has_cons ? CB_CONS : CB_NONE, n0, req);
        else if (req < n0) cb_expect(vi, has_dest ? CB_DEST : CB_NONE, req, n0);
        else cb_expect(vi, CB_NONE, 0, 0);
    } else {
        cb_expect(vi, CB_NONE, 0, 0);
    }
    vrt_ev_begin();
    if (fp) vrt_fp_arm(NULL, 0, 1);
    ab = VRT_ABORTS(cstl_vector_resize(v, req));
    vrt_fp_disarm();
    scan_events(&refused, &failed, &genuine);
    if (genuine) sat = req <= cap0;
    if (fp) VRT_COUNT("op.resize.with-failpoint");
    if (sat) {
        VRT_COUNT("resize.satisfiable");
        CHK(!ab, "resize.satisfiable-aborted", "resize(%zu) aborted although the growth can be satisfied (size %zu cap %zu)",
            req, n0, cap0);
        if (req > n0) {
            VRT_COUNT("resize.grow");
            if (xmode == X_SAME) VRT_COUNT("resize.grow.same-function-is-cons-and-dest");
            if (has_dest && !has_cons) VRT_COUNT("resize.grow.destructor-only-vector");
            if (after_bare_swap[vi]) { after_bare_swap[vi] = 0; VRT_COUNT("swap.both-without-storage.then-grown"); }
            if (has_cons)
                CHK(cb_calls == req - n0, "ctor.count", "resize %zu -> %zu made %zu constructor calls", n0, req, cb_calls);
            else
                for (i = n0; i < req; i++) m->live[i] = 1;
            known = has_cons ? req : n0;
        } else {
            if (req < n0) VRT_COUNT("resize.shrink"); else VRT_COUNT("resize.same-size");
            if (req < n0 && xmode == X_SAME) VRT_COUNT("resize.shrink.same-function-is-cons-and-dest");
            if (req < n0 && has_cons && !has_dest) VRT_COUNT("resize.shrink.constructor-only-vector");
            if (has_dest)
                CHK(cb_calls == n0 - req, "dtor.count", "resize %zu -> %zu made %zu destructor calls", n0, req, cb_calls);
            else
                for (i = req; i < n0; i++) m->live[i] = 0;
            known = req;
        }
        m->n = req;
        CHK(cstl_vector_size(v) == req, "resize.size", "size() is %zu after resize(%zu)", cstl_vector_size(v), req);
        audit_all(vi, known, "bytes.changed");
    } else {
        VRT_COUNT("abort.resize.expected");
        CHK(ab, "resize.unsatisfiable-returned",
            "resize(0x%zx) cannot be satisfied (needs 0x%zx%016zx bytes) but returned: size %zu cap 0x%zx", req,
            (size_t)(need >> 64), (size_t)need, cstl_vector_size(v), cstl_vector_capacity(v));
        VRT_COUNT("abort.resize.observed");
        if (need > (u128)SIZE_MAX) VRT_COUNT("abort.resize.byte-count-unrepresentable");
        else if (fp && need <= vrt_alloc_cap) VRT_COUNT("abort.resize.failpoint");
        else VRT_COUNT("abort.resize.allocator-cap-refused");
        CHK(cb_calls == 0, "resize.abort-after-xtor", "aborting resize made %zu constructor/destructor calls", cb_calls);
        CHK(cstl_vector_size(v) == n0 && cstl_vector_capacity(v) == cap0 && cstl_vector_data(v) == d0,
            "resize.abort-changed-state", "aborted resize(0x%zx) changed size/cap/data %zu/0x%zx/%p -> %zu/0x%zx/%p", req,
            n0, cap0, d0, cstl_vector_size(v), cstl_vector_capacity(v), cstl_vector_data(v));
        audit_all(vi, n0, "bytes.changed");
        VRT_COUNT("abort.resize.reaudited-after-abort");
    }
    return 1;
}

static int op_at(int vi, size_t idx, int cls, int cnst)
{
    struct cstl_vector *v = &V[vi];
    const size_t n = mod[vi]->n;
    unsigned char *d = cstl_vector_data(v);
    int ab;
    begin_op(cnst ? K_AT_CONST : K_AT, vi, cls);
    if (cnst) VRT_OP2("vector.at_const", "v%ld at_const(0x%lx)", vi, idx);
    else VRT_OP2("vector.at", "v%ld at(0x%lx)", vi, idx);
    ab = call_at(v, idx, cnst);
    if (idx >= n) {
        VRT_COUNT("abort.at.expected");
        CHK(ab, "out-of-range-returned", "index 0x%zx with size %zu returned %p instead of aborting", idx, n, at_ret);
        VRT_COUNT("abort.at.observed");
    } else {
        CHK(!ab, "in-range-aborted", "index %zu aborted with size %zu", idx, n);
        CHK(at_ret == (void *)(d + idx * es), "address", "index %zu returned %p, data()+i*elem is %p", idx, at_ret,
            (void *)(d + idx * es));
        CHK(memcmp(at_ret, mod[vi]->img + idx * es, es) == 0, "bytes", "element %zu differs from the reference", idx);
        VRT_COUNT("at.in-range-calls");
    }
    return 1;
}

static int op_shrink(int vi, int fp)
{
    struct cstl_vector *v = &V[vi];
    const size_t n0 = mod[vi]->n, cap0 = cstl_vector_capacity(v);
    int refused, failed, genuine;
    begin_op(K_SHRINK, vi, -1);
    VRT_OP2("vector.shrink_to_fit", "v%ld shrink_to_fit all-allocations-fail=%ld", vi, fp);
    cb_expect(vi, CB_NONE, 0, 0);
    vrt_ev_begin();
    if (fp) vrt_fp_arm(NULL, 0, 1);
    cstl_vector_shrink_to_fit(v);
    vrt_fp_disarm();
    scan_events(&refused, &failed, &genuine);
    VRT_COUNT("op.shrink_to_fit");
    if (fp) VRT_COUNT("op.shrink_to_fit.with-failpoint");
    if (cap0 > n0) VRT_COUNT("shrink.with-slack");
    if (cstl_vector_capacity(v) < cap0) VRT_COUNT("shrink.capacity-reduced");
    if (cstl_vector_capacity(v) == n0 && cap0 > n0) VRT_COUNT("shrink.to-exactly-size");
    audit_all(vi, n0, "bytes.changed");
    return 1;
}

static int op_clear(int vi)
{
    struct cstl_vector *v = &V[vi];
    struct vm *m = mod[vi];
    const size_t n0 = m->n, l0 = vrt_lib_live();
    void *const d0 = cstl_vector_data(v);
    size_t i;
    begin_op(K_CLEAR, vi, -1);
    VRT_OP1("vector.clear", "v%ld clear", vi);
    cb_expect(vi, has_dest && n0 ? CB_DEST : CB_NONE, 0, n0);
    cstl_vector_clear(v);
    VRT_COUNT("op.clear");
    if (n0 && xmode == X_SAME) VRT_COUNT("clear.non-empty.same-function-is-cons-and-dest");
    if (n0 && has_cons && !has_dest) VRT_COUNT("clear.non-empty.constructor-only-vector");
    if (has_dest) CHK(cb_calls == n0, "dtor.count", "clear of %zu elements made %zu destructor calls", n0, cb_calls);
    else for (i = 0; i < n0; i++) m->live[i] = 0;
    m->n = 0;
    CHK(cstl_vector_size(v) == 0, "clear.size", "size() is %zu after clear", cstl_vector_size(v));
    if (d0 != NULL) {
        CHK(vrt_lib_live() == l0 - 1, "clear.buffer-not-released",
            "clear left %zu live library blocks, %zu before (the vector had a buffer)", vrt_lib_live(), l0);
        VRT_COUNT("clear.released-the-buffer");
    } else {
        CHK(vrt_lib_live() == l0, "clear.block-count", "clear of a never-allocated vector changed the live block count");
        VRT_COUNT("clear.never-allocated");
    }
    audit_all(vi, 0, "bytes.changed");
    return 1;
}

static int op_swap(int first)
{
    /* the whole object is exchanged: element size, constructor, destructor, priv, buffer, size, capacity.
     * The references change places with it (priv is the address of the reference, so it follows). */
    struct vm *t;
    const char *s0, *s1;
    uint64_t h;
    size_t cap0, cap1;
    int bare;
    if (nvec < 2) return 0;
    s0 = state_class(0); s1 = state_class(1);
    cap0 = cstl_vector_capacity(&V[0]); cap1 = cstl_vector_capacity(&V[1]);
    bare = cstl_vector_data(&V[0]) == NULL && cstl_vector_data(&V[1]) == NULL;
    begin_op(K_SWAP, 0, -1);
    h = vrt_mix(vrt_mix(vrt_mix(vrt_mix(vrt_mix(0xC095, mod[0]->es), mod[1]->es), state_index(s0)), state_index(s1)), first);
    vrt_sig(0, h);
    vrt_sig(1, vrt_mix(vrt_mix(h, mod[0]->xmode), mod[1]->xmode + 8));
    VRT_OP4("vector.swap", "swap(v%ld, v%ld)  [elem %ld <-> elem %ld]", first, 1 - first, mod[first]->es, mod[1 - first]->es);
    cb_expect(0, CB_NONE, 0, 0);
    cstl_vector_swap(&V[first], &V[1 - first]);
    VRT_COUNT("op.swap");
    if (mod[0]->n != mod[1]->n) VRT_COUNT("swap.different-sizes");
    if (mod[0]->es != mod[1]->es) VRT_COUNT("swap.different-element-sizes");
    if (mod[0]->xmode != mod[1]->xmode) VRT_COUNT("swap.different-xtor-modes");
    if (s0[1] == 'r' || s1[1] == 'r') VRT_COUNT("swap.with-never-allocated-vector");
    if (s0 != s1) VRT_COUNT("swap.different-state-classes");
    if (mod[0]->xmode == X_SAME || mod[1]->xmode == X_SAME) VRT_COUNT("swap.with-same-function-vector");
    if (xcons[mod[0]->xmode] && (xcons[mod[0]->xmode] == xcons[mod[1]->xmode] || xcons[mod[0]->xmode] == xdest[mod[1]->xmode]))
        VRT_COUNT("swap.one-function-registered-with-both-vectors");
    if (bare || (cap0 | cap1) == 0) {
        /* nothing to exchange but the configuration (element size, constructor, destructor, priv) */
        const int differ = mod[0]->es != mod[1]->es || mod[0]->xmode != mod[1]->xmode;
        if (bare) {
            VRT_COUNT("swap.both-without-storage");
            if (differ) VRT_COUNT("swap.both-without-storage.differently-configured");
            if (mod[0]->serial || mod[1]->serial) VRT_COUNT("swap.both-without-storage.after-clear");
            after_bare_swap[0] = after_bare_swap[1] = 1;
        } else {
            VRT_COUNT("swap.both-capacity-zero-with-a-buffer");
            if (differ) VRT_COUNT("swap.both-capacity-zero-with-a-buffer.differently-configured");
        }
    }
    t = mod[0]; mod[0] = mod[1]; mod[1] = t;
    audit_all(0, mod[0]->n, "swap.bytes");
    return 1;
}

/* comparison: byte strings; arguments must lie in [data, data+(cap+1)*elem) */
static unsigned char *cmp_lo, *cmp_hi;
static int cmp_token;
static int cmp_bytes(const void *a, const void *b, void *p)
{
    CHK(p == (void *)&cmp_token, "sort.cmp-priv", "comparison called with priv %p", p);
    CHK((unsigned char *)a >= cmp_lo && (unsigned char *)a + es <= cmp_hi
        && (unsigned char *)b >= cmp_lo && (unsigned char *)b + es <= cmp_hi, "sort.cmp-outside-buffer",
        "comparison called with %p / %p outside the vector's buffer", a, b);
    VRT_COUNT("sort.comparisons");
    {
        const int r = memcmp(a, b, es);
        return vrt_cmp_result((r > 0) - (r < 0), (unsigned)(*(const unsigned char *)a * 7 + *(const unsigned char *)b));
    }
}
static void model_sort(struct vm *m)
{
    /* shell sort on es-byte records (no libc qsort: it may call malloc) */
    unsigned char t[64];
    size_t gap, i, j, n = m->n;
    for (gap = n / 2; gap > 0; gap = gap == 2 ? 1 : gap * 5 / 11) {
        for (i = gap; i < n; i++) {
            memcpy(t, m->img + i * es, es);
            for (j = i; j >= gap && memcmp(m->img + (j - gap) * es, t, es) > 0; j -= gap)
                memcpy(m->img + j * es, m->img + (j - gap) * es, es);
            memcpy(m->img + j * es, t, es);
        }
    }
}
static int op_sort(int vi, int algo)
{
    struct cstl_vector *v = &V[vi];
    struct vm *m = mod[vi];
    static const cstl_sort_algorithm_t al[4] = {
        CSTL_SORT_ALGORITHM_QUICK, CSTL_SORT_ALGORITHM_QUICK_R, CSTL_SORT_ALGORITHM_QUICK_M, CSTL_SORT_ALGORITHM_HEAP
    };
    begin_op(K_SORT, vi, -1);
    VRT_OP2("vector.sort", "v%ld sort (algorithm %ld; 4 = cstl_vector_sort default)", vi, algo);
    cb_expect(vi, CB_NONE, 0, 0);
    cmp_lo = cstl_vector_data(v);
    cmp_hi = cmp_lo ? cmp_lo + (cstl_vector_capacity(v) + 1) * es : NULL;
    if (algo >= 4) cstl_vector_sort(v, cmp_bytes, &cmp_token);
    else __cstl_vector_sort(v, cmp_bytes, &cmp_token, cstl_swap, al[algo]);
    model_sort(m);
    VRT_COUNT("op.sort");
    if (m->n >= 2) VRT_COUNT("sort.two-or-more-elements");
    if (m->n && cstl_vector_capacity(v) == m->n) VRT_COUNT("sort.scratch-slot-right-after-last-element");
    audit_all(vi, m->n, "sort.not-the-sorted-permutation");
    return 1;
}
static int op_reverse(int vi)
{
    struct cstl_vector *v = &V[vi];
    struct vm *m = mod[vi];
    unsigned char t[64];
    size_t i;
    begin_op(K_REVERSE, vi, -1);
    VRT_OP1("vector.reverse", "v%ld reverse", vi);
    cb_expect(vi, CB_NONE, 0, 0);
    cstl_vector_reverse(v);
    for (i = 0; i < m->n / 2; i++) {
        memcpy(t, m->img + i * es, es);
        memcpy(m->img + i * es, m->img + (m->n - 1 - i) * es, es);
        memcpy(m->img + (m->n - 1 - i) * es, t, es);
    }
    VRT_COUNT("op.reverse");
    if (m->n >= 2) VRT_COUNT("reverse.two-or-more-elements");
    if (m->n && cstl_vector_capacity(v) == m->n) VRT_COUNT("reverse.scratch-slot-right-after-last-element");
    audit_all(vi, m->n, "reverse.not-mirrored");
    return 1;
}

/* ---- systematic matrix ---- */
enum { S_FRESH, S_EMPTY, S_FULL, S_SLACK, NS };
static const char *const sname[NS] = { "fresh", "empty-with-buffer", "full(cap==size)", "slack(cap>size)" };
#define NMATRIX ((uint64_t)NES * NXM * NS * 2 * 2 * NA * 2)

static void run_matrix(uint64_t idx)
{
    vrt_rng g;
    int fp = idx % 2, cls, op, var, st, xm, e, applied;
    size_t base, req = 0;
    idx /= 2;
    cls = idx % NA; idx /= NA;
    op = idx % 2; idx /= 2;
    var = idx % 2; idx /= 2;
    st = idx % NS; idx /= NS;
    xm = idx % NXM; idx /= NXM;
    e = (int)idx;
    vrt_rng_seed(&g, vrt_seed, 0xC09A000 + (uint64_t)cls * 131 + e * 7 + st);
    base = var ? 150 + vrt_below(&g, 200) : 5 + vrt_below(&g, 6);
    vrt_case_note("matrix elem=%zu xtor=%s state=%s(n~%zu) op=%s arg=%s%s", ESZ[e], xname[xm], sname[st], base,
                  op ? "resize" : "reserve", aname[cls], fp ? " failpoint" : "");
    st_create(ESZ[e], xm, 1, var ? 0 : 3);
    switch (st) {
    case S_FRESH: break;
    case S_EMPTY: op_resize(0, base, A_SMALL, 0); op_resize(0, 0, A_ZERO, 0); break;
    case S_FULL: op_resize(0, base, A_SMALL, 0); op_shrink(0, 0); break;
    case S_SLACK: op_reserve(0, base + 1 + base / 2, A_SMALL, 0); op_resize(0, base, A_SMALL, 0); break;
    }
    if (!arg_value(cls, 0, &g, 1, &req)) {
        op_clear(0); st_destroy();
        VRT_COUNT("matrix.class-has-no-value-here");
        return;
    }
    if (op) applied = op_resize(0, req, cls, fp);
    else if ((cls == A_ATCAP || cls == A_BIGOK) && (fp || var)) applied = 0;     /* big real blocks: once per cell is plenty */
    else applied = op_reserve(0, req, cls, fp);
    if (applied) {
        VRT_COUNT("matrix.cells");
        /* whatever happened, the vector must still be a working vector */
        op_at(0, req, cls, 0);
        op_at(0, req, cls, 1);
        op_sort(0, 4);
        op_reverse(0);
        if (mod[0]->n < MAXN) op_resize(0, mod[0]->n + 1, A_SIZE_P1, 0);
        op_reverse(0);
        op_shrink(0, 0);
        op_sort(0, 3);
        if (mod[0]->n > 1) op_resize(0, mod[0]->n - 2, A_INRANGE, 0);
        op_reserve(0, SIZE_MAX, A_MAX, 0);
    } else {
        VRT_COUNT("matrix.cells-skipped-as-too-large-to-construct");
    }
    op_clear(0);
    op_resize(0, 3, A_SMALL, 0);
    op_clear(0);
    st_destroy();
}

/* ---- swap cells: two differently initialised vectors in every pair of start states ---- */
/* pairings 0-3 run over every pair of element sizes; 4.. (one function in both roles, the same function registered
 * with both vectors in the same / in opposite roles, one-sided and no callbacks on both sides) over every first
 * element size with a second one that walks through all eight (equal sizes included: then only xtors/priv differ) */
#define NXP 4
#define NXQ 8
static const int xpair[NXP + NXQ][2] = {
    { X_NONE, X_BOTH }, { X_BOTH, X_BOTH }, { X_CONS, X_DEST }, { X_BOTH, X_NONE },
    { X_SAME, X_SAME }, { X_SAME, X_BOTH }, { X_NONE, X_SAME }, { X_SAME, X_CONS },
    { X_DEST, X_SAME }, { X_REV, X_BOTH }, { X_CONS, X_CONS }, { X_NONE, X_NONE }
};
#define NSWAPCELLS_P ((uint64_t)NES * NES * NS * NS * NXP)
#define NSWAPCELLS ((uint64_t)NSWAPCELLS_P + NES * NS * NS * NXQ)
static void build_state(int vi, int st, size_t base)
{
    switch (st) {
    case S_FRESH: break;
    case S_EMPTY: op_resize(vi, base, A_SMALL, 0); op_resize(vi, 0, A_ZERO, 0); break;
    case S_FULL: op_resize(vi, base, A_SMALL, 0); op_shrink(vi, 0); break;
    case S_SLACK: op_reserve(vi, base + 1 + base / 2, A_SMALL, 0); op_resize(vi, base, A_SMALL, 0); break;
    }
}
static void run_swapcell(uint64_t idx)
{
    vrt_rng g;
    int xp, st0, st1, e0, e1, i;
    if (idx < NSWAPCELLS_P) {
        xp = idx % NXP; idx /= NXP;
        st1 = idx % NS; idx /= NS;
        st0 = idx % NS; idx /= NS;
        e1 = idx % NES; idx /= NES;
        e0 = (int)idx;
    } else {
        idx -= NSWAPCELLS_P;
        xp = NXP + idx % NXQ; idx /= NXQ;
        st1 = idx % NS; idx /= NS;
        st0 = idx % NS; idx /= NS;
        e0 = (int)idx;
        e1 = (e0 + 1 + (xp + 2 * st0 + 3 * st1) % NES) % NES;
        VRT_COUNT("swap.cells.xtor-pairings");
    }
    vrt_rng_seed(&g, vrt_seed, 0xC095000 + e0 * 64 + e1 * 8 + st0 * 4 + st1);
    vrt_case_note("swap cell v0: elem=%zu xtor=%s state=%s; v1: elem=%zu xtor=%s state=%s", ESZ[e0], xname[xpair[xp][0]],
                  sname[st0], ESZ[e1], xname[xpair[xp][1]], sname[st1]);
    st_create2(ESZ[e0], xpair[xp][0], ESZ[e1], xpair[xp][1], 2, 3);
    build_state(0, st0, 4 + vrt_below(&g, 9));
    build_state(1, st1, 4 + vrt_below(&g, 9));
    op_swap(xp & 1);
    /* both objects must be working vectors of their NEW element size / xtors */
    for (i = 0; i < 2; i++) {
        op_resize(i, mod[i]->n + 2, A_SIZE_P1, 0);
        op_sort(i, 4);
        op_reverse(i);
        op_at(i, mod[i]->n, A_SIZE, 0);
        if (mod[i]->n > 1) op_resize(i, mod[i]->n - 1, A_SIZE_M1, 0);
        op_shrink(i, 0);
    }
    op_swap(0);
    op_resize(1, mod[1]->n + 1, A_SIZE_P1, 0);
    op_resize(0, 0, A_ZERO, 0);
    op_swap(1);
    op_clear(0);
    op_swap(0);
    op_clear(0);
    op_clear(1);
    /* second life: neither vector has storage now, all a swap can exchange is the configuration */
    op_swap(1 - (xp & 1));
    for (i = 0; i < 2; i++) op_resize(i, 2 + (size_t)i + (size_t)(st0 + st1) % 3, A_SMALL, 0);
    if (xp >= NXP || st0 == st1) {
        /* capacity 0 on both sides, but with a (one slot) buffer each */
        for (i = 0; i < 2; i++) { op_resize(i, 0, A_ZERO, 0); op_shrink(i, 0); }
        op_swap(xp & 1);
        op_resize(1, 2, A_SMALL, 0);
        op_resize(0, 1, A_ONE, 0);
    }
    op_clear(1);
    op_clear(0);
    CHK(vrt_lib_live() == live0, "alloc.leak-at-end", "%zu library blocks still live after clearing every vector",
        vrt_lib_live() - live0);
    st_destroy();
    VRT_COUNT("swap.cells");
}

/* ---- random histories ---- */
static int pick_class(vrt_rng *g, int op)
{
    static const int evolve[] = { A_ZERO, A_ONE, A_INRANGE, A_SIZE_M1, A_SIZE, A_SIZE_P1, A_CAP, A_CAP_P1,
                                  A_SMALL, A_SMALL, A_SMALL, A_HUNDREDS };
    static const int refuse[] = { A_OVERCAP1, A_OVERCAP, A_MAXDIV_M1, A_MAXDIV, A_MAXDIV_P1, A_WRAP, A_WRAP,
                                  A_P62, A_P63, A_MAX_M1, A_MAX };
    int r = vrt_below(g, 100);
    if (op == K_AT || op == K_AT_CONST) {
        if (r < 50) return evolve[vrt_below(g, 9)];
        return refuse[vrt_below(g, 11)];
    }
    if (r < 62) return evolve[vrt_below(g, 12)];
    if (r < 63 && op == K_RESERVE) return A_BIGOK;
    return refuse[vrt_below(g, 11)];
}

static int pick_xmode(vrt_rng *g)
{
    static const int w[12] = { X_NONE, X_NONE, X_NONE, X_BOTH, X_BOTH, X_BOTH, X_SAME, X_SAME, X_SAME, X_CONS, X_DEST, X_REV };
    return w[vrt_below(g, 12)];
}
static void run_random(uint64_t idx)
{
    vrt_rng g;
    int e, xm, e1, xm1, nv, ks, nops, i, big;
    vrt_rng_seed(&g, vrt_seed, 0xC090000 + idx);
    e = vrt_below(&g, NES);
    xm = pick_xmode(&g);
    nv = 1 + vrt_below(&g, 2);
    e1 = e; xm1 = xm;
    if (nv == 2 && vrt_chance(&g, 2, 3)) {
        /* two differently initialised vectors: swap exchanges element size and xtors too */
        e1 = vrt_below(&g, NES);
        xm1 = pick_xmode(&g);
    }
    ks = vrt_chance(&g, 1, 2) ? 0 : 2 + vrt_below(&g, 5);
    big = idx % 5 == 0;
    nops = (vrt_thorough ? 400 : 200) + vrt_below(&g, vrt_thorough ? 1100 : 500);
    if (big) nops = nops / 4 + 40;
    vrt_case_note("random v0: elem=%zu xtor=%s; v1: elem=%zu xtor=%s; vectors=%d keyspace=%d sizes=%s ops=%d",
                  ESZ[e], xname[xm], ESZ[e1], xname[xm1], nv, ks, big ? "up-to-4000" : "small", nops);
    st_create2(ESZ[e], xm, ESZ[e1], xm1, nv, ks);
    for (i = 0; i < nops; i++) {
        int vi = vrt_below(&g, nv), r = vrt_below(&g, 100), cls, fp;
        size_t req;
        if (r < 30) {
            cls = pick_class(&g, K_RESIZE); fp = vrt_chance(&g, 1, 12);
            if (arg_value(cls, vi, &g, big, &req)) op_resize(vi, req, cls, fp);
        } else if (r < 50) {
            cls = pick_class(&g, K_RESERVE); fp = vrt_chance(&g, 1, 10);
            if (arg_value(cls, vi, &g, big, &req)) op_reserve(vi, req, cls, fp);
        } else if (r < 58) {
            cls = pick_class(&g, K_AT);
            if (arg_value(cls, vi, &g, 1, &req)) op_at(vi, req, cls, 0);
        } else if (r < 64) {
            cls = pick_class(&g, K_AT_CONST);
            if (arg_value(cls, vi, &g, 1, &req)) op_at(vi, req, cls, 1);
        } else if (r < 73) op_shrink(vi, vrt_chance(&g, 1, 5));
        else if (r < 76) op_clear(vi);
        else if (r < 84) op_swap(vrt_below(&g, 2));
        else if (r < 92) op_sort(vi, vrt_below(&g, 5));
        else op_reverse(vi);
    }
    for (i = 0; i < nv; i++) op_clear(i);
    CHK(vrt_lib_live() == live0, "alloc.leak-at-end", "%zu library blocks still live after clearing every vector",
        vrt_lib_live() - live0);
    st_destroy();
    VRT_COUNT("random.histories");
}

static uint64_t nrandom(void) { return vrt_thorough ? 30000 : 6000; }
static uint64_t ncases(void) { return NMATRIX + NSWAPCELLS + nrandom(); }
static void run_case(uint64_t idx)
{
    if (idx < NMATRIX) run_matrix(idx);
    else if (idx < NMATRIX + NSWAPCELLS) run_swapcell(idx - NMATRIX);
    else run_random(idx - NMATRIX - NSWAPCELLS);
}
static void winit(void)
{
    vrt_sig_name(0, "elem-size x op x argument-class x state-class");
    vrt_sig_name(1, "same x xtor-mode");
}

static const char *const required[] = {
    "op.resize.arg.SIZE_MAX", "op.resize.arg.SIZE_MAX_div_elem", "op.resize.arg.SIZE_MAX_div_elem-1",
    "op.resize.arg.SIZE_MAX_div_elem+1", "op.resize.arg.2pow62", "op.resize.arg.2pow63", "op.resize.arg.cap+1",
    "op.resize.arg.first-above-alloc-cap", "op.resize.arg.bytes-wrap-to-small",
    "op.reserve.arg.SIZE_MAX", "op.reserve.arg.SIZE_MAX_div_elem", "op.reserve.arg.SIZE_MAX_div_elem-1",
    "op.reserve.arg.SIZE_MAX_div_elem+1", "op.reserve.arg.2pow62", "op.reserve.arg.2pow63", "op.reserve.arg.cap+1",
    "op.reserve.arg.first-above-alloc-cap", "op.reserve.arg.largest-below-alloc-cap", "op.reserve.arg.bytes-wrap-to-small",
    "op.at.arg.size", "op.at.arg.SIZE_MAX", "op.at_const.arg.size", "at.wrapping-index-probes",
    "op.shrink_to_fit", "op.clear", "op.swap", "op.sort", "op.reverse",
    "swap.different-element-sizes", "swap.different-xtor-modes", "swap.with-never-allocated-vector",
    "swap.different-state-classes", "swap.different-sizes", "swap.cells",
    "abort.resize.expected", "abort.resize.observed", "abort.resize.byte-count-unrepresentable",
    "abort.resize.allocator-cap-refused", "abort.resize.failpoint", "abort.resize.reaudited-after-abort",
    "abort.at.expected", "abort.at.observed",
    "reserve.noop.byte-count-unrepresentable", "reserve.noop.allocator-cap-refused", "reserve.noop.failpoint",
    "reserve.grew", "alloc.realloc-moved-the-block", "xtor.constructor-calls", "xtor.destructor-calls",
    "clear.released-the-buffer", "shrink.to-exactly-size", "sort.scratch-slot-right-after-last-element",
    "reverse.scratch-slot-right-after-last-element", "audit.elements-written-and-read-back",
    "init.DECLARE_CSTL_VECTOR", "init.cstl_vector_init", "matrix.cells", "random.histories",
    /* callbacks varied independently: one function in both roles, one-sided vectors, shared functions */
    "init.constructor-and-destructor-same-function", "xtor.same-function.constructions",
    "xtor.same-function.destructions", "resize.grow.same-function-is-cons-and-dest",
    "resize.shrink.same-function-is-cons-and-dest", "clear.non-empty.same-function-is-cons-and-dest",
    "resize.shrink.constructor-only-vector", "clear.non-empty.constructor-only-vector",
    "resize.grow.destructor-only-vector", "xtor.reversed-roles.constructions", "xtor.reversed-roles.destructions",
    "swap.with-same-function-vector", "swap.one-function-registered-with-both-vectors", "swap.cells.xtor-pairings",
    "swap.both-without-storage", "swap.both-without-storage.differently-configured",
    "swap.both-without-storage.after-clear", "swap.both-without-storage.then-grown",
    "swap.both-capacity-zero-with-a-buffer.differently-configured", NULL
};
static const struct vrt_harness H = { "vector", ncases, run_case, winit, NULL, required, 16 };

int main(int argc, char **argv) { return vrt_main(argc, argv, &H); }
