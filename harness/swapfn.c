/*
 * C11 supplement -- cstl_swap() itself (public, inline in include/cstl/common.h: every sort, reverse, heap and
 * vector/array swap of the library and of its clients goes through it) and cstl_fls().
 *
 * For every size 0..2200, a few larger ones (4096, 4097, 65536, 65537, seeded ones up to 70000; thorough: up to 1 MiB) and
 * every placement below: two pattern-filled objects and a scratch buffer; after cstl_swap(x, y, t, sz)
 *   - every byte of x is the former byte of y and vice versa (the patterns differ in EVERY byte and have no period),
 *   - nothing outside x, y and the sz bytes of the scratch changed: exact-size heap blocks (sanitizer red zones) and
 *     pattern guard bytes in front of / behind the objects (own oracle, also in the build without sanitizer),
 *   - no allocator call was made (every second case runs with an allocator that refuses everything).
 * Placements: three separate exact-size blocks (malloc alignment); guarded and aligned; guarded at odd addresses (each
 * object its own misalignment); at the very end of a block (red zone right behind an odd address); mixed; x and y as
 * two NEIGHBOURING elements of one array (the case every sort produces), both orders.
 * Calls: direct with a run-time size, through a cstl_swap_func_t pointer (what cstl_vector_sort() hands to the library)
 * and with a compile-time constant size for some sizes.
 * Domain: the 2-, 4- and 8-byte objects are naturally aligned in the sanitizer builds (cstl_swap moves them through
 * uint16_t/uint32_t/uint64_t lvalues: the property does not speak about alignment, UBSan would); the build without
 * sanitizer drives them misaligned too and demands the same exchange (counter swap.typed-size.misaligned).
 *
 * cstl_fls(): 0, every power of two, +-1, all ones below/above, a linear sweep and seeded random values against a
 * shift-and-count reference.
 */
#include "vrt.h"
#include "cstl/common.h"
#include <string.h>
#include <stdio.h>

#if defined(__SANITIZE_ADDRESS__)
#define SANITIZED 1
#elif defined(__has_feature)
#if __has_feature(address_sanitizer) || __has_feature(undefined_behavior_sanitizer)
#define SANITIZED 1
#endif
#endif
#ifndef SANITIZED
#define SANITIZED 0
#endif

/* ------------------------------------------------------------------ */
/* patterns                                                             */
/* ------------------------------------------------------------------ */
static inline uint32_t h32(uint32_t v)
{
    v ^= v >> 16; v *= 0x7feb352du; v ^= v >> 15; v *= 0x846ca68bu; v ^= v >> 16;
    return v;
}
static uint32_t salt;
static inline unsigned char pat_x(size_t i) { return (unsigned char)h32((uint32_t)i * 2u + salt); }
/* differs from pat_x(i) in every byte */
static inline unsigned char pat_y(size_t i) { return (unsigned char)(pat_x(i) ^ (1u + h32((uint32_t)i * 2u + 1u + salt) % 255u)); }
static inline unsigned char pat_t(size_t i) { return (unsigned char)h32((uint32_t)i + 0x51ed2700u + salt); }
static inline unsigned char pat_g(size_t i, unsigned who) { return (unsigned char)(h32((uint32_t)i * 3u + who + salt) | 1u); }

/* ------------------------------------------------------------------ */
/* objects                                                              */
/* ------------------------------------------------------------------ */
enum { PL_EXACT, PL_GUARDED, PL_END };
struct obj {
    unsigned char *block, *p;
    size_t blen, gl, gr;        /* guard bytes in front of / behind the object (inside the block) */
};
static void obj_open(struct obj *o, size_t sz, int placement, size_t off, size_t extra)
{
    /* extra: bytes of a neighbouring object behind this one (adjacent placement) */
    o->gl = placement == PL_EXACT ? 0 : 16 + off;
    o->gr = placement == PL_GUARDED ? 32 : 0;
    if (placement == PL_EXACT && sz + extra == 0) { o->block = vrt_alloc(1); o->blen = 1; o->p = o->block + 1; o->gl = 1; return; }
    o->blen = o->gl + sz + extra + o->gr;
    o->block = vrt_alloc(o->blen);
    o->p = o->block + o->gl;
}
static void obj_guards(const struct obj *o, size_t len, unsigned who)
{
    size_t i;
    for (i = 0; i < o->gl; i++) o->block[i] = pat_g(i, who);
    for (i = o->gl + len; i < o->blen; i++) o->block[i] = pat_g(i, who);
}
/* offset of a modified guard byte relative to the object (the nearest one in front of it, else the first one behind it), or INTACT */
#define INTACT (-0x7fffffffL)
static long obj_guard_broken(const struct obj *o, size_t len, unsigned who)
{
    size_t i;
    for (i = o->gl; i-- > 0;) if (o->block[i] != pat_g(i, who)) return (long)i - (long)o->gl;
    for (i = o->gl + len; i < o->blen; i++) if (o->block[i] != pat_g(i, who)) return (long)(i - o->gl);
    return INTACT;
}

/* ------------------------------------------------------------------ */
/* the three ways to call                                               */
/* ------------------------------------------------------------------ */
static cstl_swap_func_t *volatile swap_fp = cstl_swap;
#define CONST_SIZES(X) X(1) X(2) X(3) X(4) X(7) X(8) X(16) X(24) X(255) X(256) X(257) X(300) X(512) X(513) X(1000) X(4096) X(4097)
#define DEFSW(N) static __attribute__((noinline)) void sw_##N(void *x, void *y, void *t) { cstl_swap(x, y, t, N); }
CONST_SIZES(DEFSW)
static int call_const(void *x, void *y, void *t, size_t sz)
{
    switch (sz) {
#define CASESW(N) case N: sw_##N(x, y, t); return 1;
    CONST_SIZES(CASESW)
    default: return 0;
    }
}

static const char *sizeclass(size_t sz)
{
    return sz == 0 ? "size-0" : (sz == 1 || sz == 2 || sz == 4 || sz == 8) ? "size-1-2-4-8" : sz < 256 ? "size-lt-256"
           : sz <= 4096 ? "size-256-to-4096" : "size-gt-4096";
}
static char keybuf[160];
static const char *K(const char *what, const char *placement, size_t sz)
{
    snprintf(keybuf, sizeof(keybuf), "swap.%s.%s.%s", what, placement, sizeclass(sz));
    return keybuf;
}

enum { V_EXACT, V_GUARDED_ALIGNED, V_MISALIGNED, V_END, V_MIXED_1, V_MIXED_2, V_ADJACENT, V_ADJACENT_REV, NV };
static const char *const vname[NV] = { "exact-size-blocks", "aligned", "misaligned", "end-of-block", "mixed", "mixed",
                                       "neighbouring-elements", "neighbouring-elements" };

static int nomem_case;

static void one_swap(size_t sz, int v, unsigned how)
{
    const int typed = sz == 2 || sz == 4 || sz == 8;
    struct obj X, Y, T;
    unsigned char *x, *y, *t;
    size_t ox = 1 + sz % 7, oy = 3 + (sz / 7) % 5, ot = 5 + (sz / 3) % 3, i;
    const char *pl = vname[v];
    long g;
    int adjacent = v == V_ADJACENT || v == V_ADJACENT_REV, misaligned;

    if (typed && SANITIZED) { ox = ox > 4 ? 8 : 0; oy = 8; ot = oy > 5 ? 0 : 8; }   /* natural alignment (blocks are 16-aligned, gl = 16 + off) */
    salt = h32((uint32_t)sz * 16u + (uint32_t)v) ^ (uint32_t)vrt_seed;
    switch (v) {
    case V_EXACT:           obj_open(&X, sz, PL_EXACT, 0, 0);    obj_open(&Y, sz, PL_EXACT, 0, 0);    obj_open(&T, sz, PL_EXACT, 0, 0); break;
    case V_GUARDED_ALIGNED: obj_open(&X, sz, PL_GUARDED, 0, 0);  obj_open(&Y, sz, PL_GUARDED, 16, 0); obj_open(&T, sz, PL_GUARDED, 0, 0); break;
    case V_MISALIGNED:      obj_open(&X, sz, PL_GUARDED, ox, 0); obj_open(&Y, sz, PL_GUARDED, oy, 0); obj_open(&T, sz, PL_GUARDED, ot, 0); break;
    case V_END:             obj_open(&X, sz, PL_END, oy, 0);     obj_open(&Y, sz, PL_END, ot, 0);     obj_open(&T, sz, PL_END, ox, 0); break;
    case V_MIXED_1:         obj_open(&X, sz, PL_GUARDED, ox, 0); obj_open(&Y, sz, PL_GUARDED, 0, 0);  obj_open(&T, sz, PL_EXACT, 0, 0); break;
    case V_MIXED_2:         obj_open(&X, sz, PL_EXACT, 0, 0);    obj_open(&Y, sz, PL_END, oy, 0);     obj_open(&T, sz, PL_GUARDED, ot, 0); break;
    default:                /* x and y: elements 0 and 1 of one array in one block, the scratch elsewhere */
        obj_open(&X, sz, (sz & 1) ? PL_GUARDED : PL_END, (typed && SANITIZED) || (sz & 2) ? 0 : ox, sz);
        Y = X; Y.p = X.p + sz;
        obj_open(&T, sz, PL_EXACT, 0, 0);
        break;
    }
    x = X.p; y = Y.p; t = T.p;
    misaligned = (((uintptr_t)x | (uintptr_t)y | (uintptr_t)t) & 7) != 0;
    if (adjacent) obj_guards(&X, 2 * sz, 1); else { obj_guards(&X, sz, 1); obj_guards(&Y, sz, 2); }
    obj_guards(&T, sz, 3);
    for (i = 0; i < sz; i++) { x[i] = pat_x(i); y[i] = pat_y(i); t[i] = pat_t(i); }
    if (v == V_ADJACENT_REV) { unsigned char *q = x; x = y; y = q; for (i = 0; i < sz; i++) { x[i] = pat_x(i); y[i] = pat_y(i); } }

    vrt_state(sizeclass(sz));
    vrt_ev_begin();
    if (nomem_case) vrt_fp_arm(NULL, 0, 1);
    VRT_OP4("common.swap", "size %ld, placement %ld, call %ld (0 direct, 1 through a function pointer, 2 compile-time constant size where there is one), x at 8k+%ld",
            sz, v, how % 3, (uintptr_t)x & 7);
    if (how % 3 == 2 && call_const(x, y, t, sz)) {
        VRT_COUNT("swap.compile-time-constant-size");
    } else if (how % 3 == 1) {
        swap_fp(x, y, t, sz);
        VRT_COUNT("swap.through-function-pointer");
    } else {
        cstl_swap(x, y, t, sz);
        VRT_COUNT("swap.direct");
    }
    if (nomem_case) {
        const uint64_t asked = vrt_fp_ordinal();
        vrt_fp_disarm();
        VRT_CHECK(asked == 0, K("asked-for-memory", pl, sz), "cstl_swap of %zu bytes made %llu allocation requests", sz, (unsigned long long)asked);
        VRT_COUNT("nomem.calls");
    }
    VRT_CHECK(vrt_ev_n() == 0, K("allocator-called", pl, sz), "cstl_swap of %zu bytes called the allocator (%d calls)", sz, vrt_ev_n());

    for (i = 0; i < sz; i++)
        if (x[i] != pat_y(i))
            vrt_fail(K("first-object-not-exchanged", pl, sz), "size %zu: byte %zu of the first object is 0x%02x after the swap, the second object held 0x%02x there "
                     "(the first 0x%02x, the scratch 0x%02x)", sz, i, x[i], pat_y(i), pat_x(i), pat_t(i));
    for (i = 0; i < sz; i++)
        if (y[i] != pat_x(i))
            vrt_fail(K("second-object-not-exchanged", pl, sz), "size %zu: byte %zu of the second object is 0x%02x after the swap, the first object held 0x%02x there "
                     "(the second 0x%02x, the scratch 0x%02x)", sz, i, y[i], pat_x(i), pat_y(i), pat_t(i));
    if (adjacent) {
        g = obj_guard_broken(&X, 2 * sz, 1);
        VRT_CHECK(g == INTACT, K("wrote-outside-the-objects", pl, sz), "size %zu: the byte at offset %ld relative to the two-element array changed", sz, g);
    } else {
        g = obj_guard_broken(&X, sz, 1);
        VRT_CHECK(g == INTACT, K("wrote-outside-first-object", pl, sz), "size %zu: the byte at offset %ld relative to the first object changed", sz, g);
        g = obj_guard_broken(&Y, sz, 2);
        VRT_CHECK(g == INTACT, K("wrote-outside-second-object", pl, sz), "size %zu: the byte at offset %ld relative to the second object changed", sz, g);
    }
    g = obj_guard_broken(&T, sz, 3);
    VRT_CHECK(g == INTACT, K("wrote-outside-scratch", pl, sz), "size %zu: the byte at offset %ld relative to the scratch buffer changed", sz, g);

    vrt_free(X.block); if (!adjacent) vrt_free(Y.block); vrt_free(T.block);
    VRT_COUNT("swap.verified");
    vrt_sig(0, vrt_mix(vrt_mix(0x5A9, sz), (uint64_t)v * 4 + how % 3));
    switch (v) {
    case V_EXACT: VRT_COUNT("swap.placement.exact-size-blocks"); break;
    case V_GUARDED_ALIGNED: VRT_COUNT("swap.placement.guarded-aligned"); break;
    case V_END: VRT_COUNT("swap.placement.end-of-block"); break;
    case V_ADJACENT: case V_ADJACENT_REV: VRT_COUNT("swap.placement.neighbouring-elements"); break;
    default: break;
    }
    if (misaligned) VRT_COUNT("swap.placement.misaligned");
    if (typed && (((uintptr_t)x | (uintptr_t)y | (uintptr_t)t) & (sz - 1)) != 0) VRT_COUNT("swap.typed-size.misaligned");
    if (sz == 0) VRT_COUNT("swap.size-0");
    else if (sz == 1 || typed) VRT_COUNT("swap.sizes-1-2-4-8");
    else if (sz < 256) VRT_COUNT("swap.sizes-lt-256");
    else if (sz <= 4096) VRT_COUNT("swap.sizes-256-to-4096");
    else if (sz <= 65536) VRT_COUNT("swap.sizes-gt-4096");
    else VRT_COUNT("swap.sizes-gt-65536");
}

static int has_const(size_t sz)
{
    switch (sz) {
#define CASEHAS(N) case N: return 1;
    CONST_SIZES(CASEHAS)
    default: return 0;
    }
}
static void all_placements(size_t sz, unsigned rot)
{
    int v;
    for (v = 0; v < NV; v++) one_swap(sz, v, rot + (unsigned)v);
    if (has_const(sz)) for (v = 0; v < NV; v++) one_swap(sz, v, 2);
}

/* ------------------------------------------------------------------ */
/* cstl_fls                                                             */
/* ------------------------------------------------------------------ */
static int ref_fls(unsigned long x) { int r = -1; while (x != 0) { r++; x >>= 1; } return r; }
static void fls_one(unsigned long x, const char *cls)
{
    int r, e = ref_fls(x);
    char key[96];
    VRT_OP1("common.fls", "x=0x%lx", x);
    r = cstl_fls(x);
    if (r != e) {
        snprintf(key, sizeof(key), "fls.wrong-result.%s", cls);
        vrt_fail(key, "cstl_fls(0x%lx) returned %d, the highest set bit is %d", x, r, e);
    }
}
static void run_fls(uint64_t part)
{
    const int nbits = (int)(8 * sizeof(unsigned long));
    vrt_rng g;
    int k;
    unsigned long x;
    vrt_state("fls");
    if (part == 0) {
        fls_one(0, "zero"); VRT_COUNT("fls.zero");
        fls_one(~0UL, "all-ones"); VRT_COUNT("fls.all-ones");
        for (k = 0; k < nbits; k++) {
            const unsigned long v = 1UL << k;
            fls_one(v, "power-of-two"); VRT_COUNT("fls.powers-of-two");
            fls_one(v - 1, "power-of-two-minus-1"); VRT_COUNT("fls.powers-of-two-minus-1");
            fls_one(v + 1, "power-of-two-plus-1"); VRT_COUNT("fls.powers-of-two-plus-1");
            fls_one(v | (v >> 1) | 1UL, "two-highest-bits");
            fls_one(~0UL << k, "all-ones-from-bit-k");
            fls_one(~(~0UL << k), "all-ones-below-bit-k");
            vrt_sig(0, vrt_mix(0xF15, (uint64_t)k));
        }
        for (x = 0; x < (vrt_thorough ? 4000000UL : 300000UL); x++) fls_one(x, "sweep");
        VRT_COUNT_N("fls.sweep", x);
    } else {
        vrt_rng_seed(&g, vrt_seed, 0xF150000 + part);
        for (k = 0; k < (vrt_thorough ? 2000000 : 200000); k++) {
            x = (unsigned long)vrt_next(&g) >> vrt_below(&g, (uint32_t)nbits);
            if (k & 1) x &= (unsigned long)vrt_next(&g);
            fls_one(x, "random");
        }
        VRT_COUNT_N("fls.random", k);
    }
}

/* ------------------------------------------------------------------ */
#define PER_CASE 32
#define NLIN 2201           /* sizes 0 .. 2200 */
#define NLINCASES ((NLIN + PER_CASE - 1) / PER_CASE)
static uint64_t nextra(void) { return vrt_thorough ? 24 : 4; }
static uint64_t ncases(void) { return NLINCASES + nextra() + 2; }
static void run_case(uint64_t idx)
{
    nomem_case = (int)(idx & 1);
    if (nomem_case) VRT_COUNT("nomem.cases");
    if (idx < NLINCASES) {
        size_t sz;
        vrt_case_note("cstl_swap: sizes %llu .. %llu, every placement", (unsigned long long)idx * PER_CASE, (unsigned long long)idx * PER_CASE + PER_CASE - 1);
        for (sz = (size_t)idx * PER_CASE; sz < ((size_t)idx + 1) * PER_CASE && sz < NLIN; sz++)
            all_placements(sz, (unsigned)sz + (unsigned)vrt_seed);
    } else if (idx < NLINCASES + nextra()) {
        static const size_t fixed[] = { 4096, 4097, 65537, 65536, 4095, 8192, 8193, 32768 + 255 };
        const uint64_t e = idx - NLINCASES;
        vrt_rng g;
        size_t sz;
        vrt_rng_seed(&g, vrt_seed, 0x5A90000 + idx);
        if (e < 3) sz = fixed[e];
        else if (e == 3) { all_placements(fixed[3], (unsigned)vrt_seed); all_placements(fixed[4 + vrt_seed % 4], 1); sz = 2201 + vrt_below(&g, 70000 - 2201); }
        else sz = (e & 1) ? 2201 + vrt_below(&g, 70000 - 2201) : 70000 + vrt_below(&g, (1u << 20) - 70000);
        vrt_case_note("cstl_swap: size %zu, every placement", sz);
        all_placements(sz, (unsigned)idx + (unsigned)vrt_seed);
    } else {
        vrt_case_note("cstl_fls: %s", idx == NLINCASES + nextra() ? "zero, powers of two +-1, masks, sweep" : "seeded random values");
        run_fls(idx - NLINCASES - nextra());
    }
    nomem_case = 0;
}
static void winit(void) { vrt_sig_name(0, "size-placement-call-triples"); }

static const char *const required[] = {
    "swap.verified", "swap.direct", "swap.through-function-pointer", "swap.compile-time-constant-size",
    "swap.size-0", "swap.sizes-1-2-4-8", "swap.sizes-lt-256", "swap.sizes-256-to-4096", "swap.sizes-gt-4096", "swap.sizes-gt-65536",
    "swap.placement.exact-size-blocks", "swap.placement.guarded-aligned", "swap.placement.misaligned", "swap.placement.end-of-block",
    "swap.placement.neighbouring-elements", "nomem.calls",
    "fls.zero", "fls.all-ones", "fls.powers-of-two", "fls.powers-of-two-minus-1", "fls.powers-of-two-plus-1", "fls.sweep", "fls.random",
    NULL
};
static const struct vrt_harness H = { "swapfn", ncases, run_case, winit, NULL, required, 16 };

int main(int argc, char **argv) { return vrt_main(argc, argv, &H); }
