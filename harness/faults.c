/*
 * C16 -- allocation failure never corrupts a container (fault enumeration).
 *
 * One deterministic script per container family, written against small
 * tolerant models: every call is checked against both admissible outcomes
 * (normal / documented failure) and the model follows the one observed.
 * Oracles: failure => a failpoint fired inside this very call; no failpoint
 * fired => normal outcome; a failing call leaves the container's contents
 * as they were; after the faults stop the container is used further, then
 * everything is released and no library block may stay live; ASan/UBSan.
 *
 * case = (script, failpoint mask).  Masks: every single allocation ordinal,
 * every suffix, every pair, every triple (scripts with N <= 24), random masks.
 */
#include "vrt.h"
#include "cstl/map.h"
#include "cstl/vector.h"
#include "cstl/string.h"
#include "cstl/hash.h"
#include "cstl/memory.h"
#include "cstl/array.h"
#include <string.h>
#include <stdio.h>
#include <wchar.h>
#include <unistd.h>
#include <sys/wait.h>

static int faults_on;           /* failpoints currently armed (script phase) */

#define CALL_BEGIN(entry, fmt, a, b) do { VRT_OP2(entry, fmt, a, b); vrt_ev_begin(); } while (0)
#define FIRED() (vrt_ev_fired() > 0)
/* the scripts also run in measure() (in the parent, before the workers exist): a VRT_COUNT site first reached there
 * would cache a counter id of the parent's dummy slot, so the script-level counters are skipped while measuring */
static int measuring;
#define COUNT(name) do { if (!measuring) VRT_COUNT(name); } while (0)

static void require_fired(const char *entry, const char *what)
{
    char key[128];
    if (FIRED()) return;
    snprintf(key, sizeof(key), "faults.failure-without-fault.%s", entry);
    vrt_fail(key, "%s reported %s although no allocation failed inside the call", entry, what);
}
/* "completed normally although a request was refused inside the call" is NOT a violation: C16 admits both outcomes for every
 * call, and an implementation may retry with a smaller request or fall back to another strategy.  It is recorded (the current
 * library never does it), so that the evidence shows whether the normal outcome was ever reached that way. */
static void require_not_fired(const char *entry, const char *what)
{
    char key[128];
    (void)what;
    if (!FIRED() || measuring) return;
    snprintf(key, sizeof(key), "observed.completed-normally-although-a-request-was-refused.%s", entry);
    vrt_count_dyn(key, 1);
}
static void count_fail(const char *entry)
{
    char nm[64];
    snprintf(nm, sizeof(nm), "documented-failure.%s", entry);
    vrt_count_dyn(nm, 1);
}

/* ======================= map ======================= */
#define MK 26
static int mkeys[MK], mvals[MK];
static int mheld[MK];
static cstl_map_t M;
/* client callbacks see only what the client handed in: its own keys, its own priv pointers */
static int mprobe;      /* erase looks a key up through a copy: what comes back must be the stored key, not the probe */
static int map_own_key(const void *k) { return k == (const void *)&mprobe || ((const int *)k >= mkeys && (const int *)k < mkeys + MK); }
/* what a failed call must not remember: the comparator only ever sees the key argument of the call in progress and keys of
 * entries the map holds; the key of an insert that failed (or of an entry erased earlier) must never come back */
static const void *m_arg;       /* key argument of the library call in progress */
static int m_failed_ins;        /* inserts that failed so far in this case */
static int map_cmp_ok(const void *k)
{
    const int *ik = k;
    if (k == m_arg) return 1;
    return ik >= mkeys && ik < mkeys + MK && mheld[ik - mkeys];
}
static int map_cmp(const void *a, const void *b, void *p)
{
    VRT_CHECK(p == (void *)mheld, "faults.map.cmp.wrong-priv", "comparator called with a priv pointer the client never supplied");
    VRT_CHECK(map_own_key(a) && map_own_key(b),
              "faults.map.cmp.foreign-key", "comparator called with a key pointer the client never supplied");
    VRT_CHECK(map_cmp_ok(a) && map_cmp_ok(b), "faults.map.cmp.key-not-held",
              "comparator called with a key that is neither the argument of this call nor the key of an entry the map holds (%d inserts failed before)", m_failed_ins);
    if (m_failed_ins) COUNT("map.cmp.checked-after-failed-insert");
    return *(const int *)a - *(const int *)b;
}
static int map_clear_n;
static void map_clear_cb(void *it, void *p)
{
    cstl_map_iterator_t *i = it;
    const int k = (int)((const int *)i->key - mkeys);
    VRT_CHECK(p == (void *)&map_clear_n, "faults.map.clear.wrong-priv", "clear callback called with a priv pointer the client never supplied");
    VRT_CHECK(k >= 0 && k < MK && mheld[k] && i->val == &mvals[k], "faults.map.clear.wrong-entry", "clear passed an entry the map should not hold");
    mheld[k] = 0;
    map_clear_n++;
}
static void map_audit(void)
{
    int k, n = 0;
    for (k = 0; k < MK; k++) {
        cstl_map_iterator_t it;
        m_arg = &mkeys[k];
        cstl_map_find(&M, &mkeys[k], &it);
        m_arg = NULL;
        if (mheld[k]) {
            n++;
            VRT_CHECK(it.key == &mkeys[k] && it.val == &mvals[k], "faults.map.lost-entry", "key %d no longer found after an allocation failure", k);
        } else {
            VRT_CHECK(cstl_map_iterator_eq(&it, cstl_map_iterator_end(&M)), "faults.map.phantom-entry", "key %d found although it is not held", k);
        }
    }
    VRT_CHECK(cstl_map_size(&M) == (size_t)n, "faults.map.size", "map size %zu, model %d", cstl_map_size(&M), n);
    /* one block per entry is the current implementation's pattern, not something C16 states: recorded, not demanded (the
     * script's final release still demands that nothing stays allocated) */
    if (!measuring && vrt_lib_live() != (size_t)n) VRT_COUNT("observed.map.live-blocks-differ-from-entries");
}
static void map_ins(int k)
{
    cstl_map_iterator_t it;
    int r;
    CALL_BEGIN("map.insert", "key %ld (held %ld)", k, mheld[k]);
    m_arg = &mkeys[k];
    r = cstl_map_insert(&M, &mkeys[k], &mvals[k], &it);
    m_arg = NULL;
    if (mheld[k]) {
        VRT_CHECK(r == 1 && it.key == &mkeys[k], "faults.map.insert.existing", "insert of an existing key returned %d", r);
    } else if (r == 0) {
        require_not_fired("map.insert", "succeeded");
        VRT_CHECK(it.key == &mkeys[k] && it.val == &mvals[k], "faults.map.insert.iterator", "iterator of a new entry is wrong");
        mheld[k] = 1;
    } else {
        VRT_CHECK(r == -1, "faults.map.insert.code", "insert returned %d", r);
        require_fired("map.insert", "-1");
        VRT_CHECK(cstl_map_iterator_eq(&it, cstl_map_iterator_end(&M)), "faults.map.insert.failure-iterator", "failed insert did not yield the end iterator");
        count_fail("map.insert");
        m_failed_ins++;
    }
    map_audit();
}
static void map_erase(int k)
{
    int r;
    CALL_BEGIN("map.erase", "key %ld (held %ld)", k, mheld[k]);
    /* the out-iterator is how the client gets its key/value back to dispose of them: every other erase asks for it */
    if (k & 1) {
        cstl_map_iterator_t it;
        memset(&it, 0x5a, sizeof(it));
        mprobe = mkeys[k];
        m_arg = &mprobe;
        r = cstl_map_erase(&M, &mprobe, &it);
        m_arg = NULL;
        if (r == 0) {
            VRT_CHECK(it.key == &mkeys[k] && it.val == &mvals[k], "faults.map.erase.iterator", "erase handed back a key/value the client did not store under this key");
            COUNT("map.erase.handed-back");
        }
        VRT_CHECK(cstl_map_iterator_eq(&it, cstl_map_iterator_end(&M)), "faults.map.erase.iterator-not-end", "iterator of an erase does not compare equal to end");
    } else {
        m_arg = &mkeys[k];
        r = cstl_map_erase(&M, &mkeys[k], NULL);
        m_arg = NULL;
    }
    VRT_CHECK(r == (mheld[k] ? 0 : -1), "faults.map.erase.code", "erase returned %d for a %s key", r, mheld[k] ? "held" : "missing");
    mheld[k] = 0;
    map_audit();
}
static void script_map(void)
{
    int k;
    memset(mheld, 0, sizeof(mheld));
    m_arg = NULL; m_failed_ins = 0;
    for (k = 0; k < MK; k++) { mkeys[k] = (k * 7) % 29; mvals[k] = k; }
    cstl_map_init(&M, map_cmp, mheld);
    for (k = 0; k < 6; k++) map_ins(k);
    map_ins(2);
    map_erase(1); map_erase(3);
    map_ins(6); map_ins(7); map_ins(1);
    map_erase(0);
    map_ins(8);
    map_ins(3);
    for (k = 12; k < 20; k++) map_ins(k);
    map_erase(13); map_erase(2); map_ins(13); map_ins(20); map_erase(15); map_ins(2);
}
static void epilogue_map(void)
{
    int n = 0, k;
    map_ins(9); map_ins(0); map_erase(9); map_ins(10); map_ins(21); map_ins(22);
    for (k = 0; k < MK; k++) n += mheld[k];
    map_clear_n = 0;
    VRT_OP0("map.clear", "");
    cstl_map_clear(&M, map_clear_cb, &map_clear_n);
    VRT_CHECK(map_clear_n == n, "faults.map.clear.count", "clear passed %d of %d entries", map_clear_n, n);
    map_audit();
    map_ins(11);
    VRT_OP0("map.clear", "second");
    cstl_map_clear(&M, NULL, NULL);
    mheld[11] = 0;
    map_audit();
}

/* ======================= vector ======================= */
static cstl_vector_t V;
static int v_live[256];
static uint64_t v_img[256];
static int v_ctor, v_dtor;
static int v_failed;        /* reserve/shrink/resize calls that failed the documented way so far in this case */
/* the slots the call in progress may construct (they enter [0,size)) / destroy (they leave it); empty outside resize/clear */
static size_t v_c_lo, v_c_hi, v_d_lo, v_d_hi;
static void v_cons(void *e, void *p)
{
    const size_t i = ((char *)e - (char *)cstl_vector_data(&V)) / 8;
    VRT_CHECK(p == &V && i < 256 && !v_live[i], "faults.vector.ctor.slot", "constructor for a wrong or already live slot");
    VRT_CHECK(i >= v_c_lo && i < v_c_hi, "faults.vector.ctor.slot-not-entering-size", "constructor for slot %zu, which this call does not bring into [0,size)", i);
    COUNT("vector.ctor.slot-checked");
    if (v_failed) COUNT("vector.ctor.checked-after-failed-call");
    v_live[i] = 1; v_img[i] = 0xc0de0000u + i * 3 + ++v_ctor * 1000003ull;
    memcpy(e, &v_img[i], 8);
}
static void v_dest(void *e, void *p)
{
    const size_t i = ((char *)e - (char *)cstl_vector_data(&V)) / 8;
    VRT_CHECK(p == &V && i < 256 && v_live[i], "faults.vector.dtor.slot", "destructor for a wrong or dead slot");
    VRT_CHECK(i >= v_d_lo && i < v_d_hi, "faults.vector.dtor.slot-staying", "destructor for slot %zu, which this call does not remove from [0,size)", i);
    VRT_CHECK(memcmp(e, &v_img[i], 8) == 0, "faults.vector.dtor.content", "destructor sees an element that is not what the constructor left there");
    COUNT("vector.dtor.slot-checked");
    v_live[i] = 0; v_dtor++;
}
static size_t v_size, v_cap;
static void vec_audit(const char *after)
{
    size_t i;
    char key[96];
    snprintf(key, sizeof(key), "faults.vector.state-changed.%s", after);
    if (cstl_vector_size(&V) != v_size) vrt_fail(key, "size %zu, model %zu", cstl_vector_size(&V), v_size);
    VRT_CHECK(cstl_vector_capacity(&V) >= v_size, "faults.vector.cap-below-size", "capacity below size");
    for (i = 0; i < v_size; i++) {
        uint64_t x;
        VRT_CHECK((char *)cstl_vector_at(&V, i) == (char *)cstl_vector_data(&V) + i * 8, "faults.vector.stride", "element %zu is not %zu * (element size given to init) behind the data pointer", i, i);
        memcpy(&x, cstl_vector_at(&V, i), 8);
        if (x != v_img[i] || !v_live[i]) vrt_fail(key, "element %zu changed", i);
    }
    for (i = v_size; i < 256; i++) VRT_CHECK(!v_live[i], "faults.vector.live-slot-outside", "slot %zu beyond size is still constructed", i);
    if (cstl_vector_capacity(&V) > 0) {
        size_t bs = 0;
        VRT_CHECK(vrt_lib_block(cstl_vector_data(&V), &bs) != NULL && bs >= (cstl_vector_capacity(&V) + 1) * 8, "faults.vector.storage",
                  "capacity %zu has no storage of that size behind it", cstl_vector_capacity(&V));
    }
}
static void vec_reserve(size_t n)
{
    const size_t before = cstl_vector_capacity(&V);
    CALL_BEGIN("vector.reserve", "%ld (cap %ld)", n, before);
    cstl_vector_reserve(&V, n);
    if (cstl_vector_capacity(&V) != before) { require_not_fired("vector.reserve", "grew"); VRT_CHECK(cstl_vector_capacity(&V) >= n, "faults.vector.reserve.cap", "capacity below the request"); }
    else if (n > before) { require_fired("vector.reserve", "no growth"); count_fail("vector.reserve"); v_failed++; }
    vec_audit("reserve");
}
static void vec_shrink(void)
{
    const size_t before = cstl_vector_capacity(&V);
    CALL_BEGIN("vector.shrink_to_fit", "(size %ld cap %ld)", v_size, before);
    cstl_vector_shrink_to_fit(&V);
    if (cstl_vector_capacity(&V) != before) { require_not_fired("vector.shrink_to_fit", "shrank"); VRT_CHECK(cstl_vector_capacity(&V) == v_size, "faults.vector.shrink.cap", "capacity != size after shrink"); }
    else if (before > v_size) { require_fired("vector.shrink_to_fit", "no change"); count_fail("vector.shrink_to_fit"); v_failed++; }
    vec_audit("shrink_to_fit");
}
static void vec_resize(size_t n)
{
    const int c0 = v_ctor, d0 = v_dtor;
    const size_t cap = cstl_vector_capacity(&V);
    CALL_BEGIN("vector.resize", "%ld (size %ld)", n, v_size);
    if (n > v_size) { v_c_lo = v_size; v_c_hi = n; } else { v_d_lo = n; v_d_hi = v_size; }
    if (VRT_ABORTS(cstl_vector_resize(&V, n))) {
        VRT_CHECK(n > cap, "faults.vector.resize.abort-within-capacity", "resize within capacity aborted");
        require_fired("vector.resize", "abort");
        VRT_CHECK(v_ctor == c0 && v_dtor == d0, "faults.vector.resize.xtor-before-abort", "constructor/destructor ran in a resize that aborted");
        count_fail("vector.resize.abort"); v_failed++;
    } else {
        require_not_fired("vector.resize", "succeeded");
        VRT_CHECK(v_ctor - c0 == (int)(n > v_size ? n - v_size : 0) && v_dtor - d0 == (int)(v_size > n ? v_size - n : 0),
                  "faults.vector.resize.xtor-count", "constructor/destructor counts wrong");
        v_size = n;
    }
    v_c_lo = v_c_hi = v_d_lo = v_d_hi = 0;
    vec_audit("resize");
}
static void script_vector(void)
{
    memset(v_live, 0, sizeof(v_live)); v_ctor = v_dtor = 0; v_size = 0; v_failed = 0;
    v_c_lo = v_c_hi = v_d_lo = v_d_hi = 0;
    cstl_vector_init_complex(&V, 8, v_cons, v_dest, &V);
    vec_reserve(4); vec_resize(3); vec_resize(10); vec_reserve(100); vec_shrink(); vec_resize(2);
    vec_resize(40); vec_shrink(); vec_reserve(41); vec_resize(41); vec_resize(7); vec_shrink();
    vec_reserve(60); vec_resize(55); vec_shrink(); vec_resize(80); vec_reserve(120); vec_shrink(); vec_resize(1); vec_shrink();
    vec_resize(9); vec_resize(30); vec_shrink();
}
static void epilogue_vector(void)
{
    vec_resize(12); vec_shrink(); vec_resize(5);
    VRT_OP0("vector.clear", "");
    v_d_lo = 0; v_d_hi = v_size;
    cstl_vector_clear(&V);
    v_d_hi = 0;
    v_size = 0;
    vec_audit("clear");
    VRT_CHECK(cstl_vector_capacity(&V) == 0, "faults.vector.clear.cap", "capacity not 0 after clear");
    vec_resize(3);
    v_d_hi = v_size;
    cstl_vector_clear(&V); v_size = 0;
    v_d_hi = 0;
    vec_audit("clear");
}

/* ======================= big elements: scratch space of sort/reverse, no memory for calls that cannot fail ======================= */
/*
 * The scripts' failpoint mask is armed through fp_arm_script() so that single calls can run with an allocator that refuses
 * EVERYTHING (nomem_begin/nomem_end) and the script's own mask continues afterwards at the ordinal where it stopped
 * (requests made inside such a window are not part of the script's numbering).
 */
static const uint8_t *g_mask; static size_t g_nbits; static int g_tail, g_armed; static uint64_t g_ordbase;
static uint8_t g_shift[64];
static uint64_t nomem_requests;
static void fp_arm_script(const uint8_t *mask, size_t nbits, int tail)
{
    g_mask = mask; g_nbits = nbits; g_tail = tail; g_ordbase = 0; g_armed = 1;
    vrt_fp_arm(mask, nbits, tail);
}
static void fp_disarm_script(void) { g_armed = 0; vrt_fp_disarm(); }
static uint64_t fp_total(void) { return g_ordbase + vrt_fp_ordinal(); }
static void nomem_begin(void)
{
    if (g_armed) g_ordbase += vrt_fp_ordinal();
    vrt_fp_arm(NULL, 0, 1);
}
static void nomem_end(void)
{
    size_t k, n;
    nomem_requests = vrt_fp_ordinal();
    if (!g_armed) { vrt_fp_disarm(); return; }
    n = g_nbits > g_ordbase ? g_nbits - (size_t)g_ordbase : 0;
    memset(g_shift, 0, sizeof(g_shift));
    for (k = 0; k < n; k++) if ((g_mask[(k + g_ordbase) >> 3] >> ((k + g_ordbase) & 7)) & 1) g_shift[k >> 3] |= (uint8_t)(1u << (k & 7));
    vrt_fp_arm(g_shift, n, g_tail);
}

#define EVMAX 16
static cstl_vector_t EV;
static size_t ev_es;                    /* element size of this script: 300, 4097, 6000 */
static size_t ev_size;
static int ev_key[EVMAX]; static unsigned ev_id[EVMAX];     /* model: what position i holds */
static int ev_idkey[32];                /* key the owner gave the element with this id */
static unsigned ev_next_id;
static int ev_ctor, ev_dtor, ev_failed;
static size_t ev_c_lo, ev_c_hi, ev_d_lo, ev_d_hi;
static int ev_probe_key;
static unsigned char ev_probe[8];
/* element = key, id, then a payload that depends on the id and the byte position (images built once per process) */
#define EVIDS 32
#define EVESMAX 6000
static unsigned char (*ev_img)[EVESMAX];
static void ev_images(void)
{
    unsigned id; size_t j;
    if (ev_img != NULL) return;
    ev_img = vrt_alloc(EVIDS * sizeof(*ev_img));
    for (id = 0; id < EVIDS; id++) for (j = 0; j < EVESMAX; j++) ev_img[id][j] = (unsigned char)(id * 31u + j * 7u + (j >> 8) + 1u);
}
static void ev_write(void *e, int key, unsigned id)
{
    unsigned char *b = e;
    memcpy(b, &key, 4); memcpy(b + 4, &id, 4);
    memcpy(b + 8, ev_img[id] + 8, ev_es - 8);
}
static int ev_intact(const void *e, int *key, unsigned *id)
{
    const unsigned char *b = e;
    memcpy(key, b, 4); memcpy(id, b + 4, 4);
    return *id < EVIDS && memcmp(b + 8, ev_img[*id] + 8, ev_es - 8) == 0;
}
static int ev_key_of(unsigned id, unsigned salt) { return (int)((id * 5u + salt) % 7u) - 3; }
static void ev_cons(void *e, void *p)
{
    const size_t off = (size_t)((char *)e - (char *)cstl_vector_data(&EV));
    const size_t i = off / ev_es;
    VRT_CHECK(p == (void *)&ev_es, "faults.bigelem.ctor.priv", "constructor called with a priv pointer the client never supplied");
    VRT_CHECK(off % ev_es == 0 && i >= ev_c_lo && i < ev_c_hi, "faults.bigelem.ctor.slot",
              "constructor for an address that is not one of the slots this call brings into [0,size) with the element size given to init");
    if (ev_failed) COUNT("bigelem.ctor.checked-after-failed-call");
    VRT_CHECK(ev_next_id < 32, "harness.faults.bigelem-ids", "more than 32 elements constructed in one script");
    ev_id[i] = ev_next_id++; ev_key[i] = ev_idkey[ev_id[i]] = ev_key_of(ev_id[i], 0);
    ev_write(e, ev_key[i], ev_id[i]);
    ev_ctor++;
}
static void ev_dest(void *e, void *p)
{
    const size_t off = (size_t)((char *)e - (char *)cstl_vector_data(&EV));
    const size_t i = off / ev_es;
    int k; unsigned id;
    VRT_CHECK(p == (void *)&ev_es, "faults.bigelem.dtor.priv", "destructor called with a priv pointer the client never supplied");
    VRT_CHECK(off % ev_es == 0 && i >= ev_d_lo && i < ev_d_hi, "faults.bigelem.dtor.slot",
              "destructor for an address that is not one of the slots this call removes from [0,size) with the element size given to init");
    VRT_CHECK(ev_intact(e, &k, &id) && k == ev_key[i] && id == ev_id[i], "faults.bigelem.dtor.content", "destructor sees an element that is not what the vector held there");
    if (ev_failed) COUNT("bigelem.dtor.checked-after-failed-call");
    memset(e, 0xa5, ev_es);
    ev_dtor++;
}
static int ev_cmp(const void *a, const void *b, void *p)
{
    int ka, kb;
    VRT_CHECK(p == (void *)&ev_probe_key, "faults.bigelem.cmp.priv", "comparator called with a priv pointer the client never supplied");
    memcpy(&ka, a, 4); memcpy(&kb, b, 4);
    return ka < kb ? -(int)(1 + (vrt_case_tick() & 3) * 1000) : ka > kb ? (int)(1 + (vrt_case_tick() & 3) * 70000) : 0;
}
/* own swap function: the scratch space handed to it must be writable for a whole element and must not be a live element */
static int ev_swaps;
static void ev_swap(void *a, void *b, void *t, size_t len)
{
    const char *d = cstl_vector_data(&EV);
    size_t bs = 0;
    char *blk;
    VRT_CHECK(len == ev_es, "faults.bigelem.swap.len", "swap called with length %zu for elements of %zu bytes", len, ev_es);
    VRT_CHECK((const char *)a >= d && (const char *)a + len <= d + ev_size * ev_es && (const char *)b >= d && (const char *)b + len <= d + ev_size * ev_es,
              "faults.bigelem.swap.operand-outside-size", "swap called for memory that is not an element in [0,size)");
    blk = vrt_lib_block(t, &bs);
    if (blk != NULL) {
        VRT_CHECK((char *)t + len <= blk + bs, "faults.bigelem.swap.scratch-outside-storage",
                  "the scratch space handed to swap has %zu bytes left in its block, the element needs %zu", (size_t)(blk + bs - (char *)t), len);
        VRT_CHECK(blk != d || (char *)t >= d + ev_size * ev_es, "faults.bigelem.swap.scratch-is-an-element", "the scratch space handed to swap overlaps a live element");
        COUNT("bigelem.swap.scratch-checked");
    } else {
        /* not inside any library block: it must not be the address directly behind the vector's storage either */
        blk = vrt_lib_block(d, &bs);
        VRT_CHECK(blk == NULL || (char *)t < blk + bs || (char *)t >= blk + bs + len, "faults.bigelem.swap.scratch-outside-storage",
                  "the scratch space handed to swap starts %zu bytes behind the end of the vector's storage", (size_t)((char *)t - (blk + bs)));
    }
    memcpy(t, a, len); memcpy(a, b, len); memcpy(b, t, len);
    ev_swaps++;
}
static void ev_audit(const char *after)
{
    size_t i, bs = 0;
    char key[96];
    const char *d = cstl_vector_data(&EV);
    snprintf(key, sizeof(key), "faults.bigelem.state-changed.%s", after);
    if (cstl_vector_size(&EV) != ev_size) vrt_fail(key, "size %zu, model %zu", cstl_vector_size(&EV), ev_size);
    VRT_CHECK(cstl_vector_capacity(&EV) >= ev_size, "faults.bigelem.cap-below-size", "capacity below size");
    for (i = 0; i < ev_size; i++) {
        int k; unsigned id;
        const char *e = cstl_vector_at(&EV, i);
        VRT_CHECK(e == d + i * ev_es, "faults.bigelem.stride", "element %zu is not %zu * (element size given to init) behind the data pointer", i, i);
        if (!ev_intact(e, &k, &id) || k != ev_key[i] || id != ev_id[i]) vrt_fail(key, "element %zu changed", i);
    }
    if (cstl_vector_capacity(&EV) > 0)
        VRT_CHECK(vrt_lib_block(d, &bs) == (void *)d && bs >= cstl_vector_capacity(&EV) * ev_es, "faults.bigelem.storage",
                  "capacity %zu has no storage of that size behind it (block of %zu bytes)", cstl_vector_capacity(&EV), bs);
    if (ev_failed) COUNT("bigelem.audit.after-failed-call");
}
static void ev_reserve(size_t n)
{
    const size_t before = cstl_vector_capacity(&EV);
    CALL_BEGIN("vector.reserve", "%ld (cap %ld, big elements)", n, before);
    cstl_vector_reserve(&EV, n);
    if (cstl_vector_capacity(&EV) != before) { require_not_fired("vector.reserve", "grew"); VRT_CHECK(cstl_vector_capacity(&EV) >= n, "faults.bigelem.reserve.cap", "capacity below the request"); }
    else if (n > before) { require_fired("vector.reserve", "no growth"); count_fail("vector.reserve"); ev_failed++; }
    ev_audit("reserve");
}
static void ev_shrink(void)
{
    const size_t before = cstl_vector_capacity(&EV);
    CALL_BEGIN("vector.shrink_to_fit", "(size %ld cap %ld, big elements)", ev_size, before);
    cstl_vector_shrink_to_fit(&EV);
    if (cstl_vector_capacity(&EV) != before) { require_not_fired("vector.shrink_to_fit", "shrank"); VRT_CHECK(cstl_vector_capacity(&EV) == ev_size, "faults.bigelem.shrink.cap", "capacity != size after shrink"); }
    else if (before > ev_size) { require_fired("vector.shrink_to_fit", "no change"); count_fail("vector.shrink_to_fit"); ev_failed++; }
    ev_audit("shrink_to_fit");
}
static void ev_resize(size_t n)
{
    const int c0 = ev_ctor, d0 = ev_dtor;
    const unsigned id0 = ev_next_id;
    const size_t cap = cstl_vector_capacity(&EV);
    CALL_BEGIN("vector.resize", "%ld (size %ld, big elements)", n, ev_size);
    if (n > ev_size) { ev_c_lo = ev_size; ev_c_hi = n; } else { ev_d_lo = n; ev_d_hi = ev_size; }
    if (VRT_ABORTS(cstl_vector_resize(&EV, n))) {
        VRT_CHECK(n > cap, "faults.bigelem.resize.abort-within-capacity", "resize within capacity aborted");
        require_fired("vector.resize", "abort");
        VRT_CHECK(ev_ctor == c0 && ev_dtor == d0, "faults.bigelem.resize.xtor-before-abort", "constructor/destructor ran in a resize that aborted");
        count_fail("vector.resize.abort"); ev_failed++;
        ev_next_id = id0;
    } else {
        require_not_fired("vector.resize", "succeeded");
        VRT_CHECK(ev_ctor - c0 == (int)(n > ev_size ? n - ev_size : 0) && ev_dtor - d0 == (int)(ev_size > n ? ev_size - n : 0),
                  "faults.bigelem.resize.xtor-count", "constructor/destructor counts wrong");
        ev_size = n;
    }
    ev_c_lo = ev_c_hi = ev_d_lo = ev_d_hi = 0;
    ev_audit("resize");
}
/* the owner changes its data between calls, through the data pointer */
static void ev_rekey(unsigned salt)
{
    size_t i;
    for (i = 0; i < ev_size; i++) { ev_key[i] = ev_idkey[ev_id[i]] = ev_key_of(ev_id[i], salt); ev_write((char *)cstl_vector_data(&EV) + i * ev_es, ev_key[i], ev_id[i]); }
}
/* calls without a documented failure mode: whole job, same capacity, with the script's mask or with no memory at all */
static size_t ev_cap0;
static void ev_nofail_begin(int nomem) { ev_cap0 = cstl_vector_capacity(&EV); if (nomem) nomem_begin(); }
static void ev_nofail_end(int nomem, const char *entry)
{
    char key[96];
    if (nomem) {
        nomem_end();
        COUNT("bigelem.nomem.calls");
        if (nomem_requests > 0) COUNT("bigelem.nomem.requests-refused");
    }
    if (cstl_vector_capacity(&EV) != ev_cap0) {
        snprintf(key, sizeof(key), "faults.bigelem.capacity-changed.%s", entry);
        vrt_fail(key, "%s changed the capacity from %zu to %zu", entry, ev_cap0, cstl_vector_capacity(&EV));
    }
    if (ev_cap0 == ev_size) COUNT("bigelem.nofail-call.capacity-equals-size");
}
static void ev_sort(int how, int nomem)
{
    static const cstl_sort_algorithm_t algo[3] = { CSTL_SORT_ALGORITHM_QUICK, CSTL_SORT_ALGORITHM_HEAP, CSTL_SORT_ALGORITHM_QUICK_M };
    unsigned before = 0, seen = 0;
    size_t i;
    for (i = 0; i < ev_size; i++) before |= 1u << (ev_id[i] & 31);
    CALL_BEGIN("vector.sort", "how %ld nomem %ld (big elements)", how, nomem);
    ev_nofail_begin(nomem);
    ev_swaps = 0;
    if (how == 0) cstl_vector_sort(&EV, ev_cmp, &ev_probe_key);
    else __cstl_vector_sort(&EV, ev_cmp, &ev_probe_key, how & 1 ? ev_swap : cstl_swap, algo[how % 3]);
    ev_nofail_end(nomem, "sort");
    VRT_CHECK(cstl_vector_size(&EV) == ev_size, "faults.bigelem.sort.size", "sort changed the size");
    for (i = 0; i < ev_size; i++) {
        int k; unsigned id;
        VRT_CHECK(ev_intact(cstl_vector_at(&EV, i), &k, &id) && id < ev_next_id && k == ev_idkey[id],
                  "faults.bigelem.sort.element-torn", "element %zu is not one of the elements the vector held (mixed bytes)", i);
        VRT_CHECK(!(seen & (1u << (id & 31))) && (before & (1u << (id & 31))), "faults.bigelem.sort.not-a-permutation", "element %zu appears twice or was not in the vector", i);
        seen |= 1u << (id & 31);
        VRT_CHECK(i == 0 || ev_key[i - 1] <= k, "faults.bigelem.sort.order", "element %zu is smaller than its predecessor", i);
        ev_key[i] = k; ev_id[i] = id;
    }
    if (ev_size > 1) { COUNT("bigelem.sort.checked"); if (ev_swaps) COUNT("bigelem.sort.own-swap-used"); }
    ev_audit("sort");
}
static void ev_reverse(int own, int nomem)
{
    size_t i;
    CALL_BEGIN("vector.reverse", "own swap %ld nomem %ld (big elements)", own, nomem);
    ev_nofail_begin(nomem);
    if (own) __cstl_vector_reverse(&EV, ev_swap); else cstl_vector_reverse(&EV);
    ev_nofail_end(nomem, "reverse");
    for (i = 0; i < ev_size / 2; i++) {
        const int k = ev_key[i]; const unsigned id = ev_id[i];
        ev_key[i] = ev_key[ev_size - 1 - i]; ev_id[i] = ev_id[ev_size - 1 - i];
        ev_key[ev_size - 1 - i] = k; ev_id[ev_size - 1 - i] = id;
    }
    if (ev_size > 1) COUNT("bigelem.reverse.checked");
    ev_audit("reverse");        /* exact: position i holds what size-1-i held */
}
/* search needs a sorted vector: only called directly after a sort */
static void ev_search(int key, int linear, int nomem)
{
    ssize_t r;
    size_t i;
    int present = 0;
    for (i = 0; i < ev_size; i++) present |= ev_key[i] == key;
    ev_probe_key = key; memcpy(ev_probe, &key, 4);
    CALL_BEGIN("vector.search", "key %ld linear %ld (big elements)", key, linear);
    ev_nofail_begin(nomem);
    r = linear ? cstl_vector_find(&EV, ev_probe, ev_cmp, &ev_probe_key) : cstl_vector_search(&EV, ev_probe, ev_cmp, &ev_probe_key);
    ev_nofail_end(nomem, linear ? "find" : "search");
    if (present) VRT_CHECK(r >= 0 && (size_t)r < ev_size && ev_key[r] == key, "faults.bigelem.search.result", "search for a key the vector holds returned %zd", r);
    else VRT_CHECK(r == -1, "faults.bigelem.search.phantom", "search for a key the vector does not hold returned %zd", r);
    COUNT("bigelem.search.checked");
    ev_audit("search");
}
static void script_bigelem(size_t es)
{
    ev_images();
    ev_es = es; ev_size = 0; ev_next_id = 0; ev_ctor = ev_dtor = ev_failed = 0;
    ev_c_lo = ev_c_hi = ev_d_lo = ev_d_hi = 0;
    memset(&EV, 0x5a, sizeof(EV));
    cstl_vector_init_complex(&EV, es, ev_cons, ev_dest, &ev_es);
    ev_reserve(2); ev_resize(2); ev_sort(0, 1); ev_reverse(0, 1);
    ev_resize(5); ev_sort(1, 0); ev_search(1, 0, 1); ev_search(-2, 0, 0); ev_reverse(1, 1); ev_search(0, 1, 1);
    ev_shrink(); ev_rekey(3); ev_sort(2, 1); ev_reverse(0, 0); ev_sort(3, 1);
    ev_resize(9); ev_sort(0, 1); ev_search(3, 0, 1); ev_search(9, 1, 0); ev_reverse(1, 0);
    ev_resize(3); ev_shrink(); ev_reverse(0, 1); ev_rekey(1); ev_sort(4, 1); ev_sort(5, 0);
    ev_reserve(11); ev_resize(7); ev_sort(1, 1); ev_reverse(1, 1); ev_shrink(); ev_sort(0, 1); ev_reverse(0, 1);
}
static void script_bigelem_300(void) { script_bigelem(300); }
static void script_bigelem_4097(void) { script_bigelem(4097); }
static void script_bigelem_6000(void) { script_bigelem(6000); }
static void epilogue_bigelem(void)
{
    ev_resize(4); ev_shrink(); ev_sort(3, 1); ev_search(0, 0, 1); ev_reverse(1, 1); ev_resize(6); ev_sort(0, 1);
    VRT_OP0("vector.clear", "(big elements)");
    ev_d_lo = 0; ev_d_hi = ev_size;
    cstl_vector_clear(&EV);
    ev_d_hi = 0; ev_size = 0;
    ev_audit("clear");
    VRT_CHECK(cstl_vector_capacity(&EV) == 0, "faults.bigelem.clear.cap", "capacity not 0 after clear");
}

/* ======================= objects past 64 KiB / 128 KiB (growth policies with thresholds) ======================= */
#define P_BIGBUF ((size_t)100 << 10)
static cstl_vector_t BV;
static size_t bv_size;
static uint32_t bv_val(size_t i) { return (uint32_t)(i * 2654435761u + 12345u); }
static void bigvec_audit(const char *after)
{
    size_t i, bs = 0;
    char key[96];
    snprintf(key, sizeof(key), "faults.bigvector.state-changed.%s", after);
    if (cstl_vector_size(&BV) != bv_size) vrt_fail(key, "size %zu, model %zu", cstl_vector_size(&BV), bv_size);
    VRT_CHECK(cstl_vector_capacity(&BV) >= bv_size, "faults.bigvector.cap-below-size", "capacity below size");
    if (cstl_vector_capacity(&BV) > 0)
        VRT_CHECK(vrt_lib_block(cstl_vector_data(&BV), &bs) != NULL && bs >= (cstl_vector_capacity(&BV) + 1) * 4, "faults.bigvector.storage",
                  "capacity %zu has no storage of that size behind it (block of %zu bytes)", cstl_vector_capacity(&BV), bs);
    for (i = 0; i < bv_size; i++) if (*(uint32_t *)cstl_vector_at(&BV, i) != bv_val(i)) vrt_fail(key, "element %zu changed", i);
    /* every slot up to the capacity and the scratch slot behind it is writable (red zones) */
    if (cstl_vector_capacity(&BV) > 0) memset((char *)cstl_vector_data(&BV) + bv_size * 4, 0xEE, (cstl_vector_capacity(&BV) + 1 - bv_size) * 4);
}
static void bigvec_resize(size_t n)
{
    const size_t cap = cstl_vector_capacity(&BV);
    size_t i;
    CALL_BEGIN("vector.resize", "%ld (size %ld, big)", n, bv_size);
    if (VRT_ABORTS(cstl_vector_resize(&BV, n))) {
        VRT_CHECK(n > cap, "faults.bigvector.resize.abort-within-capacity", "resize within capacity aborted");
        require_fired("vector.resize", "abort"); count_fail("vector.resize.abort");
    } else {
        for (i = bv_size; i < n; i++) *(uint32_t *)cstl_vector_at(&BV, i) = bv_val(i);
        bv_size = n;
    }
    bigvec_audit("resize");
}
/* a reserve that did not grow has not let go of the buffer it had either: the event log of the call shows no free of it and no
 * realloc that took it over (the audit afterwards reads the content through it) */
static void big_reserve_kept(const char *key, const void *old, size_t oldsz)
{
    int e;
    if (old == NULL) return;
    for (e = 0; e < vrt_ev_n(); e++) {
        const struct vrt_aev *ev = vrt_ev(e);
        if (ev->p == old && (ev->kind == 'f' || (ev->kind == 'r' && !ev->failed)))
            vrt_fail(key, "a reserve that failed gave the buffer the container still uses back to the allocator inside the call");
    }
    if (oldsz >= P_BIGBUF) COUNT("bigreserve.failed-from-big-buffer.old-buffer-untouched");
}
static void bigvec_reserve(size_t n)
{
    const size_t before = cstl_vector_capacity(&BV);
    size_t oldsz = 0;
    const void *const old = cstl_vector_data(&BV) != NULL ? vrt_lib_block(cstl_vector_data(&BV), &oldsz) : NULL;
    CALL_BEGIN("vector.reserve", "%ld (cap %ld, big)", n, before);
    cstl_vector_reserve(&BV, n);
    if (cstl_vector_capacity(&BV) != before) {
        VRT_CHECK(cstl_vector_capacity(&BV) >= n, "faults.bigvector.reserve.cap", "capacity below the request");
        if (oldsz >= P_BIGBUF) COUNT("bigreserve.vector.grew-from-big-buffer");
    } else if (n > before) {
        require_fired("vector.reserve", "no growth"); count_fail("vector.reserve");
        big_reserve_kept("faults.bigvector.reserve.failed-call-released-storage", old, oldsz);
        if (oldsz >= P_BIGBUF) COUNT("bigreserve.vector.failed-from-big-buffer");
    }
    bigvec_audit("reserve");
}
static void bigvec_shrink(void)
{
    CALL_BEGIN("vector.shrink_to_fit", "(size %ld, big)", bv_size, 0);
    cstl_vector_shrink_to_fit(&BV);
    bigvec_audit("shrink_to_fit");
}
static void script_bigvector(void)
{
    bv_size = 0;
    cstl_vector_init(&BV, 4);
    bigvec_resize(17000); bigvec_resize(30000); bigvec_reserve(50000); bigvec_shrink(); bigvec_resize(70000);
    bigvec_resize(1000); bigvec_shrink(); bigvec_resize(40000); bigvec_reserve(40001); bigvec_resize(40001); bigvec_resize(33000); bigvec_shrink();
}
static void epilogue_bigvector(void)
{
    bigvec_resize(20); bigvec_resize(36000); bigvec_shrink();
    cstl_vector_clear(&BV); bv_size = 0;
    bigvec_audit("clear");
}
static cstl_string_t BS;
static char *bs_ref; static size_t bs_len;
static void bigstr_audit(const char *after)
{
    size_t bs = 0;
    char key[96];
    snprintf(key, sizeof(key), "faults.bigstring.content-changed.%s", after);
    if (cstl_string_size(&BS) != bs_len) vrt_fail(key, "size %zu, model %zu", cstl_string_size(&BS), bs_len);
    if (memcmp(cstl_string_str(&BS), bs_ref, bs_len + 1) != 0) vrt_fail(key, "characters (or the terminator) differ from the reference");
    if (cstl_string_capacity(&BS) > 0)
        VRT_CHECK(vrt_lib_block(cstl_string_data(&BS) != NULL ? cstl_string_data(&BS) : cstl_string_str(&BS), &bs) != NULL && bs >= cstl_string_capacity(&BS) + 1, "faults.bigstring.storage",
                  "capacity %zu has no storage of that size behind it (block of %zu bytes)", cstl_string_capacity(&BS), bs);
}
static void bigstr_insch(size_t pos, size_t cnt, char c)
{
    if (pos > bs_len) pos = bs_len;
    CALL_BEGIN("string.insert_ch", "pos %ld cnt %ld (big)", pos, cnt);
    if (VRT_ABORTS(cstl_string_insert_ch(&BS, pos, cnt, c))) { require_fired("string.insert_ch", "abort"); count_fail("string.growth.abort"); }
    else { memmove(bs_ref + pos + cnt, bs_ref + pos, bs_len - pos + 1); memset(bs_ref + pos, c, cnt); bs_len += cnt; }
    bigstr_audit("insert_ch");
}
static void bigstr_ins(size_t pos, const char *str)
{
    const size_t n = strlen(str);
    if (pos > bs_len) pos = bs_len;
    CALL_BEGIN("string.insert_str", "pos %ld len %ld (big)", pos, n);
    if (VRT_ABORTS(cstl_string_insert_str(&BS, pos, str))) { require_fired("string.insert_str", "abort"); count_fail("string.growth.abort"); }
    else { memmove(bs_ref + pos + n, bs_ref + pos, bs_len - pos + 1); memcpy(bs_ref + pos, str, n); bs_len += n; }
    bigstr_audit("insert_str");
}
static void bigstr_erase(size_t pos, size_t n)
{
    if (pos >= bs_len) return;
    if (n > bs_len - pos) n = bs_len - pos;
    CALL_BEGIN("string.erase", "pos %ld n %ld (big)", pos, n);
    cstl_string_erase(&BS, pos, n);
    memmove(bs_ref + pos, bs_ref + pos + n, bs_len - pos - n + 1); bs_len -= n;
    bigstr_audit("erase");
}
static void bigstr_reserve(size_t n)
{
    const size_t before = cstl_string_capacity(&BS);
    size_t oldsz = 0;
    /* data(), not str(): an empty string still has the buffer of an earlier reserve */
    const void *const old = cstl_string_data(&BS) != NULL ? vrt_lib_block(cstl_string_data(&BS), &oldsz) : NULL;
    CALL_BEGIN("string.reserve", "%ld (cap %ld, big)", n, before);
    cstl_string_reserve(&BS, n);
    if (cstl_string_capacity(&BS) != before) {
        VRT_CHECK(cstl_string_capacity(&BS) >= n, "faults.bigstring.reserve.cap", "capacity %zu after reserve(%zu) from capacity %zu", cstl_string_capacity(&BS), n, before);
        if (oldsz >= P_BIGBUF) COUNT("bigreserve.string.grew-from-big-buffer");
    } else if (n > before) {
        require_fired("string.reserve", "no growth"); count_fail("string.reserve");
        big_reserve_kept("faults.bigstring.reserve.failed-call-released-storage", old, oldsz);
        if (oldsz >= P_BIGBUF) { COUNT("bigreserve.string.failed-from-big-buffer"); if (bs_len == 0) COUNT("bigreserve.string.failed-from-big-buffer.empty-string"); }
    }
    bigstr_audit("reserve");
}
static void bigstr_resize0(void)
{
    CALL_BEGIN("string.resize", "0 (size %ld, big)", bs_len, 0);
    /* a string that never got a buffer needs one for the terminator */
    if (VRT_ABORTS(cstl_string_resize(&BS, 0))) { require_fired("string.resize", "abort"); count_fail("string.growth.abort"); }
    else { bs_len = 0; bs_ref[0] = 0; }
    bigstr_audit("resize");
}
/* reserve from a large block to a larger one: 100 KiB -> 128 KiB -> 256 KiB -> 1 MiB, vector and string, with content and empty */
static void script_bigreserve(void)
{
    bv_size = 0;
    memset(&BV, 0x5a, sizeof(BV));
    cstl_vector_init(&BV, 4);
    bigvec_resize(25000); bigvec_reserve(25600); bigvec_reserve(32768); bigvec_reserve(65536); bigvec_reserve(262144);
    bigvec_shrink(); bigvec_reserve(100000);
    if (bs_ref == NULL) bs_ref = vrt_alloc(400000);
    bs_len = 0; bs_ref[0] = 0;
    memset(&BS, 0x5a, sizeof(BS));
    cstl_string_init(&BS);
    bigstr_insch(0, 102000, 'a'); bigstr_reserve(102400); bigstr_reserve(131072); bigstr_ins(7, "0123456789"); bigstr_reserve(262144); bigstr_reserve(1048576);
    bigstr_erase(100, 50000);
    /* nothing worth keeping in the buffer */
    bigstr_resize0(); bigstr_reserve(1100000); bigstr_insch(0, 300, 'z'); bigstr_reserve(1150000);
}
static void epilogue_bigreserve(void)
{
    bigvec_reserve(40000); bigvec_resize(30); bigvec_shrink();
    cstl_vector_clear(&BV); bv_size = 0;
    bigvec_audit("clear");
    bigstr_reserve(150000); bigstr_insch(1, 500, 'e');
    cstl_string_clear(&BS); bs_len = 0; bs_ref[0] = 0;
    bigstr_audit("clear");
}
static void script_bigstring(void)
{
    if (bs_ref == NULL) bs_ref = vrt_alloc(400000);
    bs_len = 0; bs_ref[0] = 0;
    cstl_string_init(&BS);
    bigstr_insch(0, 70000, 'a'); bigstr_ins(100, "0123456789"); bigstr_insch(5, 40000, 'b'); bigstr_erase(3, 100000);
    bigstr_insch(2, 140000, 'c'); bigstr_ins(0, "front"); bigstr_insch(150000, 70000, 'd'); bigstr_erase(10, 200000);
}
static void epilogue_bigstring(void)
{
    bigstr_insch(1, 90000, 'e'); bigstr_ins(3, "xyz");
    cstl_string_clear(&BS); bs_len = 0; bs_ref[0] = 0;
    bigstr_audit("clear");
}

/* ======================= strings (narrow and wide from one body) ======================= */
#define DEFSTR(P, CH, LEN, CMP, CPY, LIT)                                                                      \
static struct cstl_##P P##_s, P##_t;                                                                             \
static CH P##_ref[2][512]; static size_t P##_len[2];                                                             \
static struct cstl_##P *P##_obj(int w) { return w ? &P##_t : &P##_s; }                                           \
static void P##_audit(const char *after)                                                                         \
{                                                                                                                \
    int w; char key[96];                                                                                         \
    snprintf(key, sizeof(key), "faults." #P ".content-changed.%s", after);                                       \
    for (w = 0; w < 2; w++) {                                                                                    \
        if (cstl_##P##_size(P##_obj(w)) != P##_len[w]) vrt_fail(key, "string %d: size %zu, model %zu", w, cstl_##P##_size(P##_obj(w)), P##_len[w]); \
        if (memcmp(cstl_##P##_str(P##_obj(w)), P##_ref[w], (P##_len[w] + 1) * sizeof(CH)) != 0)                  \
            vrt_fail(key, "string %d: characters (or the terminator) differ from the reference", w);            \
    }                                                                                                            \
}                                                                                                                \
/* growth edit: either it happens or the call aborts with a fired failpoint and nothing changes */               \
static void P##_ins(int w, size_t pos, const CH *str)                                                            \
{                                                                                                                \
    const size_t n = LEN(str);                                                                                   \
    if (pos > P##_len[w]) pos = P##_len[w];       /* earlier failures may have left the string shorter */      \
    CALL_BEGIN(#P ".insert_str", "s%ld pos %ld", w, pos);                                                        \
    if (VRT_ABORTS(cstl_##P##_insert_str(P##_obj(w), pos, str))) {                                               \
        require_fired(#P ".insert_str", "abort"); count_fail("string.growth.abort");                             \
    } else {                                                                                                     \
        memmove(P##_ref[w] + pos + n, P##_ref[w] + pos, (P##_len[w] - pos + 1) * sizeof(CH));                    \
        memcpy(P##_ref[w] + pos, str, n * sizeof(CH)); P##_len[w] += n;                                          \
    }                                                                                                            \
    P##_audit("insert_str");                                                                                     \
}                                                                                                                \
static void P##_set(int w, const CH *str)                                                                        \
{                                                                                                                \
    CALL_BEGIN(#P ".set_str", "s%ld", w, 0);                                                                     \
    if (VRT_ABORTS(cstl_##P##_set_str(P##_obj(w), str))) {                                                       \
        require_fired(#P ".set_str", "abort"); count_fail("string.growth.abort");                                \
        /* set_str is resize(0) + append: exactly {previous content, empty} are admissible */                    \
        if (cstl_##P##_size(P##_obj(w)) == 0) { P##_len[w] = 0; P##_ref[w][0] = 0; }                             \
    } else { P##_len[w] = LEN(str); CPY(P##_ref[w], str); }                                                      \
    P##_audit("set_str");                                                                                        \
}                                                                                                                \
static void P##_insch(int w, size_t pos, size_t cnt, CH c)                                                       \
{                                                                                                                \
    size_t i;                                                                                                    \
    if (pos > P##_len[w]) pos = P##_len[w];                                                                      \
    CALL_BEGIN(#P ".insert_ch", "s%ld cnt %ld", w, cnt);                                                         \
    if (VRT_ABORTS(cstl_##P##_insert_ch(P##_obj(w), pos, cnt, c))) {                                             \
        require_fired(#P ".insert_ch", "abort"); count_fail("string.growth.abort");                              \
    } else {                                                                                                     \
        memmove(P##_ref[w] + pos + cnt, P##_ref[w] + pos, (P##_len[w] - pos + 1) * sizeof(CH));                  \
        for (i = 0; i < cnt; i++) P##_ref[w][pos + i] = c;                                                       \
        P##_len[w] += cnt;                                                                                       \
    }                                                                                                            \
    P##_audit("insert_ch");                                                                                      \
}                                                                                                                \
static void P##_resize(int w, size_t n)                                                                          \
{                                                                                                                \
    size_t i;                                                                                                    \
    CALL_BEGIN(#P ".resize", "s%ld n %ld", w, n);                                                                \
    if (VRT_ABORTS(cstl_##P##_resize(P##_obj(w), n))) {                                                          \
        require_fired(#P ".resize", "abort"); count_fail("string.growth.abort");                                 \
    } else {                                                                                                     \
        for (i = P##_len[w]; i < n; i++) P##_ref[w][i] = 0;                                                      \
        P##_len[w] = n; P##_ref[w][n] = 0;                                                                       \
    }                                                                                                            \
    P##_audit("resize");                                                                                         \
}                                                                                                                \
static void P##_reserve(int w, size_t n)                                                                         \
{                                                                                                                \
    const size_t before = cstl_##P##_capacity(P##_obj(w));                                                       \
    CALL_BEGIN(#P ".reserve", "s%ld n %ld", w, n);                                                               \
    cstl_##P##_reserve(P##_obj(w), n);                                                                           \
    if (cstl_##P##_capacity(P##_obj(w)) == before && n > before) { require_fired(#P ".reserve", "no growth"); count_fail("string.reserve"); } \
    else if (cstl_##P##_capacity(P##_obj(w)) != before) require_not_fired(#P ".reserve", "grew");               \
    P##_audit("reserve");                                                                                        \
}                                                                                                                \
static void P##_substr(size_t pos, size_t n)                                                                     \
{                                                                                                                \
    if (pos >= P##_len[0]) return;                                                                               \
    if (n > P##_len[0] - pos) n = P##_len[0] - pos;                                                              \
    CALL_BEGIN(#P ".substr", "pos %ld n %ld", pos, n);                                                           \
    if (VRT_ABORTS(cstl_##P##_substr(&P##_s, pos, n, &P##_t))) {                                                 \
        require_fired(#P ".substr", "abort"); count_fail("string.growth.abort");                                 \
    } else { memcpy(P##_ref[1], P##_ref[0] + pos, n * sizeof(CH)); P##_ref[1][n] = 0; P##_len[1] = n; }          \
    P##_audit("substr");                                                                                         \
}                                                                                                                \
static void P##_erase(int w, size_t pos, size_t n)                                                               \
{                                                                                                                \
    if (pos >= P##_len[w]) return;                                                                               \
    if (n > P##_len[w] - pos) n = P##_len[w] - pos;                                                              \
    CALL_BEGIN(#P ".erase", "s%ld pos %ld", w, pos);                                                             \
    cstl_##P##_erase(P##_obj(w), pos, n);                                                                        \
    memmove(P##_ref[w] + pos, P##_ref[w] + pos + n, (P##_len[w] - pos - n + 1) * sizeof(CH));                    \
    P##_len[w] -= n;                                                                                             \
    P##_audit("erase");                                                                                          \
}                                                                                                                \
static void P##_clear1(int w)                                                                                    \
{                                                                                                                \
    CALL_BEGIN(#P ".clear", "s%ld", w, 0);                                                                       \
    cstl_##P##_clear(P##_obj(w));                                                                                \
    P##_len[w] = 0; P##_ref[w][0] = 0;                                                                           \
    P##_audit("clear");                                                                                          \
}                                                                                                                \
static void script_##P(void)                                                                                     \
{                                                                                                                \
    cstl_##P##_init(&P##_s); cstl_##P##_init(&P##_t);                                                            \
    P##_len[0] = P##_len[1] = 0; P##_ref[0][0] = P##_ref[1][0] = 0;                                              \
    P##_set(0, LIT("hello")); P##_ins(0, 5, LIT(" world")); P##_ins(0, 0, LIT("ab")); P##_reserve(0, 64);        \
    P##_insch(0, 3, 5, LIT('x')); P##_substr(2, 6); P##_ins(1, 0, LIT("zz")); P##_erase(0, 1, 4);                \
    P##_resize(0, 90); P##_resize(0, 3); P##_reserve(1, 200); P##_set(1, LIT("a much longer replacement string value")); \
    P##_insch(1, 2, 100, LIT('y')); P##_set(0, LIT("q"));                                                        \
    P##_ins(0, 1, LIT("0123456789")); P##_ins(0, 4, LIT("abcdefghijklmnopqrstuvwxyz")); P##_substr(3, 20);      \
    P##_insch(0, 0, 60, LIT('-')); P##_resize(1, 150); P##_ins(1, 10, LIT("tail")); P##_erase(0, 2, 50);         \
    P##_reserve(0, 300); P##_ins(0, 0, LIT("front")); P##_resize(0, 260); P##_set(1, LIT("short"));              \
    /* a destination that is in use but whose buffer is too small for the result: substr has to grow it */       \
    P##_clear1(1); P##_set(1, LIT("ab")); P##_substr(0, 120); P##_clear1(1); P##_set(1, LIT("cd")); P##_substr(5, 300); \
}                                                                                                                \
static void epilogue_##P(void)                                                                                   \
{                                                                                                                \
    P##_ins(0, 0, LIT("again")); P##_resize(1, 4); P##_substr(1, 3);                                             \
    VRT_OP0(#P ".swap", "");                                                                                     \
    cstl_##P##_swap(&P##_s, &P##_t);                                                                             \
    { CH tmp[512]; size_t l = P##_len[0]; memcpy(tmp, P##_ref[0], sizeof(tmp)); memcpy(P##_ref[0], P##_ref[1], sizeof(tmp)); \
      memcpy(P##_ref[1], tmp, sizeof(tmp)); P##_len[0] = P##_len[1]; P##_len[1] = l; }                           \
    P##_audit("swap");                                                                                           \
    cstl_##P##_clear(&P##_s); cstl_##P##_clear(&P##_t);                                                          \
    P##_len[0] = P##_len[1] = 0; P##_ref[0][0] = P##_ref[1][0] = 0;                                              \
    P##_audit("clear");                                                                                          \
    P##_set(0, LIT("reuse")); cstl_##P##_clear(&P##_s); P##_len[0] = 0; P##_ref[0][0] = 0;                       \
}
#define NLIT(x) x
#define WLIT(x) L##x
DEFSTR(string, char, strlen, strcmp, strcpy, NLIT)
DEFSTR(wstring, wchar_t, wcslen, wcscmp, wcscpy, WLIT)

/* ======================= hash ======================= */
struct helem { size_t id; struct cstl_hash_node n; };
#define HN 16
static struct helem he[HN];
static int hlive[HN];
static struct cstl_hash HT;
static int h_ready;
/*
 * What a failed call must not remember: every hash function the client names is a trampoline with its own consultation
 * counter.  The model knows which function the table is configured with (h_fn_cur: the one named by the last resize that
 * took effect, -1 = the library's default because NULL was passed to a fresh table) and which one it had before that
 * (h_fn_old: may still be consulted while the incremental rehash runs).  Around every library call: no other function is
 * consulted -- in particular not one that only a FAILED resize named --, and a keyed call consults the configured one.
 */
#define HF 4
static unsigned long h_calls[HF], h_snap[HF];
static int h_fn_cur, h_fn_old;      /* -1: the library's own default / none */
static unsigned h_fn_failed;        /* bit f: function f was named by a resize that failed and by no effective one since */
static size_t h_buckets;            /* bucket count of the last resize that took effect */
static int h_quiet;                 /* audits look at the size only */
static const char *h_entry = "none";    /* library call in progress */
static int h_named = -1;            /* function argument of the resize in progress (a resize that takes effect may consult it) */
static void hfn_called(int f, size_t m)
{
    char key[128];
    h_calls[f]++;
    if (f != h_fn_cur && f != h_fn_old && f != h_named) {
        if (h_fn_failed & (1u << f)) {
            snprintf(key, sizeof(key), "faults.hash.function-of-failed-resize-consulted.%s", h_entry);
            vrt_fail(key, "%s consulted hf%d, which only a resize that failed has named (configured: hf%d, before: hf%d)", h_entry, f, h_fn_cur, h_fn_old);
        }
        snprintf(key, sizeof(key), "faults.hash.function-not-configured-consulted.%s", h_entry);
        vrt_fail(key, "%s consulted hf%d although the table is configured with hf%d (before: hf%d)", h_entry, f, h_fn_cur, h_fn_old);
    }
    if (m == 0) {
        snprintf(key, sizeof(key), "faults.hash.function-called-for-zero-buckets.%s", h_entry);
        vrt_fail(key, "%s asked hf%d for a bucket of a table of 0 buckets", h_entry, f);
    }
}
static size_t hf0(size_t k, size_t m) { hfn_called(0, m); return k % m; }
static size_t hf1(size_t k, size_t m) { hfn_called(1, m); return (5 * k + 1) % m; }
static size_t hf2(size_t k, size_t m) { hfn_called(2, m); return (3 * k + 2) % m; }
static size_t hf3(size_t k, size_t m) { hfn_called(3, m); return (k / 2 + 3) % m; }
static cstl_hash_func_t *const h_fns[HF] = { hf0, hf1, hf2, hf3 };
static int hfn_index(cstl_hash_func_t *f) { int i; for (i = 0; i < HF; i++) if (h_fns[i] == f) return i; return -1; }
static void hfn_begin(const char *entry, int named) { memcpy(h_snap, h_calls, sizeof(h_snap)); h_entry = entry; h_named = named; }
/* keyed > 0: number of keyed calls made since hfn_begin, each of which has to consult the configured function */
static void hfn_check(unsigned long keyed)
{
    char key[128];
    if (h_fn_cur >= 0 && h_calls[h_fn_cur] - h_snap[h_fn_cur] < keyed) {
        snprintf(key, sizeof(key), "faults.hash.configured-function-not-consulted.%s", h_entry);
        vrt_fail(key, "%s: the function of the last resize that took effect (hf%d) was consulted %lu times by %lu keyed calls",
                 h_entry, h_fn_cur, h_calls[h_fn_cur] - h_snap[h_fn_cur], keyed);
    }
    if (keyed && h_fn_failed) COUNT("hash.keyed-call.after-failed-resize-naming-another-function");
    if (keyed && h_fn_cur < 0) COUNT("hash.keyed-call.default-function-after-failed-first-resize");
    h_entry = "none"; h_named = -1;
}
static void hash_audit(const char *after)
{
    int i, n = 0;
    char key[96];
    snprintf(key, sizeof(key), "faults.hash.contents-changed.%s", after);
    for (i = 0; i < HN; i++) n += hlive[i];
    if (cstl_hash_size(&HT) != (size_t)n) vrt_fail(key, "size %zu, model %d", cstl_hash_size(&HT), n);
    if (!h_ready || h_quiet) return;     /* every find moves a pending rehash along: h_quiet keeps it pending for the next call */
    hfn_begin("find", -1);
    for (i = 0; i < HN; i++) {
        void *r = cstl_hash_find(&HT, he[i].id, NULL, NULL);
        if ((r == &he[i]) != (hlive[i] != 0)) vrt_fail(key, "element %d %s", i, hlive[i] ? "lost" : "found although erased");
    }
    hfn_check(HN);
}
static void hash_ins(int i);
static void hash_resize(size_t n, cstl_hash_func_t *f)
{
    float before;
    const size_t live_before = vrt_lib_live();
    float after;
    int cnt = 0, i, took = 0, pending;
    const int named = hfn_index(f);
    for (i = 0; i < HN; i++) cnt += hlive[i];
    /* the outcome of a resize is read off the load: an empty table (its first resize succeeded late) gets an element first */
    if (h_ready && cnt == 0) { hash_ins(HN - 1); cnt = 1; }
    before = h_ready ? cstl_hash_load(&HT) : -1.0f;
    /* white-box read, only to classify the situation for the counters */
    pending = h_ready && HT.bucket.rh.hash != NULL;
    CALL_BEGIN("hash.resize", "n %ld (ready %ld)", n, h_ready);
    hfn_begin("resize", named);
    cstl_hash_resize(&HT, n, f);
    hfn_check(0);
    if (!h_ready) {
        if (vrt_lib_live() > live_before) { require_not_fired("hash.resize", "allocated"); h_ready = 1; took = 1; h_fn_cur = h_fn_old = -1; h_buckets = 0; }
        else {
            require_fired("hash.resize", "nothing"); count_fail("hash.resize");
            if (named >= 0) COUNT("hash.first-resize.failed-naming-a-function");
        }
    } else {
        after = cstl_hash_load(&HT);
        if (after != (float)cnt / n) {
            /* request not taken: must be the quiet failure, nothing visible changed */
            VRT_CHECK(after == before, "faults.hash.resize.load", "load is neither size/n nor unchanged");
            require_fired("hash.resize", "no change"); count_fail("hash.resize");
            if (pending) COUNT("hash.resize.failed-while-rehash-pending");
            if (pending && named >= 0 && named != h_fn_cur && named != h_fn_old) COUNT("hash.resize.failed-while-rehash-pending.naming-another-function");
        } else took = 1;
    }
    if (took) {
        /* same geometry and (NULL or the same function): documented no-op; otherwise the named function is the table's now */
        if (n != h_buckets || (named >= 0 && named != h_fn_cur)) {
            h_fn_old = h_fn_cur;
            if (named >= 0) { h_fn_cur = named; h_fn_failed &= ~(1u << named); }
            h_buckets = n;
        }
    } else if (named >= 0 && named != h_fn_cur && named != h_fn_old) h_fn_failed |= 1u << named;
    hash_audit("resize");
}
/* a resize of an EMPTY table that already has a bucket array (sized up again before anything is inserted, or emptied by
 * erase): the load is 0 either way, so the outcome is read white-box from the geometry in force / pending; what is demanded is
 * what C16 says -- took it, or quietly did nothing after a refused request -- plus "the geometry never exceeds the storage" */
static void hash_resize_empty(size_t n, cstl_hash_func_t *f)
{
    const int named = hfn_index(f);
    size_t eff;
    int i, cnt = 0, took;
    for (i = 0; i < HN; i++) cnt += hlive[i];
    if (!h_ready || cnt != 0) return;
    CALL_BEGIN("hash.resize", "n %ld on an empty table that has buckets", n, 0);
    hfn_begin("resize", named);
    cstl_hash_resize(&HT, n, f);
    hfn_check(0);
    eff = HT.bucket.rh.hash != NULL ? HT.bucket.rh.count : HT.bucket.count;
    VRT_CHECK(HT.bucket.capacity >= HT.bucket.count && HT.bucket.capacity >= eff, "faults.hash.resize.geometry-exceeds-storage",
              "after a resize of an empty table: %zu buckets in force / %zu pending, storage for %zu", HT.bucket.count, eff, HT.bucket.capacity);
    took = eff == n;
    if (!took) { require_fired("hash.resize", "no change"); count_fail("hash.resize"); COUNT("hash.resize.empty-table.failed"); }
    else {
        COUNT("hash.resize.empty-table.took");
        if (n != h_buckets || (named >= 0 && named != h_fn_cur)) {
            h_fn_old = h_fn_cur;
            if (named >= 0) { h_fn_cur = named; h_fn_failed &= ~(1u << named); }
            h_buckets = n;
        }
    }
    if (!took && named >= 0 && named != h_fn_cur && named != h_fn_old) h_fn_failed |= 1u << named;
    hash_audit("resize");
}
static void hash_shrink(void)
{
    const size_t cap = HT.bucket.capacity;      /* white-box read, only to classify the outcome for the counters */
    CALL_BEGIN("hash.shrink_to_fit", "", 0, 0);
    hfn_begin("shrink_to_fit", -1);
    cstl_hash_shrink_to_fit(&HT);
    hfn_check(0);
    if (FIRED()) { VRT_CHECK(HT.bucket.capacity == cap || HT.bucket.at != NULL, "faults.hash.shrink", "bucket array lost"); count_fail("hash.shrink_to_fit"); }
    hash_audit("shrink_to_fit");
}
static void hash_ins(int i)
{
    if (!h_ready || hlive[i]) return;
    CALL_BEGIN("hash.insert", "e%ld", i, 0);
    hfn_begin("insert", -1);
    cstl_hash_insert(&HT, he[i].id, &he[i]); hlive[i] = 1;
    hfn_check(1);
    hash_audit("insert");
}
static void hash_del(int i)
{
    if (!h_ready || !hlive[i]) return;
    CALL_BEGIN("hash.erase", "e%ld", i, 0);
    hfn_begin("erase", -1);
    cstl_hash_erase(&HT, &he[i]); hlive[i] = 0;
    hfn_check(1);
    hash_audit("erase");
}
static int hclear_n;
static void hclear_cb(void *e, void *p) { struct helem *x = e; (void)p; VRT_CHECK(hlive[x - he], "faults.hash.clear.non-member", "clear for a non-member"); hlive[x - he] = 0; hclear_n++; }
/* the FIRST resize of a fresh or cleared table names a function and may fail; the retry passes NULL (documented: the default
 * function -- the one named by the failed call must never be consulted then), the retry after that names another one */
static void hash_first_resize(size_t n, cstl_hash_func_t *f, cstl_hash_func_t *alt)
{
    hash_resize(n, f);
    if (!h_ready) { hash_resize(n, NULL); if (h_ready) COUNT("hash.first-resize.retry-with-NULL-after-failure"); }
    if (!h_ready) { hash_resize(n, alt); if (h_ready) COUNT("hash.first-resize.retry-with-another-function-after-failure"); }
    if (!h_ready) hash_resize(n, NULL);
}
static void hash_clear_now(int which)
{
    int i, n = 0;
    for (i = 0; i < HN; i++) n += hlive[i];
    hclear_n = 0;
    VRT_OP1("hash.clear", "(clear #%ld of the script)", which);
    hfn_begin("clear", -1);
    cstl_hash_clear(&HT, hclear_cb);
    hfn_check(0);
    VRT_CHECK(hclear_n == n, "faults.hash.clear.count", "clear handed over %d of %d", hclear_n, n);
    h_ready = 0; h_fn_cur = h_fn_old = -1; h_buckets = 0;
    hash_audit("clear");
}
static void script_hash(void)
{
    int i;
    memset(hlive, 0, sizeof(hlive)); h_ready = 0; h_quiet = 0;
    h_fn_cur = h_fn_old = -1; h_fn_failed = 0; h_buckets = 0;
    for (i = 0; i < HN; i++) he[i].id = 3 * i + 1;
    cstl_hash_init(&HT, offsetof(struct helem, n));
    hash_first_resize(4, hf0, hf2);
    /* sized up again before anything is inserted: beyond the capacity, then smaller */
    hash_resize_empty(64, NULL); hash_resize_empty(6, hf0);
    for (i = 0; i < 6; i++) hash_ins(i);
    hash_resize(8, NULL); hash_ins(6);
    hash_resize(16, hf1); hash_ins(7); hash_del(2);
    hash_shrink();
    hash_resize(3, hf0); hash_ins(8);
    hash_shrink();
    hash_resize(32, NULL); hash_del(0);
    hash_resize(5, hf1);
    hash_shrink();
    hash_resize(9, hf0); hash_ins(13); hash_shrink();
    hash_resize(20, NULL); hash_ins(14); hash_resize(6, hf1); hash_shrink();
    /* a resize that fails while the rehash of the previous one is still pending, naming a third function */
    h_quiet = 1; hash_resize(40, hf0); hash_del(5); hash_resize(41, hf2); h_quiet = 0; hash_audit("resize");
    hash_shrink(); hash_resize(2, NULL); hash_shrink();
    /* emptied by erase, then grown beyond its storage */
    for (i = 0; i < HN; i++) if (hlive[i]) hash_del(i);
    hash_resize_empty(50, hf1); hash_ins(1); hash_ins(12);
    /* the table lives a second time: clear, then a FIRST resize again, naming a function the table never had */
    hash_clear_now(0);
    hash_first_resize(5, hf3, hf1);
    hash_ins(0); hash_ins(3); hash_ins(9); hash_resize(12, hf2); hash_ins(4); hash_del(3); hash_resize(30, NULL); hash_ins(11); hash_resize(31, hf3); hash_ins(15);
}
static void epilogue_hash(void)
{
    int i;
    if (!h_ready) hash_resize(4, hf0);
    for (i = 9; i < 13; i++) hash_ins(i);
    hash_resize(7, hf0); hash_del(10); hash_shrink();
    hash_clear_now(1);
    hash_resize(3, hf1); hash_ins(1); hash_ins(2);
    hash_clear_now(2);
}

/* ======================= smart pointers ======================= */
static cstl_unique_ptr_t PU;
static cstl_shared_ptr_t PS[3];
static cstl_weak_ptr_t PW;
/*
 * Every memory block that was handed out to the client (alloc succeeded and get() returned it) is registered here
 * together with what the client asked for (clear callback or none, priv).  The model knows who owns it (the unique
 * pointer; the shared pointers with a hard count; the weak pointer), so for every library call it is known which
 * blocks that call has to destroy ("dying").  The clear callback is legal only for a dying block, once, with the
 * registered priv; a dying block is freed exactly once inside the call; nothing else is ever passed to the callback.
 */
#define PB 64
enum { PB_LIVE = 1, PB_CLEARED, PB_DEAD, PB_RELEASED };
static struct pblk { void *mem; size_t sz; void *priv; int has_cb, shared, state, dying, hard; unsigned char fill; } pb[PB];
static int pb_n, pu_obj, ps_obj[3], pw_obj;
static int p_variant, p_usite, p_ssite;     /* which alloc sites get a callback / a priv pointer */
static const char *p_entry = "none";        /* library call in progress */
static char p_cookie[8];
static int p_clears;
static void p_fail(const char *what, const char *msg)
{
    char key[160];
    snprintf(key, sizeof(key), "faults.memory.%s.%s", what, p_entry);
    vrt_fail(key, "%s (during %s)", msg, p_entry);
}
/* blocks past the allocator's thresholds (100 KiB .. 1 MiB): only both ends are written, the scripts run thousands of times */
#define P_BIG ((size_t)100 << 10)
static void p_fill(void *m, int c, size_t sz)
{
    if (sz < P_BIG) { memset(m, c, sz); return; }
    memset(m, c, 512); memset((char *)m + sz - 512, c, 512);
}
static void p_clr(void *m, void *priv)
{
    int b, hit = -1, released = 0;
    for (b = 0; b < pb_n && m != NULL; b++) {
        if (pb[b].mem != m) continue;
        if (pb[b].state == PB_LIVE || pb[b].state == PB_CLEARED) hit = b;
        else if (pb[b].state == PB_RELEASED) released = 1;
    }
    if (hit < 0 && released) p_fail("callback-for-released-memory", "clear callback for memory the client took back with release");
    if (hit < 0) p_fail("callback-for-memory-never-handed-out", m == NULL ? "clear callback for a NULL pointer" : "clear callback for memory the client never got from get()");
    if (pb[hit].state == PB_CLEARED) p_fail("callback-twice", "clear callback a second time for the same memory");
    if (!pb[hit].has_cb) p_fail("callback-never-supplied", "clear callback for memory that was allocated without one");
    if (!pb[hit].shared && priv != pb[hit].priv) p_fail("callback-wrong-priv", "clear callback with a priv pointer other than the one given to alloc");
    if (!pb[hit].dying) p_fail("callback-for-memory-still-owned", "clear callback for memory that this call must not destroy");
    if (((unsigned char *)m)[0] != pb[hit].fill || ((unsigned char *)m)[pb[hit].sz - 1] != pb[hit].fill)
        p_fail("callback-content-changed", "the memory passed to the clear callback no longer holds what the client wrote");
    p_fill(m, 0xa5, pb[hit].sz);
    pb[hit].state = PB_CLEARED;
    if (pb[hit].sz >= P_BIG) COUNT("pointers.big.clear-callback.checked");
    p_clears++;
    COUNT("pointers.clear-callback.checked");
}
static int p_register(void *mem, size_t sz, int has_cb, void *priv, int shared)
{
    struct pblk *x;
    VRT_CHECK(pb_n < PB, "harness.faults.pointer-table-full", "more than %d blocks handed out in one script", PB);
    x = &pb[pb_n];
    memset(x, 0, sizeof(*x));
    x->mem = mem; x->sz = sz; x->has_cb = has_cb; x->priv = priv; x->shared = shared; x->state = PB_LIVE; x->hard = 1;
    x->fill = (unsigned char)(0x10 + pb_n);
    p_fill(mem, x->fill, sz);
    return pb_n++;
}
static void p_drop_shared(int i)
{
    const int b = ps_obj[i];
    ps_obj[i] = -1;
    if (b >= 0 && --pb[b].hard == 0) pb[b].dying = 1;
}
/* after the library call: what had to be destroyed was (callback once if supplied, freed once); returns how many blocks died */
static int p_call_end(void)
{
    int b, e, n, died = 0;
    for (b = 0; b < pb_n; b++) {
        if (!pb[b].dying) continue;
        if (pb[b].has_cb && pb[b].state != PB_CLEARED) p_fail("destroyed-without-callback", "memory with a clear callback was destroyed without calling it");
        /* free(old) or a realloc that took the old block over (success paths may be realloc or malloc+free); a realloc that was
         * refused leaves the old block where it was: it still has to be freed by this call */
        for (n = 0, e = 0; e < vrt_ev_n(); e++) {
            const struct vrt_aev *ev = vrt_ev(e);
            if (ev->p != pb[b].mem) continue;
            if (ev->kind == 'f') n++;
            else if (ev->kind == 'r' && !ev->failed) { n++; COUNT("pointers.previous-content.taken-over-by-realloc"); }
        }
        if (n != 1) p_fail("previous-content-not-freed-once", "memory whose last owner went away was not freed exactly once inside the call");
        pb[b].dying = 0; pb[b].state = PB_DEAD;
        died++;
    }
    p_entry = "none";
    return died;
}
static void p_audit(const char *after)
{
    int i, b;
    char key[96];
    snprintf(key, sizeof(key), "faults.memory.state-changed.%s", after);
    if (cstl_unique_ptr_get(&PU) != (pu_obj >= 0 ? pb[pu_obj].mem : NULL)) vrt_fail(key, "unique pointer does not hold what the model says");
    for (i = 0; i < 3; i++)
        if (cstl_shared_ptr_get(&PS[i]) != (ps_obj[i] >= 0 ? pb[ps_obj[i]].mem : NULL)) vrt_fail(key, "shared pointer %d does not hold what the model says", i);
    for (b = 0; b < pb_n; b++) {
        const unsigned char *m = pb[b].mem;
        if (pb[b].state == PB_LIVE && (m[0] != pb[b].fill || m[pb[b].sz - 1] != pb[b].fill)) vrt_fail(key, "live memory no longer holds what the client wrote");
    }
}
/* old block of a failing big alloc: was it given back by the failing call itself, and how (event log) */
static void p_big_failed(const char *what, int has_cb, int prev, size_t sz)
{
    char nm[64];
    if (prev < 0 || measuring) return;
    if (pb[prev].sz < P_BIG || sz < P_BIG) return;
    /* p_call_end has already demanded "old block freed exactly once inside the failing call" (counter names <= 63 characters) */
    snprintf(nm, sizeof(nm), "pointers.big.%s.failed-onto-occupied.%s", what, sz > pb[prev].sz ? "grow" : "shrink");
    vrt_count_dyn(nm, 1);
    snprintf(nm, sizeof(nm), "pointers.big.failed-onto-occupied.old-%s.new-%s", pb[prev].has_cb ? "cb" : "nocb", has_cb ? "cb" : "nocb");
    vrt_count_dyn(nm, 1);
}
static int unique_alloc_m(size_t sz, int mode);
static int unique_alloc(size_t sz)
{
    /* bit 1: no callback, bit 0: NULL priv */
    static const unsigned char modes[2][6] = { { 0, 1, 2, 0, 3, 1 }, { 2, 0, 1, 3, 0, 2 } };
    return unique_alloc_m(sz, modes[p_variant][p_usite % 6]);
}
static int unique_alloc_m(size_t sz, int mode)
{
    const int has_cb = !(mode & 2), prev = pu_obj;
    void *const priv = (mode & 1) ? NULL : (void *)&p_cookie[p_usite % 8];
    const size_t live0 = vrt_lib_live();
    void *g;
    p_usite++;
    CALL_BEGIN("unique_ptr.alloc", "size %ld (occupied %ld)", sz, prev >= 0);
    p_entry = "unique_ptr.alloc";
    if (prev >= 0) { pb[prev].dying = 1; pu_obj = -1; }
    cstl_unique_ptr_alloc(&PU, sz, has_cb ? p_clr : NULL, priv);
    g = cstl_unique_ptr_get(&PU);
    p_call_end();
    if (g != NULL) {
        require_not_fired("unique_ptr.alloc", "succeeded");
        pu_obj = p_register(g, sz, has_cb, priv, 0);
        if (sz >= P_BIG && prev >= 0) COUNT("pointers.big.unique.alloc-onto-occupied");
        if (has_cb) COUNT("pointers.unique.alloc.with-callback"); else COUNT("pointers.unique.alloc.without-callback");
        if (priv != NULL) COUNT("pointers.unique.alloc.with-priv");
    } else {
        require_fired("unique_ptr.alloc", "an empty pointer");
        count_fail("unique_ptr.alloc");
        VRT_CHECK(vrt_lib_live() + (prev >= 0) <= live0, "faults.memory.failed-alloc-holds-memory.unique_ptr.alloc", "a failed alloc kept %zu library blocks (%zu before)", vrt_lib_live(), live0);
        if (has_cb) COUNT("pointers.failed-alloc.with-callback");
        if (prev >= 0) COUNT("pointers.unique.failed-alloc-onto-occupied");
        p_big_failed("unique", has_cb, prev, sz);
        if (prev >= 0 && pb[prev].has_cb) COUNT("pointers.failed-alloc.previous-cleared-once");
    }
    p_audit("unique_ptr.alloc");
    return g != NULL;
}
static void unique_reset(void)
{
    const int prev = pu_obj;
    CALL_BEGIN("unique_ptr.reset", "(occupied %ld)", prev >= 0, 0);
    p_entry = "unique_ptr.reset";
    if (prev >= 0) { pb[prev].dying = 1; pu_obj = -1; }
    cstl_unique_ptr_reset(&PU);
    p_call_end();
    p_audit("unique_ptr.reset");
}
/* release: the client takes memory, callback and priv back; the library must never touch any of them again */
static void unique_release(void)
{
    cstl_xtor_func_t *clr = NULL;
    void *priv = p_cookie, *m;
    const int prev = pu_obj;
    CALL_BEGIN("unique_ptr.release", "(occupied %ld)", prev >= 0, 0);
    p_entry = "unique_ptr.release";
    m = cstl_unique_ptr_release(&PU, &clr, p_variant ? NULL : &priv);
    p_call_end();
    pu_obj = -1;
    if (prev >= 0) {
        VRT_CHECK(m == pb[prev].mem, "faults.memory.release.pointer", "release returned another pointer than get() did");
        VRT_CHECK(clr == (pb[prev].has_cb ? p_clr : NULL), "faults.memory.release.callback", "release returned a callback the client did not supply for this memory");
        if (!p_variant) VRT_CHECK(priv == pb[prev].priv, "faults.memory.release.priv", "release returned a priv pointer the client did not supply for this memory");
        VRT_CHECK(pb[prev].state == PB_LIVE, "faults.memory.release.cleared", "release ran the clear callback");
        pb[prev].state = PB_RELEASED;
        vrt_lib_free_block(m);
        COUNT("pointers.unique.release");
    } else {
        VRT_CHECK(m == NULL, "faults.memory.release.pointer", "release of an empty pointer returned memory");
    }
    p_audit("unique_ptr.release");
}
static int shared_alloc_m(int i, size_t sz, int has_cb);
static int shared_alloc(int i, size_t sz) { return shared_alloc_m(i, sz, ((p_ssite + p_variant) & 1) == 0); }
static int shared_alloc_m(int i, size_t sz, const int has_cb)
{
    const int prev = ps_obj[i], occupied = prev >= 0;
    const size_t live0 = vrt_lib_live();
    int died;
    void *g;
    p_ssite++;
    CALL_BEGIN("shared_ptr.alloc", "S%ld size %ld", i, sz);
    p_entry = "shared_ptr.alloc";
    p_drop_shared(i);
    cstl_shared_ptr_alloc(&PS[i], sz, has_cb ? p_clr : NULL);
    g = cstl_shared_ptr_get(&PS[i]);
    died = p_call_end();
    if (g != NULL) {
        require_not_fired("shared_ptr.alloc", "succeeded");
        ps_obj[i] = p_register(g, sz, has_cb, NULL, 1);
        if (sz >= P_BIG && occupied) COUNT("pointers.big.shared.alloc-onto-occupied");
        if (has_cb) COUNT("pointers.shared.alloc.with-callback"); else COUNT("pointers.shared.alloc.without-callback");
    } else {
        require_fired("shared_ptr.alloc", "an empty pointer");
        count_fail("shared_ptr.alloc");
        VRT_CHECK(vrt_lib_live() + (size_t)died <= live0, "faults.memory.failed-alloc-holds-memory.shared_ptr.alloc", "a failed alloc kept %zu library blocks (%zu before)", vrt_lib_live(), live0);
        if (has_cb) COUNT("pointers.failed-alloc.with-callback");
        if (occupied && died) COUNT("pointers.shared.failed-alloc-onto-last-owner");
        if (occupied && died) p_big_failed("shared", has_cb, prev, sz);
        if (occupied && !died && pb[prev].sz >= P_BIG) COUNT("pointers.big.shared.failed-alloc-onto-co-owned");
        if (occupied && died && pb[prev].has_cb) COUNT("pointers.failed-alloc.previous-cleared-once");
        if (occupied && !died) COUNT("pointers.shared.failed-alloc-onto-co-owned");
    }
    p_audit("shared_ptr.alloc");
    return g != NULL;
}
static void shared_share(int from, int to)
{
    CALL_BEGIN("shared_ptr.share", "S%ld -> S%ld", from, to);
    p_entry = "shared_ptr.share";
    p_drop_shared(to);
    cstl_shared_ptr_share(&PS[from], &PS[to]);
    p_call_end();
    ps_obj[to] = ps_obj[from];
    if (ps_obj[to] >= 0) pb[ps_obj[to]].hard++;
    VRT_CHECK(cstl_shared_ptr_get(&PS[to]) == cstl_shared_ptr_get(&PS[from]), "faults.shared.share", "co-owners differ");
    p_audit("shared_ptr.share");
}
static void shared_reset(int i)
{
    CALL_BEGIN("shared_ptr.reset", "S%ld (occupied %ld)", i, ps_obj[i] >= 0);
    p_entry = "shared_ptr.reset";
    p_drop_shared(i);
    cstl_shared_ptr_reset(&PS[i]);
    p_call_end();
    p_audit("shared_ptr.reset");
}
static void weak_from(int i)
{
    CALL_BEGIN("weak_ptr.from", "S%ld (occupied %ld)", i, ps_obj[i] >= 0);
    p_entry = "weak_ptr.from";
    cstl_weak_ptr_from(&PW, &PS[i]);
    p_call_end();
    pw_obj = ps_obj[i];
    p_audit("weak_ptr.from");
}
static void weak_lock(int to)
{
    CALL_BEGIN("weak_ptr.lock", "-> S%ld (weak set %ld)", to, pw_obj >= 0);
    p_entry = "weak_ptr.lock";
    p_drop_shared(to);
    cstl_weak_ptr_lock(&PW, &PS[to]);
    p_call_end();
    if (pw_obj >= 0 && pb[pw_obj].hard > 0) { ps_obj[to] = pw_obj; pb[pw_obj].hard++; }
    VRT_CHECK(cstl_shared_ptr_get(&PS[to]) == (ps_obj[to] >= 0 ? pb[ps_obj[to]].mem : NULL), "faults.shared.lock", "lock disagrees with the surviving owner");
    p_audit("weak_ptr.lock");
}
static void script_pointers_body(void)
{
    int i, have, uhave;
    p_clears = 0; pb_n = 0; pu_obj = pw_obj = -1; p_usite = p_ssite = 0; p_entry = "none";
    cstl_unique_ptr_init(&PU); cstl_weak_ptr_init(&PW);
    for (i = 0; i < 3; i++) { cstl_shared_ptr_init(&PS[i]); ps_obj[i] = -1; }
    uhave = unique_alloc(40);
    if (!uhave) VRT_CHECK(vrt_lib_live() == 0, "faults.unique.leak", "failed unique alloc leaked");
    have = shared_alloc(0, 24);
    VRT_CHECK(vrt_lib_live() == (size_t)(uhave + 2 * have), "faults.shared.half-built-leak", "failed shared alloc left %zu live blocks", vrt_lib_live());
    shared_share(0, 1);
    weak_from(1);
    /* re-allocate an occupied pointer: "reset, then allocate" */
    shared_alloc(0, 48);
    weak_lock(2);
    shared_reset(1); shared_reset(2);
    shared_alloc(1, 8);
    unique_alloc(16);
    shared_alloc(2, 100);
    shared_share(2, 0);
    weak_from(0);
    shared_alloc(2, 10);
    shared_alloc(0, 10);
    weak_lock(1);
    shared_alloc(1, 64);
    VRT_OP0("shared_ptr.swap", "S0 <-> S1");
    cstl_shared_ptr_swap(&PS[0], &PS[1]);
    i = ps_obj[0]; ps_obj[0] = ps_obj[1]; ps_obj[1] = i;
    p_audit("shared_ptr.swap");
    shared_alloc(0, 5);
    unique_alloc(33);
    unique_release();
    unique_alloc(7);        /* onto a pointer emptied by release: the released memory is the client's now */
}
/*
 * The same pointers with blocks past the allocator's thresholds (100 KiB, 128 KiB, 256 KiB, 1 MiB): allocation onto an OCCUPIED
 * pointer without a reset in between, growing and shrinking, every combination of "previous content has a clear callback" and
 * "the request names one" (variant b flips all of them).  Oracles as above: a failing alloc leaves the pointer empty, destroys the
 * previous content once (callback once if there is one) and the old block is given back by the failing call itself.
 */
#define KiB(n) ((size_t)(n) << 10)
static void script_bigptr_body(void)
{
    /* mode bit 1: no callback, bit 0: NULL priv; f flips the callbacks */
    const int f = p_variant ? 2 : 0, c = p_variant;
    int i;
    p_clears = 0; pb_n = 0; pu_obj = pw_obj = -1; p_usite = p_ssite = 0; p_entry = "none";
    memset(&PU, 0x5a, sizeof(PU)); memset(&PW, 0x5a, sizeof(PW)); memset(PS, 0x5a, sizeof(PS));
    cstl_unique_ptr_init(&PU); cstl_weak_ptr_init(&PW);
    for (i = 0; i < 3; i++) { cstl_shared_ptr_init(&PS[i]); ps_obj[i] = -1; }
    unique_alloc_m(KiB(100), 0 ^ f);
    unique_alloc_m(KiB(128), 2 ^ f);        /* grow,   old cb,   new none */
    unique_alloc_m(KiB(256), 3 ^ f);        /* grow,   old none, new none */
    unique_alloc_m(KiB(1024), 1 ^ f);       /* grow,   old none, new cb */
    unique_alloc_m(KiB(256), 0 ^ f);        /* shrink, old cb,   new cb */
    unique_alloc_m(KiB(128), 2 ^ f);        /* shrink, old cb,   new none */
    unique_alloc_m(KiB(100), 3 ^ f);        /* shrink, old none, new none */
    unique_alloc_m(KiB(1024), 2 ^ f);       /* grow,   old none, new none */
    unique_alloc_m(KiB(128), 0 ^ f);        /* shrink, old none, new cb */
    unique_alloc_m(KiB(1024), 1 ^ f);       /* grow,   old cb,   new cb */
    shared_alloc_m(0, KiB(100), !c);
    shared_alloc_m(0, KiB(256), c);         /* grow,   old cb,   new none */
    shared_alloc_m(0, KiB(1024), c);        /* grow,   old none, new none */
    shared_alloc_m(0, KiB(128), !c);        /* shrink, old none, new cb */
    shared_alloc_m(0, KiB(256), !c);        /* grow,   old cb,   new cb */
    shared_alloc_m(0, KiB(128), c);         /* shrink, old cb,   new none */
    shared_alloc_m(0, KiB(100), c);         /* shrink, old none, new none */
    shared_alloc_m(0, KiB(1024), !c);
    shared_share(0, 1);
    shared_alloc_m(0, KiB(128), c);         /* co-owned: S1 keeps the 1 MiB block */
    weak_from(1);
    shared_alloc_m(1, KiB(256), !c);        /* last owner, a weak reference outstanding */
    weak_lock(2);
    shared_alloc_m(1, KiB(1024), c);
}
static void script_bigptr(void) { p_variant = 0; script_bigptr_body(); }
static void script_bigptr_b(void) { p_variant = 1; script_bigptr_body(); }
static void script_pointers(void) { p_variant = 0; script_pointers_body(); }
static void script_pointers_b(void) { p_variant = 1; script_pointers_body(); }
static void epilogue_pointers(void)
{
    int i, b;
    shared_alloc(2, 12);
    weak_from(2);
    unique_alloc(9);
    unique_reset();
    unique_reset();
    for (i = 0; i < 3; i++) shared_reset(i);
    weak_lock(0);
    VRT_CHECK(cstl_shared_ptr_get(&PS[0]) == NULL, "faults.shared.lock-after-death", "lock produced an owner of dead memory");
    VRT_OP0("weak_ptr.reset", "");
    p_entry = "weak_ptr.reset";
    cstl_weak_ptr_reset(&PW);
    p_entry = "none";
    pw_obj = -1;
    for (b = 0; b < pb_n; b++)
        VRT_CHECK(pb[b].state == PB_DEAD || pb[b].state == PB_RELEASED, "faults.memory.never-destroyed", "memory handed out is still owned by nobody's pointer after every pointer was reset");
}

/* ======================= arrays ======================= */
static cstl_array_t AR[4];
static char a_ext[5 * 4];
#define A_BIGNM ((size_t)4096)
static void arr_touch(cstl_array_t *a)
{
    size_t i;
    const size_t n = cstl_array_size(a);
    if (n > A_BIGNM) {
        /* big arrays: both ends and a sparse sample through at(), both ends of the storage directly (red zones) */
        memset(cstl_array_at(a, 0), 0x33, 4); memset(cstl_array_at(a, n - 1), 0x33, 4);
        for (i = 1; i < n; i += 4099) memset(cstl_array_at(a, i), 0x33, 4);
        memset(cstl_array_data(a), 0x33, 256); memset((char *)cstl_array_data(a) + n * 4 - 256, 0x33, 256);
        return;
    }
    for (i = 0; i < n; i++) memset(cstl_array_at(a, i), 0x33, 4);
}
static int arr_alloc(int i, size_t nm)
{
    /* the library block behind the object's current elements, and whether another object still shares it: a sole owner's
     * storage has to go away when alloc is called onto it ("reset, then allocate") */
    void *const d0 = cstl_array_data(&AR[i]);
    size_t oldsz = 0;
    void *const old = d0 != NULL ? vrt_lib_block(d0, &oldsz) : NULL;
    int j, e, co_owned = 0, gone = 0;
    for (j = 0; j < 4 && old != NULL; j++)
        if (j != i && cstl_array_data(&AR[j]) != NULL && vrt_lib_block(cstl_array_data(&AR[j]), NULL) == old) co_owned = 1;
    CALL_BEGIN("array.alloc", "a%ld nm %ld", i, nm);
    cstl_array_alloc(&AR[i], nm, 4);
    if (cstl_array_data(&AR[i]) != NULL) {
        require_not_fired("array.alloc", "succeeded");
        VRT_CHECK(cstl_array_size(&AR[i]) == nm, "faults.array.alloc.size", "size %zu after alloc(%zu)", cstl_array_size(&AR[i]), nm);
        if (nm > 0) {
            size_t bs = 0;
            const char *const d = cstl_array_data(&AR[i]), *const blk = vrt_lib_block(d, &bs);
            VRT_CHECK(blk != NULL && d + nm * 4 <= blk + bs, "faults.array.alloc.storage", "alloc(%zu) of 4-byte elements has no storage of that size behind it", nm);
        }
        arr_touch(&AR[i]);
        if (nm > A_BIGNM && old != NULL) COUNT("arrays.big.alloc-onto-occupied");
        return 1;
    }
    require_fired("array.alloc", "an empty object");
    VRT_CHECK(cstl_array_size(&AR[i]) == 0, "faults.array.alloc.failed-not-empty", "failed allocation left size %zu", cstl_array_size(&AR[i]));
    count_fail("array.alloc");
    if (old != NULL && !co_owned) {
        /* the previous content was given back by the failing call itself (free, or a realloc that took the block over) */
        for (e = 0; e < vrt_ev_n(); e++) {
            const struct vrt_aev *ev = vrt_ev(e);
            if (ev->p == old && (ev->kind == 'f' || (ev->kind == 'r' && !ev->failed))) gone++;
        }
        VRT_CHECK(gone == 1, "faults.array.alloc.previous-storage-not-freed-in-call",
                  "a failed alloc onto an object that alone held an allocation freed that allocation %d times inside the call", gone);
        COUNT("arrays.failed-alloc-onto-sole-owner.old-block-freed-in-call");
        if (nm > A_BIGNM && oldsz > A_BIGNM * 4) { if (nm * 4 > oldsz) COUNT("arrays.big.failed-alloc-onto-sole-owner.grow"); else COUNT("arrays.big.failed-alloc-onto-sole-owner.shrink"); }
    } else if (old != NULL) {
        VRT_CHECK(vrt_lib_block(old, NULL) == old, "faults.array.alloc.sharer-storage-freed", "a failed alloc freed storage that another array object still uses");
        if (nm > A_BIGNM && oldsz > A_BIGNM * 4) COUNT("arrays.big.failed-alloc-onto-co-owned");
    }
    return 0;
}
static char a_ext2[6 * 4];
/* set() onto any object, occupied or not: "reset, then allocate" like alloc */
static int arr_set(int i, void *buf, size_t nm)
{
    CALL_BEGIN("array.set", "a%ld nm %ld", i, nm);
    cstl_array_set(&AR[i], buf, nm, 4);
    if (cstl_array_data(&AR[i]) == NULL) {
        require_fired("array.set", "an empty object");
        VRT_CHECK(cstl_array_size(&AR[i]) == 0, "faults.array.set.failed-not-empty", "failed set left size %zu with no buffer", cstl_array_size(&AR[i]));
        VRT_CHECK(VRT_ABORTS((void)cstl_array_at(&AR[i], 0)), "faults.array.set.failed-at-no-abort", "at(0) of an object left empty by a failed set did not abort");
        count_fail("array.set");
        return 0;
    }
    require_not_fired("array.set", "succeeded");
    VRT_CHECK(cstl_array_data(&AR[i]) == buf && cstl_array_size(&AR[i]) == nm, "faults.array.set", "set did not install the buffer");
    arr_touch(&AR[i]);
    return 1;
}
static void script_arrays(void)
{
    int i, have;
    for (i = 0; i < 4; i++) cstl_array_init(&AR[i]);
    have = arr_alloc(0, 8);
    if (have) {
        VRT_OP0("array.slice", "a0[2,6) -> a1");
        cstl_array_slice(&AR[0], 2, 6, &AR[1]);
        cstl_array_unslice(&AR[1], &AR[2]);
        VRT_CHECK(cstl_array_size(&AR[1]) == 4 && cstl_array_size(&AR[2]) == 8, "faults.array.slice.size", "slice/unslice sizes wrong");
        arr_touch(&AR[1]); arr_touch(&AR[2]);
    }
    CALL_BEGIN("array.set", "a3 external", 0, 0);
    cstl_array_set(&AR[3], a_ext, 5, 4);
    if (cstl_array_data(&AR[3]) == NULL) { require_fired("array.set", "an empty object"); VRT_CHECK(cstl_array_size(&AR[3]) == 0, "faults.array.set.failed-not-empty", "failed set left a size"); count_fail("array.set"); }
    else { require_not_fired("array.set", "succeeded"); VRT_CHECK(cstl_array_data(&AR[3]) == a_ext && cstl_array_size(&AR[3]) == 5, "faults.array.set", "set did not install the buffer"); arr_touch(&AR[3]); }
    /* re-allocate an object that others still share: they must keep their buffer */
    arr_alloc(0, 3);
    if (have) { arr_touch(&AR[1]); arr_touch(&AR[2]); VRT_CHECK(cstl_array_size(&AR[1]) == 4, "faults.array.sharer-lost", "sharer changed"); }
    /* re-target a slice */
    arr_alloc(1, 6);
    if (have) arr_touch(&AR[2]);
    have = arr_alloc(2, 10);
    if (have) { VRT_OP0("array.slice", "a2[1,9) in place"); cstl_array_slice(&AR[2], 1, 9, &AR[2]); arr_touch(&AR[2]); }
    arr_alloc(2, 4);        /* alloc onto an in-place slice with non-zero offset */
    arr_alloc(0, 7); arr_alloc(1, 0); arr_alloc(3, 2);
    /* set() onto objects that currently hold an allocation / are a slice with offset / wrap an external buffer */
    arr_set(0, a_ext2, 6);
    if (arr_alloc(1, 9)) { VRT_OP0("array.slice", "a1[3,8) in place"); cstl_array_slice(&AR[1], 3, 8, &AR[1]); }
    arr_set(1, a_ext, 5);
    arr_set(0, a_ext, 5);
}
/* arrays of 100 KiB, 128 KiB, 256 KiB and 1 MiB: alloc onto an occupied object (sole owner, co-owned, in-place slice, external buffer) */
static void script_bigarrays(void)
{
    int i, have;
    memset(AR, 0x5a, sizeof(AR));
    for (i = 0; i < 4; i++) cstl_array_init(&AR[i]);
    arr_alloc(0, 25600); arr_alloc(0, 32768); arr_alloc(0, 65536); arr_alloc(0, 262144);
    arr_alloc(0, 65536); arr_alloc(0, 32768); arr_alloc(0, 25600);
    have = arr_alloc(0, 262144);
    if (have) { VRT_OP0("array.slice", "a0[1000,200000) -> a1"); cstl_array_slice(&AR[0], 1000, 200000, &AR[1]); arr_touch(&AR[1]); }
    arr_alloc(0, 32768);                /* co-owned: a1 keeps the 1 MiB block */
    if (have) { arr_touch(&AR[1]); VRT_CHECK(cstl_array_size(&AR[1]) == 199000, "faults.array.sharer-lost", "sharer changed"); }
    arr_alloc(1, 65536);                /* a slice with an offset, last owner of the 1 MiB block */
    if (cstl_array_size(&AR[1]) == 65536) { VRT_OP0("array.slice", "a1[10,60000) in place"); cstl_array_slice(&AR[1], 10, 60000, &AR[1]); arr_touch(&AR[1]); }
    arr_alloc(1, 262144);               /* grow from an in-place slice */
    arr_set(1, a_ext, 5);               /* external buffer onto a big allocation */
    arr_alloc(1, 25600);
    arr_alloc(0, 131072);
}
static void epilogue_arrays(void)
{
    void *b = NULL;
    int i;
    arr_alloc(2, 5);
    VRT_OP0("array.release", "a3");
    cstl_array_release(&AR[3], &b);
    VRT_CHECK(b == NULL || b == a_ext || b == a_ext2, "faults.array.release", "release returned a foreign buffer");
    for (i = 0; i < 4; i++) cstl_array_reset(&AR[i]);
}

/* ======================= driver ======================= */
struct script { const char *name; void (*body)(void); void (*epilogue)(void); int rand_div; };
static const struct script scripts[] = {
    { "map", script_map, epilogue_map },
    { "vector", script_vector, epilogue_vector },
    { "string", script_string, epilogue_string },
    { "wstring", script_wstring, epilogue_wstring },
    { "hash", script_hash, epilogue_hash },
    { "pointers", script_pointers, epilogue_pointers },
    { "pointers-b", script_pointers_b, epilogue_pointers },
    { "arrays", script_arrays, epilogue_arrays },
    { "bigvector", script_bigvector, epilogue_bigvector },
    { "bigstring", script_bigstring, epilogue_bigstring },
    /* N < 10: every single/suffix/pair/triple is enumerated, a sixth of the random masks covers the 2^N patterns many times */
    { "vector-e300", script_bigelem_300, epilogue_bigelem, 6 },
    { "vector-e4097", script_bigelem_4097, epilogue_bigelem, 6 },
    { "vector-e6000", script_bigelem_6000, epilogue_bigelem, 6 },
    /* sizes past the allocator's thresholds (appended: the case numbering of the scripts above stays what it was) */
    { "arrays-big", script_bigarrays, epilogue_arrays, 40 },
    { "bigreserve", script_bigreserve, epilogue_bigreserve, 40 },
    { "pointers-big", script_bigptr, epilogue_pointers, 40 },
    { "pointers-big-b", script_bigptr_b, epilogue_pointers, 40 },
};
#define NSCRIPT ((int)(sizeof(scripts) / sizeof(scripts[0])))
static uint64_t Nalloc[NSCRIPT];
static uint64_t base[NSCRIPT + 1];
static uint64_t nsingle[NSCRIPT], nsuffix[NSCRIPT], npair[NSCRIPT], ntriple[NSCRIPT], nrand[NSCRIPT];

static void run_script(int s, const uint8_t *mask, size_t nbits, int tail)
{
    fp_arm_script(mask, nbits, tail);
    faults_on = 1;
    scripts[s].body();
    fp_disarm_script();
    faults_on = 0;
    /* the faults have stopped: continued use, then release everything */
    vrt_state("after-faults");
    scripts[s].epilogue();
    vrt_state(NULL);
    if (vrt_lib_live() != 0) {
        char key[96];
        snprintf(key, sizeof(key), "faults.leak.%s", scripts[s].name);
        vrt_fail(key, "%zu library blocks live after the %s script released everything", vrt_lib_live(), scripts[s].name);
    }
}

static void measure(void)
{
    int s;
    uint8_t none[1] = { 0 };
    static int measured;
    if (measured) return;       /* the workers inherit the table from the parent */
    measured = 1;
    base[0] = 0;
    measuring = 1;
    for (s = 0; s < NSCRIPT; s++) {
        const uint64_t r = vrt_thorough ? 60000 : 6000;
        /* count in a child: a script whose fault-free run already violates (vrt_fail outside a case ends the process)
         * must not take the whole run with it; it gets N = 0 and its case 0 reports the violation from a worker */
        uint64_t n = 0;
        int fd[2], st;
        pid_t pid = -1;
        if (pipe(fd) == 0 && (pid = fork()) == 0) {
            close(fd[0]);
            fp_arm_script(none, 0, 0);
            scripts[s].body();
            n = fp_total();
            fp_disarm_script();
            if (write(fd[1], &n, sizeof(n)) != (ssize_t)sizeof(n)) _exit(3);
            scripts[s].epilogue();
            _exit(0);
        }
        if (pid > 0) {
            close(fd[1]);
            if (read(fd[0], &n, sizeof(n)) != (ssize_t)sizeof(n)) n = 0;
            close(fd[0]);
            waitpid(pid, &st, 0);
        } else {
            fp_arm_script(none, 0, 0);
            scripts[s].body();
            n = fp_total();
            fp_disarm_script();
            scripts[s].epilogue();
        }
        Nalloc[s] = n;
        nsingle[s] = Nalloc[s]; nsuffix[s] = Nalloc[s];
        npair[s] = Nalloc[s] * (Nalloc[s] - 1) / 2;
        ntriple[s] = Nalloc[s] <= 24 ? Nalloc[s] * (Nalloc[s] - 1) * (Nalloc[s] - 2) / 6 : 0;
        nrand[s] = scripts[s].rand_div > 1 ? r / (uint64_t)scripts[s].rand_div : r;
        base[s + 1] = base[s] + 1 + nsingle[s] + nsuffix[s] + npair[s] + ntriple[s] + nrand[s];
    }
    measuring = 0;
}

static void run_case(uint64_t idx)
{
    int s = 0;
    uint8_t mask[64];
    uint64_t i, N, fired_expected = 0;
    size_t nbits;
    int tail = 0;
    char nm[64];
    const char *kind;
    while (idx >= base[s + 1]) s++;
    i = idx - base[s];
    N = Nalloc[s];
    memset(mask, 0, sizeof(mask));
    nbits = N + 64 > 512 ? 512 : N + 64;
#define SETBIT(k) (mask[(k) >> 3] |= (uint8_t)(1u << ((k) & 7)))
    if (i == 0) { kind = "fault-free"; }
    else if ((i -= 1) < nsingle[s]) { kind = "single"; SETBIT(i); fired_expected = 1; }
    else if ((i -= nsingle[s]) < nsuffix[s]) { uint64_t k; kind = "suffix"; for (k = i; k < nbits; k++) SETBIT(k); tail = 1; fired_expected = 1; }
    else if ((i -= nsuffix[s]) < npair[s]) {
        uint64_t a = 0, rem = i;
        kind = "pair";
        while (rem >= N - 1 - a) { rem -= N - 1 - a; a++; }
        SETBIT(a); SETBIT(a + 1 + rem); fired_expected = 1;
    }
    else if ((i -= npair[s]) < ntriple[s]) {
        uint64_t a, b, c, cnt = 0;
        kind = "triple";
        for (a = 0; a < N; a++) for (b = a + 1; b < N; b++) for (c = b + 1; c < N; c++) {
            if (cnt++ == i) { SETBIT(a); SETBIT(b); SETBIT(c); goto done; }
        }
done:
        fired_expected = 1;
    }
    else {
        vrt_rng g;
        uint64_t k, p;
        i -= ntriple[s];
        kind = "random";
        vrt_rng_seed(&g, vrt_seed, 0xC16000 + idx);
        p = 1 + vrt_below(&g, 5);
        for (k = 0; k < nbits; k++) if (vrt_below(&g, 10) < p) SETBIT(k);
        tail = vrt_below(&g, 4) == 0;
    }
    vrt_case_note("script %s (N=%llu allocations fault-free), %s mask #%llu", scripts[s].name, (unsigned long long)N, kind, (unsigned long long)i);
    run_script(s, mask, nbits, tail);
    snprintf(nm, sizeof(nm), "masks.%s.%s", scripts[s].name, kind);
    vrt_count_dyn(nm, 1);
    snprintf(nm, sizeof(nm), "masks.%s", kind);
    vrt_count_dyn(nm, 1);
    (void)fired_expected;
    {
        uint64_t h = vrt_mix(s, tail);
        size_t k;
        for (k = 0; k < sizeof(mask); k++) h = vrt_mix(h, mask[k]);
        if (i != 0 || kind[0] != 'f') vrt_sig(0, h);
    }
    VRT_COUNT("cases");
}
static uint64_t ncases(void) { measure(); return base[NSCRIPT]; }
static void winit(void)
{
    int s;
    char nm[64];
    measure();
    vrt_sig_name(0, "script-x-fault-mask");
    if (vrt_worker_index() == 0) for (s = 0; s < NSCRIPT; s++) {
        snprintf(nm, sizeof(nm), "max.allocations-fault-free.%s", scripts[s].name);
        vrt_max_dyn(nm, Nalloc[s]);
    }
}
static const char *const required[] = {
    "hash.resize.empty-table.took", "hash.resize.empty-table.failed",
    "documented-failure.map.insert", "documented-failure.vector.reserve", "documented-failure.vector.shrink_to_fit",
    "documented-failure.vector.resize.abort", "documented-failure.string.reserve", "documented-failure.string.growth.abort",
    "documented-failure.hash.resize", "documented-failure.hash.shrink_to_fit", "documented-failure.unique_ptr.alloc",
    "documented-failure.shared_ptr.alloc", "documented-failure.array.alloc", "documented-failure.array.set",
    "masks.single", "masks.suffix", "masks.pair", "masks.triple",
    /* client callbacks only for what the client owns: the situations were driven and the callbacks were looked at */
    "pointers.clear-callback.checked", "pointers.unique.alloc.with-callback", "pointers.unique.alloc.without-callback", "pointers.unique.alloc.with-priv",
    "pointers.shared.alloc.with-callback", "pointers.shared.alloc.without-callback", "pointers.failed-alloc.with-callback",
    "pointers.unique.failed-alloc-onto-occupied", "pointers.shared.failed-alloc-onto-last-owner", "pointers.shared.failed-alloc-onto-co-owned",
    "pointers.failed-alloc.previous-cleared-once", "pointers.unique.release",
    "vector.ctor.slot-checked", "vector.dtor.slot-checked", "map.erase.handed-back",
    /* what a failed call must not remember */
    "map.cmp.checked-after-failed-insert", "vector.ctor.checked-after-failed-call",
    "hash.first-resize.failed-naming-a-function", "hash.first-resize.retry-with-NULL-after-failure",
    "hash.first-resize.retry-with-another-function-after-failure", "hash.keyed-call.default-function-after-failed-first-resize",
    "hash.keyed-call.after-failed-resize-naming-another-function", "hash.resize.failed-while-rehash-pending.naming-another-function",
    /* big elements: scratch space, calls without a failure mode with no memory at all */
    "bigelem.nomem.calls", "bigelem.sort.checked", "bigelem.sort.own-swap-used", "bigelem.reverse.checked", "bigelem.search.checked",
    "bigelem.swap.scratch-checked", "bigelem.nofail-call.capacity-equals-size", "bigelem.ctor.checked-after-failed-call",
    "bigelem.audit.after-failed-call",
    /* sizes past the allocator's thresholds: alloc onto an occupied pointer/array, reserve from a large block to a larger one */
    "pointers.big.unique.alloc-onto-occupied", "pointers.big.shared.alloc-onto-occupied", "pointers.big.clear-callback.checked",
    "pointers.big.unique.failed-onto-occupied.grow", "pointers.big.unique.failed-onto-occupied.shrink",
    "pointers.big.shared.failed-onto-occupied.grow", "pointers.big.shared.failed-onto-occupied.shrink",
    "pointers.big.failed-onto-occupied.old-cb.new-cb", "pointers.big.failed-onto-occupied.old-cb.new-nocb",
    "pointers.big.failed-onto-occupied.old-nocb.new-cb", "pointers.big.failed-onto-occupied.old-nocb.new-nocb",
    "pointers.big.shared.failed-alloc-onto-co-owned",
    "arrays.big.alloc-onto-occupied", "arrays.failed-alloc-onto-sole-owner.old-block-freed-in-call",
    "arrays.big.failed-alloc-onto-sole-owner.grow", "arrays.big.failed-alloc-onto-sole-owner.shrink", "arrays.big.failed-alloc-onto-co-owned",
    "bigreserve.vector.grew-from-big-buffer", "bigreserve.vector.failed-from-big-buffer",
    "bigreserve.string.grew-from-big-buffer", "bigreserve.string.failed-from-big-buffer", "bigreserve.string.failed-from-big-buffer.empty-string",
    "bigreserve.failed-from-big-buffer.old-buffer-untouched", NULL
};
static const struct vrt_harness H = { "faults", ncases, run_case, winit, NULL, required, 16 };
int main(int argc, char **argv) { return vrt_main(argc, argv, &H); }
