/*
 * C06 (workload B) -- real threads.  2-8 pthreads, each with its own shared /
 * weak pointer objects, are released from a barrier and run short random
 * scripts of share / reset / weak_from / lock / weak_reset / unique against
 * one allocation, round after round.  The library is compiled against the
 * shadow <stdatomic.h>/<sched.h>; vsched_point() injects seeded random
 * yields / short spins before every atomic step.
 *
 * Built with -fsanitize=thread (config "tsan": data races on the library's
 * bookkeeping) and with ASan (config "sched-asan": use-after-free / double
 * free).  In both builds every round is checked: owners read the magic of the
 * managed block right after obtaining and right before releasing ownership,
 * exactly one clear callback and no live library block at quiescence, and the
 * recorded history (global atomic clock) must be linearizable against the
 * sequential ownership model.
 *
 * Harness threads never longjmp: a failing thread records the violation,
 * raises a flag and parks; the worker's main thread leaves the case.
 */
#include "vrt.h"
#include "cstl/memory.h"
#include <pthread.h>
#include <sched.h>
#include <string.h>
#include <stdio.h>
#include <stdatomic.h>
#include <unistd.h>

#define MAXT 8
#define MAXOPS 4
#define MEMMAGIC 0x600dfeedu
#define CLRMAGIC 0xdeadc1eau

enum { O_SHARE, O_RESET0, O_RESET1, O_WFROM, O_LOCK, O_WRESET, O_UNIQUE, O_NOPS };
static const char *opname[] = { "share(S0->S1)", "reset(S0)", "reset(S1)", "weak_from(W,S0)", "lock(W->S1)", "weak_reset(W)", "unique(S0)" };

struct hop { int thr, op, result, pre_own0, pre_own1, pre_weak; uint64_t call, ret; };

struct tctx {
    cstl_shared_ptr_t S[2];
    cstl_weak_ptr_t W;
    int idx, init, nops, ops[MAXOPS];
    int own[2], weak;
    vrt_rng rng;
    struct hop h[MAXOPS];
    int nh, curop;
    pthread_t tid;
    char pad[64];
};
static struct tctx T[MAXT];
static int nthr;
static __thread struct tctx *me;

static atomic_ullong gclock;
static atomic_int phase_go, phase_done, quit, mt_failed;
static atomic_int clear_count, clear_thr, clear_opi, bookfree_thr, bookfree_opi, bookfree_count;
static pthread_mutex_t report_mu = PTHREAD_MUTEX_INITIALIZER;

static cstl_shared_ptr_t master;
static void *mem_blk, *book_blk;
static int yield_bias;

void vrt_set_mt(int on);

/* ---- failure handling from any thread ---- */
static void mt_fail(const char *key, const char *fmt, ...) __attribute__((format(printf, 2, 3)));
static void mt_fail(const char *key, const char *fmt, ...)
{
    char msg[400];
    va_list ap;
    va_start(ap, fmt);
    vsnprintf(msg, sizeof(msg), fmt, ap);
    va_end(ap);
    pthread_mutex_lock(&report_mu);
    vrt_report(key, "%s", msg);
    pthread_mutex_unlock(&report_mu);
    atomic_store(&mt_failed, 1);
    if (me != NULL) for (;;) pause();    /* park: the main thread abandons the case */
}
static void fail_hook(void)
{
    /* vrt_fail() reached from a harness thread (e.g. unexpected library abort): never longjmp across threads */
    if (me != NULL) { atomic_store(&mt_failed, 1); for (;;) pause(); }
}

/* ---- schedule-point shim: injected delays ---- */
void vsched_point(int kind, const volatile void *addr)
{
    (void)kind; (void)addr;
    if (me == NULL) return;
    switch (vrt_below(&me->rng, yield_bias)) {
    case 0: sched_yield(); break;
    case 1: { volatile int i, n = 20 + vrt_below(&me->rng, 400); for (i = 0; i < n; i++) ; break; }
    default: break;
    }
}
int vsched_yield(void) { if (me != NULL) atomic_fetch_add(&phase_go, 0); return sched_yield(); }

static void alloc_hook(int kind, void *p)
{
    if (me == NULL || kind != 'f' || p == NULL) return;
    if (p == book_blk) {
        vsched_point(0, p);
        atomic_fetch_add(&bookfree_count, 1);
        atomic_store(&bookfree_thr, me->idx); atomic_store(&bookfree_opi, me->curop);
    } else if (p == mem_blk) vsched_point(0, p);
}
static void clr_cb(void *mem, void *priv)
{
    (void)priv;
    if (me != NULL) vsched_point(0, mem);
    atomic_fetch_add(&clear_count, 1);
    atomic_store(&clear_thr, me != NULL ? me->idx : -2);
    atomic_store(&clear_opi, me != NULL ? me->curop : -2);
    if (*(uint32_t *)mem != MEMMAGIC) mt_fail("mt.clear.twice-or-foreign", "clear callback for memory that is not live managed memory");
    *(uint32_t *)mem = CLRMAGIC;
}

static void check_owner_magic(struct tctx *t, int which, const char *when)
{
    void *g = cstl_shared_ptr_get(&t->S[which]);
    char key[96];
    if (g == NULL) {
        snprintf(key, sizeof(key), "mt.owner-has-no-memory.%s", when);
        mt_fail(key, "thread %d: S%d is an owner but get() is NULL (%s)", t->idx, which, when);
        return;
    }
    if (*(volatile uint32_t *)g != MEMMAGIC) {
        snprintf(key, sizeof(key), "mt.owner-sees-cleared-memory.%s", when);
        mt_fail(key, "thread %d: S%d owns memory whose clear callback already ran (%s)", t->idx, which, when);
    }
}

static void do_op(struct tctx *t, int op)
{
    struct hop *h = &t->h[t->nh];
    t->curop = t->nh++;
    h->thr = t->idx; h->op = op; h->result = -1;
    h->pre_own0 = t->own[0]; h->pre_own1 = t->own[1]; h->pre_weak = t->weak;
    h->call = atomic_fetch_add(&gclock, 1);
    switch (op) {
    case O_SHARE:
        if (t->own[1]) check_owner_magic(t, 1, "before-release");
        cstl_shared_ptr_share(&t->S[0], &t->S[1]);
        t->own[1] = t->own[0];
        if (t->own[1]) check_owner_magic(t, 1, "after-acquire");
        break;
    case O_RESET0: case O_RESET1: {
        const int w = op == O_RESET1;
        if (t->own[w]) check_owner_magic(t, w, "before-release");
        cstl_shared_ptr_reset(&t->S[w]);
        t->own[w] = 0;
        break;
    }
    case O_WFROM:
        cstl_weak_ptr_from(&t->W, &t->S[0]);
        t->weak = t->own[0];
        break;
    case O_LOCK:
        if (t->own[1]) check_owner_magic(t, 1, "before-release");
        cstl_weak_ptr_lock(&t->W, &t->S[1]);
        h->result = cstl_shared_ptr_get(&t->S[1]) != NULL;
        t->own[1] = h->result;
        if (h->result) check_owner_magic(t, 1, "after-lock");
        if (h->result && !h->pre_weak) mt_fail("mt.lock.owner-from-empty-weak", "lock of an empty weak pointer produced an owner");
        break;
    case O_WRESET:
        cstl_weak_ptr_reset(&t->W);
        t->weak = 0;
        break;
    default:
        h->result = cstl_shared_ptr_unique(&t->S[0]);
        break;
    }
    h->ret = atomic_fetch_add(&gclock, 1);
    t->curop = -1;
}

static void *thread_main(void *arg)
{
    struct tctx *t = arg;
    int round = 0;
    me = t;
    for (;;) {
        int i;
        /* wait for the round to start */
        while (atomic_load(&phase_go) <= round) {
            if (atomic_load(&quit)) return NULL;
            sched_yield();
        }
        if (atomic_load(&quit)) return NULL;
        round++;
        for (i = 0; i < t->nops; i++) do_op(t, t->ops[i]);
        atomic_fetch_add(&phase_done, 1);
    }
}

/* ---- linearizability (same sequential model as memory_sched.c) ---- */
enum { P_DROPHARD, P_DROPSOFT, P_ADDHARD, P_ADDSOFT, P_TRYACQ, P_UNIQUE };
struct prim { int kind, op, result; };
static struct hop Hs[MAXT * MAXOPS];
static int nH;
static struct prim P[MAXT * MAXOPS * 4];
static int nP, clear_op, bookfree_op;
static uint64_t lin_nodes;
#define LIN_BUDGET 2000000
typedef unsigned __int128 pmask;

static void build_prims(void)
{
    int i;
    nP = 0;
#define ADDP(k, r) do { P[nP].kind = k; P[nP].op = i; P[nP].result = r; nP++; } while (0)
#define DROPOWNER() do { ADDP(P_DROPHARD, 0); ADDP(P_DROPSOFT, 0); } while (0)
    for (i = 0; i < nH; i++) {
        const struct hop *h = &Hs[i];
        switch (h->op) {
        case O_SHARE: if (h->pre_own1) DROPOWNER(); if (h->pre_own0) { ADDP(P_ADDHARD, 0); ADDP(P_ADDSOFT, 0); } break;
        case O_RESET0: if (h->pre_own0) DROPOWNER(); break;
        case O_RESET1: if (h->pre_own1) DROPOWNER(); break;
        case O_WFROM: if (h->pre_weak) ADDP(P_DROPSOFT, 0); if (h->pre_own0) ADDP(P_ADDSOFT, 0); break;
        case O_LOCK:
            if (h->pre_own1) DROPOWNER();
            if (h->pre_weak) { ADDP(P_TRYACQ, h->result); if (h->result) ADDP(P_ADDSOFT, 0); }
            break;
        case O_WRESET: if (h->pre_weak) ADDP(P_DROPSOFT, 0); break;
        default: if (h->pre_own0) ADDP(P_UNIQUE, h->result); break;
        }
    }
#undef DROPOWNER
#undef ADDP
}
static int lin_ready(pmask done, int j)
{
    int k;
    const struct hop *hj = &Hs[P[j].op];
    for (k = 0; k < nP; k++) {
        const struct hop *hk;
        if (k == j || (done >> k) & 1) continue;
        hk = &Hs[P[k].op];
        if (hk->ret < hj->call) return 0;
        if (hk->thr == hj->thr && k < j) return 0;
    }
    return 1;
}
static int lin_search(pmask done, int hard, int soft, int cleared, int bookfreed)
{
    int j;
    if (done == (((pmask)1 << nP) - 1)) {
        if (clear_op >= 0 && !cleared) return 0;
        if (bookfree_op >= 0 && !bookfreed) return 0;
        return 1;
    }
    if (++lin_nodes > LIN_BUDGET) return -1;
    for (j = 0; j < nP; j++) {
        int h = hard, s = soft, c = cleared, b = bookfreed, r;
        if ((done >> j) & 1) continue;
        if (!lin_ready(done, j)) continue;
        switch (P[j].kind) {
        case P_DROPHARD: h--; if (h == 0) { if (clear_op != P[j].op) continue; c = 1; } break;
        case P_DROPSOFT: s--; if (s == 0) { if (bookfree_op != P[j].op) continue; b = 1; } break;
        case P_ADDHARD: h++; break;
        case P_ADDSOFT: s++; break;
        case P_TRYACQ: if ((h > 0) != (P[j].result != 0)) continue; if (h > 0) h++; break;
        default: if ((s == 1) != (P[j].result != 0)) continue; break;
        }
        r = lin_search(done | (pmask)1 << j, h, s, c, b);
        if (r != 0) return r;
    }
    return 0;
}

/* ---- one case = one thread configuration x many rounds ---- */
static int poisoned;            /* stray threads of an abandoned case may still run: take no further cases */
static void abandon_case(void)
{
    poisoned = 1;
    /* threads are parked or still running against abandoned objects: tell them to stop when they can */
    atomic_store(&quit, 1);
    vrt_fail("mt.round-abandoned", "a harness thread reported a violation; round abandoned (see the other keys)");
}

static void run_case(uint64_t idx)
{
    vrt_rng g;
    int t, i, round, rounds, own0_init, weak0_init;
    int hidx[MAXT][MAXOPS];
    if (poisoned) { VRT_COUNT("mt.cases.skipped-after-violation"); return; }
    vrt_rng_seed(&g, vrt_seed, 0xC06B00 + idx);
    nthr = 2 + vrt_below(&g, 3) + (idx % 4 == 0 ? 4 * vrt_below(&g, 2) : 0);
    if (nthr > MAXT) nthr = MAXT;
    yield_bias = 3 + vrt_below(&g, 8);
    rounds = vrt_thorough ? 4000 : 1000;
    vrt_case_note("%d real threads, %d rounds, random scripts of 1-%d ops per round, yield bias 1/%d", nthr, rounds, MAXOPS, yield_bias);
    atomic_store(&phase_go, 0); atomic_store(&phase_done, 0); atomic_store(&quit, 0); atomic_store(&mt_failed, 0);
    for (t = 0; t < nthr; t++) {
        memset(&T[t], 0, sizeof(T[t]));
        T[t].idx = t;
        vrt_rng_seed(&T[t].rng, vrt_seed ^ idx, 77 + t);
        cstl_shared_ptr_init(&T[t].S[0]); cstl_shared_ptr_init(&T[t].S[1]); cstl_weak_ptr_init(&T[t].W);
    }
    for (t = 0; t < nthr; t++) {
        if (pthread_create(&T[t].tid, NULL, thread_main, &T[t]) != 0) vrt_fail("harness.mt.pthread_create", "pthread_create failed");
    }
    for (round = 0; round < rounds; round++) {
        VRT_OP2("mt.round", "round %ld of %ld", round, rounds);
        /* single-threaded setup of the allocation and the initial reference configuration */
        atomic_store(&clear_count, 0); atomic_store(&bookfree_count, 0);
        atomic_store(&clear_thr, -1); atomic_store(&clear_opi, -1); atomic_store(&bookfree_thr, -1); atomic_store(&bookfree_opi, -1);
        atomic_store(&gclock, 0);
        cstl_shared_ptr_init(&master);
        vrt_ev_begin();
        mem_blk = book_blk = NULL;
        cstl_shared_ptr_alloc(&master, 32, clr_cb);
        mem_blk = cstl_shared_ptr_get(&master);
        if (mem_blk == NULL) vrt_fail("harness.mt.setup", "allocation failed in setup");
        *(uint32_t *)mem_blk = MEMMAGIC;
        own0_init = weak0_init = 0;
        for (t = 0; t < nthr; t++) {
            struct tctx *x = &T[t];
            x->init = t == 0 ? 1 + 2 * vrt_below(&g, 2) : vrt_below(&g, 4);
            x->nops = 1 + vrt_below(&g, MAXOPS);
            for (i = 0; i < x->nops; i++) x->ops[i] = vrt_below(&g, O_NOPS);
            x->own[0] = x->own[1] = x->weak = 0; x->nh = 0; x->curop = -1;
            if (x->init & 1) { cstl_shared_ptr_share(&master, &x->S[0]); x->own[0] = 1; own0_init++; }
            if (x->init & 2) { cstl_weak_ptr_from(&x->W, &master); x->weak = 1; weak0_init++; }
        }
        cstl_shared_ptr_reset(&master);
        /* go */
        atomic_store(&phase_done, 0);
        atomic_fetch_add(&phase_go, 1);
        {
            uint64_t spins = 0;
            while (atomic_load(&phase_done) < nthr) {
                if (atomic_load(&mt_failed)) abandon_case();
                sched_yield();
                if (++spins > 2000000000ull) vrt_inconclusive("real-thread round did not finish after 2*10^9 yields (wall-clock hang: not a verdict; deadlocks are decided by the controlled scheduler)");
            }
        }
        if (atomic_load(&mt_failed)) abandon_case();
        /* quiescence checks */
        {
            int owners = 0, weaks = 0;
            const int cb = atomic_load(&clear_count);
            for (t = 0; t < nthr; t++) { owners += T[t].own[0] + T[t].own[1]; weaks += T[t].weak; }
            if (owners > 0 && cb != 0) { atomic_store(&quit, 1); vrt_fail("mt.cleared-while-owner-exists", "clear callback ran %d time(s) although %d owner(s) exist", cb, owners); }
            for (t = 0; t < nthr; t++) {
                if (T[t].own[0]) check_owner_magic(&T[t], 0, "at-quiescence");
                if (T[t].own[1]) check_owner_magic(&T[t], 1, "at-quiescence");
            }
            if (atomic_load(&mt_failed)) abandon_case();
            for (t = 0; t < nthr; t++) {
                cstl_shared_ptr_reset(&T[t].S[0]); cstl_shared_ptr_reset(&T[t].S[1]); cstl_weak_ptr_reset(&T[t].W);
            }
            if (atomic_load(&clear_count) != 1) {
                atomic_store(&quit, 1);
                vrt_fail(atomic_load(&clear_count) == 0 ? "mt.clear.never" : "mt.clear.more-than-once", "clear callback ran %d times", atomic_load(&clear_count));
            }
            if (vrt_lib_live() != 0) { atomic_store(&quit, 1); vrt_fail("mt.leak", "%zu library blocks live after every reference was reset", vrt_lib_live()); }
        }
        /* merge the per-thread histories and check linearizability (destruction points: clear only;
         * the bookkeeping block is not identified in this harness, so its free is not pinned) */
        nH = 0;
        for (t = 0; t < nthr; t++) for (i = 0; i < T[t].nh; i++) { hidx[t][i] = nH; Hs[nH++] = T[t].h[i]; }
        clear_op = atomic_load(&clear_thr) >= 0 && atomic_load(&clear_opi) >= 0 ? hidx[atomic_load(&clear_thr)][atomic_load(&clear_opi)] : -2;
        if (own0_init == 0) clear_op = -2;
        build_prims();
        /* bookkeeping free is not pinned here: accept any op (search with bookfree_op tried as "don't care") */
        {
            int r = 0, k;
            lin_nodes = 0;
            bookfree_op = -1;
            /* try every op as the one in which the last reference went away, and "after the scripts" */
            for (k = -2; k < nH && r == 0; k++) { bookfree_op = k; r = lin_search(0, own0_init, own0_init + weak0_init, 0, 0); }
            VRT_MAX("max.lin.search-nodes", lin_nodes);
            if (r < 0) VRT_COUNT("lin.inconclusive-budget");
            else if (r == 0) {
                char buf[400];
                size_t kk = 0;
                for (i = 0; i < nH && kk + 60 < sizeof(buf); i++)
                    kk += snprintf(buf + kk, sizeof(buf) - kk, "T%d:%s[%llu,%llu]=%d ", Hs[i].thr, opname[Hs[i].op],
                                   (unsigned long long)Hs[i].call, (unsigned long long)Hs[i].ret, Hs[i].result);
                atomic_store(&quit, 1);
                vrt_fail("mt.history-not-linearizable", "no linearization matches the results and the clear point (clear in op %d): %s", clear_op, buf);
            } else VRT_COUNT("lin.histories-linearizable");
        }
        {
            uint64_t sgn = 0x77;
            int overlap = 0;
            for (i = 0; i < nH; i++) { sgn = vrt_mix(sgn, Hs[i].thr * 16 + Hs[i].op); sgn = vrt_mix(sgn, Hs[i].call * 64 + (Hs[i].result & 3)); }
            for (i = 1; i < nH; i++) if (Hs[i].thr != Hs[0].thr && Hs[i].call < Hs[0].ret && Hs[0].call < Hs[i].ret) overlap = 1;
            if (overlap) VRT_COUNT("mt.rounds.with-overlapping-ops");
            if (vrt_sig(0, sgn)) VRT_COUNT("interleavings.sampled.distinct");
        }
        VRT_COUNT("mt.rounds");
    }
    atomic_store(&quit, 1);
    atomic_fetch_add(&phase_go, 1000000);
    for (t = 0; t < nthr; t++) pthread_join(T[t].tid, NULL);
    VRT_COUNT("mt.cases");
}

static uint64_t ncases(void) { return vrt_thorough ? 600 : 192; }
static void winit(void)
{
    vrt_set_mt(1);
    vrt_alloc_hook = alloc_hook;
    vrt_fail_hook = fail_hook;
    vrt_sig_name(0, "observed-histories");
}
static const char *const required[] = { "mt.rounds", "mt.rounds.with-overlapping-ops", "lin.histories-linearizable", NULL };
static const struct vrt_harness H = { "memory_mt", ncases, run_case, winit, NULL, required, 8 };
int main(int argc, char **argv) { return vrt_main(argc, argv, &H); }
