/*
 * hash table harness: C03 (mode "lookup"), C04 (mode "enum"), C19 (mode "incr").
 *
 * One generator drives tables through every reachable state of a small scope
 * (closure over insert/find/erase/resize/rehash/shrink/swap, all sweep
 * positions of pending grow and shrink rehashes) plus seeded random
 * histories; the mode selects the probes applied on a replica of every new
 * state and the extra oracle (hash-function call log for "incr").
 *
 * Key families: small, 64-bit, aliased (equal low 36 bits) and BOUNDARY keys (0, 1, SIZE_MAX, SIZE_MAX-1, 2^63+-1, 2^32, 2^31, ...;
 * counted as "first key after init / resize / completed rehash / clear").  Bucket counts include exact doublings of non-powers
 * of two (3->6, 5->10, 6->12, 7->14); in every second lookup/enum case cstl_hash_div / cstl_hash_mul are passed as such.
 * Visitors of find / foreach / foreach_const make read-only re-entrant calls (size, load, nested foreach_const on the same table
 * while no rehash is pending; keyed calls on a bystander table and on the other model table).
 */
#include "vrt.h"
/* Only resize and shrink_to_fit need memory (and have a documented way to fail).  In every second case everything else -- insert,
 * find, erase, rehash, enumeration, swap, clear -- runs while the allocator refuses every request. */
static int nomem_case;
#define MAY_ALLOC(stmt) do { if (nomem_case) vrt_fp_disarm(); stmt; if (nomem_case) vrt_fp_arm(NULL, 0, 1); } while (0)
#include "explore.h"
#include "cstl/hash.h"
#include <string.h>
#include <stdio.h>
#include <stdlib.h>

#define MAXT 2
#define MAXE 520
#define MAGIC 0x4a5b6c7du
#define NF 6            /* logged hash functions */

struct elem {
    uint32_t magic;
    int id;
    size_t key;
    int where;                  /* table index or -1 */
    int visits;
    int nest;                   /* visit mark of an enumeration nested in a visitor */
    uint64_t pad0;
    /* two embedded nodes: table 0 links elements through node[0], table 1 through node[1], so that the
     * `off` member of the table object is observable (swap exchanges it with everything else) */
    struct cstl_hash_node node[2];
    uint64_t pad1;
};

enum { M_LOOKUP, M_ENUM, M_INCR };
static int mode;
static int under_memcheck(void);

static struct elem *pool[MAXE];
static int npool, nkeys, ntab;
static struct cstl_hash T[MAXT];
static struct elem *LIVE[MAXT][MAXE];
static int nlive[MAXT];
static int ready[MAXT];
static int tcls[MAXT];
static int use_macro;             /* tables are made with CSTL_HASH_INITIALIZER instead of cstl_hash_init */
/* 0: small keys; 1: keys spread over all 64 bits; 2: ALIASED keys: key numbers 2j and 2j+1 differ only by
 * KALIAS = 2520 * 2^36, i.e. they agree in their low 36 bits (and in their low 16 and 32 bits) and fall into the
 * same bucket for every bucket count that divides KALIAS (all counts up to 10, every power of two, ...): a key
 * comparison or a stored key narrower than size_t confuses them */
static int bigkeys;
#define KALIAS ((size_t)2520 << 36)
/* 3: BOUNDARY keys: key number j stands for BK[(j + bkrot) % NBK] -- 0, 1, SIZE_MAX, SIZE_MAX-1 (k+1 == 0, k-1 wraps), 2^63 and its
 * neighbours, 2^32, 2^32-1, 2^31, 2^31-1 and a key whose low 32 bits are zero; key numbers past the list map to ordinary small keys
 * (the map stays injective: the incr mode needs unique keys).  A sentinel or cache that encodes "nothing" as 0 or as key+1, a signed or
 * 32-bit intermediate shows only with these, and only when such a key is the first one used after init/resize/rehash/clear. */
#define NBK 12
static const size_t BK[NBK] = { 0, SIZE_MAX, 1, SIZE_MAX - 1, (size_t)1 << 63, ((size_t)1 << 63) - 1, (size_t)1 << 32, ((size_t)1 << 32) - 1,
                                (size_t)1 << 31, ((size_t)1 << 31) - 1, SIZE_MAX << 32, ((size_t)1 << 63) + 1 };
static const char *const BKNAME[NBK] = { "0", "size-max", "1", "size-max-minus-1", "2^63", "2^63-1", "2^32", "2^32-1", "2^31", "2^31-1",
                                         "2^64-2^32", "2^63+1" };
static unsigned bkrot;
static size_t KX(size_t a);
static size_t KXB(size_t a)
{
    /* the incr mode numbers its keys 1, 4, 7, ... */
    const size_t j = mode == M_INCR ? a / 3 : a;
    return j < NBK ? BK[(j + bkrot) % NBK] : a + 2;
}
static int bk_index(size_t key)
{
    int i;
    for (i = 0; i < NBK; i++) if (BK[i] == key) return i;
    return -1;
}
static size_t KX(size_t a) { return bigkeys == 3 ? KXB(a) : bigkeys == 2 ? (a >> 1) + (a & 1) * KALIAS : bigkeys ? a | ((a * 0x9E3779B1u + 0x7F4A7C15u) << 32) : a; }            /* which embedded node the table object currently uses */

/* ---- model of the requested geometry (C19) ---- */
struct geo { size_t n; int f; };                /* f: function id, NF = unlogged cstl_hash_mul */
static struct geo inforce[MAXT], oldgeo[MAXT];
static int pending_possible[MAXT];              /* a rehash may still be in progress */
static size_t sweep_len[MAXT], keyed_since[MAXT];
static int resized_while_pending;

/* boundary-key coverage: what happened to a table since its last keyed call ("first key used after ...") */
enum { F_INIT = 1, F_RESIZE = 2, F_REHASH = 4, F_CLEAR = 8 };
static int fresh[MAXT], cleared_before[MAXT], pend_before[MAXT];
static int table_pending(int t);
static void note_keyed(int t, size_t key)
{
    static int ids[NBK];
    const int bi = bk_index(key);
    if (bi >= 0) {
        if (ids[bi] == 0) {
            char nm[64];
            snprintf(nm, sizeof(nm), "boundary.keyed.key-%s", BKNAME[bi]);
            ids[bi] = vrt_counter_id(nm) + 1;
        }
        vrt_ctr[ids[bi] - 1]++;
        if (bigkeys == 3) {
            if (fresh[t] & F_INIT) VRT_COUNT("boundary.first-key.after-init");
            if (fresh[t] & F_CLEAR) VRT_COUNT("boundary.first-key.after-clear");
            if (fresh[t] & F_RESIZE) VRT_COUNT("boundary.first-key.after-resize");
            if (fresh[t] & F_REHASH) VRT_COUNT("boundary.first-key.after-rehash-completed");
            if (fresh[t] && key + 1 == 0) VRT_COUNT("boundary.first-key.is-size-max");
            if (fresh[t] && key == 0) VRT_COUNT("boundary.first-key.is-0");
        }
    }
    fresh[t] = 0;
    pend_before[t] = table_pending(t);
}
static void done_keyed(int t)
{
    if (pend_before[t] && !table_pending(t)) fresh[t] |= F_REHASH;
}

/* ---- hash function family with logging trampolines ---- */
struct hlog { size_t k, m; int f; };
#define HLOG_MAX 4096
static struct hlog hlog[HLOG_MAX];
static int hlogn;

static size_t fam(int f, size_t k, size_t m)
{
    switch (f) {
    case 0: return k % m;
    case 1: return (7 * k + 3) % m;
    case 2: return m - 1 - (k % m);
    case 3: return 0;
    case 4: return cstl_hash_div(k, m);
    default: return cstl_hash_mul(k, m);
    }
}
#define TRAMP(i) static size_t tr##i(size_t k, size_t m) { \
        if (hlogn < HLOG_MAX) { hlog[hlogn].k = k; hlog[hlogn].m = m; hlog[hlogn].f = i; } \
        hlogn++; return fam(i, k, m); }
TRAMP(0) TRAMP(1) TRAMP(2) TRAMP(3) TRAMP(4) TRAMP(5)
static cstl_hash_func_t *const tramp[NF] = { tr0, tr1, tr2, tr3, tr4, tr5 };
static int fid_of(cstl_hash_func_t *f)
{
    int i;
    if (f == NULL) return -1;
    for (i = 0; i < NF; i++) if (f == tramp[i]) return i;
    if (f == cstl_hash_mul) return NF;
    if (f == cstl_hash_div) return NF + 2;
    return NF + 1;
}
/* lookup/enum modes, every second case: functions 4 and 5 are the library's own cstl_hash_div / cstl_hash_mul handed over as such
 * (no trampoline in between: the table sees the very pointers a client would pass) */
static int direct_fns;
static cstl_hash_func_t *fn_of(int f)
{
    if (direct_fns && f == 4) return cstl_hash_div;
    if (direct_fns && f == 5) return cstl_hash_mul;
    return tramp[f];
}

/* ---- ops ---- */
enum {
    K_INSERT = 1, K_FIND, K_ERASE, K_RESIZE, K_REHASH, K_SHRINK, K_SWAP,
    K_FOREACH, K_CLEAR, K_NK
};
/* op = kind | t<<4 | a<<8 (key / n) | b<<20 (find mode / func+1 / erase kind) */
#define OP(kind, t, a, b) ((uint32_t)(kind) | (uint32_t)(t) << 4 | (uint32_t)(a) << 8 | (uint32_t)(b) << 20)
#define OP_KIND(o) ((o) & 15)
#define OP_T(o)    (((o) >> 4) & 15)
#define OP_A(o)    (((o) >> 8) & 0xfff)
#define OP_B(o)    ((o) >> 20)

static struct elem *new_elem(int id)
{
    struct elem *e = vrt_alloc(sizeof(*e));
    memset(e, 0x5e, sizeof(*e));
    e->magic = MAGIC; e->id = id; e->where = -1; e->visits = 0; e->nest = 0;
    e->key = KX(mode == M_INCR ? (size_t)id * 3 + 1 : (size_t)(id % nkeys));
    e->node[0].key = e->node[1].key = e->key;   /* "key field initialised" for never-inserted objects */
    e->node[0].next = e->node[1].next = NULL;
    return e;
}

static int aux_made;            /* the bystander table of the re-entrant visitors (below) exists */
static unsigned reent_tick;
static void aux_destroy(void);
#define SCOPE(nt, nk, np) ((nt) | (nk) << 4 | (np) << 12)
static void st_create(int scope)
{
    int i;
    ntab = scope & 15; nkeys = (scope >> 4) & 0xff; npool = scope >> 12;
    aux_made = 0; reent_tick = 0;
    for (i = 0; i < npool; i++) pool[i] = new_elem(i);
    for (i = 0; i < ntab; i++) {
        tcls[i] = i & 1;
        memset(&T[i], 0x77, sizeof(T[i]));      /* recycled storage: cstl_hash_init must not rely on zeroed memory */
        /* both documented ways of making a table: cstl_hash_init and the static initialiser macro */
        if (use_macro) {
            if (tcls[i]) T[i] = (struct cstl_hash)CSTL_HASH_INITIALIZER(struct elem, node[1]);
            else T[i] = (struct cstl_hash)CSTL_HASH_INITIALIZER(struct elem, node[0]);
            VRT_COUNT("tables.made-with-initializer-macro");
        } else cstl_hash_init(&T[i], offsetof(struct elem, node) + tcls[i] * sizeof(struct cstl_hash_node));
        nlive[i] = 0; ready[i] = 0; pending_possible[i] = 0;
        inforce[i].n = 0; inforce[i].f = -1; keyed_since[i] = 0; sweep_len[i] = 0;
        fresh[i] = 0; cleared_before[i] = 0; pend_before[i] = 0;
    }
}
static void st_destroy(void)
{
    int i;
    for (i = 0; i < ntab; i++) {
        /* release the bucket array without touching the elements */
        cstl_hash_clear(&T[i], NULL);
    }
    aux_destroy();
    for (i = 0; i < npool; i++) { vrt_free(pool[i]); pool[i] = NULL; }
    if (vrt_lib_live() != 0)
        vrt_fail("hash.leak.bucket-array", "%zu library blocks still live after clear of every table", vrt_lib_live());
}

static struct elem *take_free(size_t key)
{
    int i;
    for (i = 0; i < npool; i++) if (pool[i]->where < 0 && pool[i]->key == key) return pool[i];
    return NULL;
}
static struct elem *first_live(int t, size_t key)
{
    int i;
    for (i = 0; i < nlive[t]; i++) if (LIVE[t][i]->key == key) return LIVE[t][i];
    return NULL;
}
static int count_live(int t, size_t key)
{
    int i, n = 0;
    for (i = 0; i < nlive[t]; i++) n += LIVE[t][i]->key == key;
    return n;
}
static void live_del(int t, struct elem *e)
{
    int i;
    for (i = 0; i < nlive[t]; i++) if (LIVE[t][i] == e) break;
    LIVE[t][i] = LIVE[t][--nlive[t]];
    e->where = -1;
}

static void check_size(int t, const char *key)
{
    if (cstl_hash_size(&T[t]) != (size_t)nlive[t])
        vrt_fail(key, "table %d: size %zu, live elements in the model %d", t, cstl_hash_size(&T[t]), nlive[t]);
}

/* ---- read-only re-entrancy: what a visitor (of foreach, foreach_const, find) may do while the library is inside the enumeration ----
 * On the SAME table: size and load, and -- while no rehash is pending -- a nested foreach_const.  On ANOTHER table: anything, keyed
 * calls included: a private bystander table (AUX: find of present and absent keys, erase + insert, resize, enumeration) and, in
 * two-table scopes, a find on the other model table.  The outer enumeration must not notice: a cursor, "current bucket" or scratch
 * slot kept in the table object or in a static shows as a missed or repeated element of the outer or of the nested walk. */
#define NAUX 5
#define AUXMAGIC 0x0a0b0c0du
static struct cstl_hash AUX;
static struct elem auxstore[NAUX], *auxe[NAUX];  /* static storage: the bystander table is made in a great many replicas */
static int aux_made, aux_nin;
static unsigned reent_tick;
static size_t aux_hash(size_t k, size_t m) { return (k ^ (k >> 7)) % m; }
static int aux_count_visit(const void *e, void *p)
{
    const struct elem *x = e;
    if (x->magic != AUXMAGIC) return -2;
    ++*(int *)p;
    return 0;
}
static void aux_make(void)
{
    static const size_t k[NAUX] = { 0, SIZE_MAX, 5, 5, (size_t)1 << 32 };
    int i;
    memset(&AUX, 0x33, sizeof(AUX));
    cstl_hash_init(&AUX, offsetof(struct elem, node) + (use_macro ? 0 : 1) * sizeof(struct cstl_hash_node));
    VRT_OP0("hash.resize", "bystander table: n=3 (first)");
    MAY_ALLOC(cstl_hash_resize(&AUX, 3, aux_hash));
    for (i = 0; i < NAUX; i++) {
        struct elem *e = &auxstore[i];
        memset(e, 0x5e, sizeof(*e));
        e->magic = AUXMAGIC; e->id = -1 - i; e->where = 8; e->visits = 0; e->key = k[i];
        auxe[i] = e;
        cstl_hash_insert(&AUX, e->key, e);
    }
    aux_nin = NAUX; aux_made = 1;
}
static void aux_destroy(void)
{
    int i;
    if (!aux_made) return;
    cstl_hash_clear(&AUX, NULL);
    for (i = 0; i < NAUX; i++) auxe[i] = NULL;
    aux_made = 0;
}
/* keyed and unkeyed calls on the bystander table, each with its own small oracle */
static void aux_calls(unsigned tick)
{
    static const size_t ncycle[4] = { 6, 4, 12, 3 };
    struct elem *x, *r;
    int n = 0, rc;
    if (!aux_made) aux_make();
    vrt_state("bystander-table-in-visitor");
    if (tick % 4 == 1) {
        VRT_OP1("hash.resize", "bystander table: n=%ld (from inside a visitor of another table)", ncycle[tick / 4 % 4]);
        MAY_ALLOC(cstl_hash_resize(&AUX, ncycle[tick / 4 % 4], (tick & 8) ? cstl_hash_div : aux_hash));
    }
    x = auxe[tick % NAUX];
    VRT_OP1("hash.find", "bystander table: key of its element %ld (from inside a visitor of another table)", tick % NAUX);
    r = cstl_hash_find(&AUX, x->key, NULL, NULL);
    VRT_CHECK(r != NULL && r->magic == AUXMAGIC && r->key == x->key, "hash.bystander.find.missed-live-element",
              "find on the bystander table, called from a visitor, did not return an element of key %zu", x->key);
    VRT_OP0("hash.find", "bystander table: absent key (from inside a visitor of another table)");
    r = cstl_hash_find(&AUX, 7, NULL, NULL);
    VRT_CHECK(r == NULL, "hash.bystander.find.found-absent-key", "find(7) on the bystander table returned %p", (void *)r);
    VRT_OP0("hash.erase", "bystander table (from inside a visitor of another table)");
    cstl_hash_erase(&AUX, x);
    VRT_CHECK(cstl_hash_size(&AUX) == (size_t)aux_nin - 1, "hash.bystander.erase.size", "bystander table: size %zu after erasing one of %d", cstl_hash_size(&AUX), aux_nin);
    VRT_OP0("hash.insert", "bystander table (from inside a visitor of another table)");
    cstl_hash_insert(&AUX, x->key, x);
    VRT_CHECK(cstl_hash_size(&AUX) == (size_t)aux_nin, "hash.bystander.insert.size", "bystander table: size %zu, %d elements", cstl_hash_size(&AUX), aux_nin);
    VRT_OP0("hash.foreach_const", "bystander table (from inside a visitor of another table)");
    rc = cstl_hash_foreach_const(&AUX, aux_count_visit, &n);
    VRT_CHECK(rc == 0 && n == aux_nin, "hash.bystander.foreach_const.missed-element",
              "enumeration of the bystander table from inside a visitor: %d of %d elements (returned %d)", n, aux_nin, rc);
    VRT_COUNT("reentrant.bystander-table.rounds");
}

struct nestp { int t, n, stop_at, stop_val, bad; };
static int nest_visit(const void *e, void *p)
{
    struct nestp *q = p;
    struct elem *x = (struct elem *)e;
    if (x->magic != MAGIC || x->where != q->t) { q->bad = 1; return 77; }
    if (x->nest != 0) { q->bad = 2; return 77; }
    x->nest = 1;
    return q->n++ == q->stop_at ? q->stop_val : 0;
}
/* everything a read-only visitor of table t does; outer = entry point whose visitor we are in */
static void reentrant_calls(int t, const char *outer, const char *st)
{
    const unsigned tick = reent_tick++;
    /* same table: size, load */
    if (cstl_hash_size(&T[t]) != (size_t)nlive[t])
        vrt_fail("hash.size.in-visitor", "size %zu read by a visitor of %s, %d live elements", cstl_hash_size(&T[t]), outer, nlive[t]);
    if (ready[t]) { volatile float ld = cstl_hash_load(&T[t]); (void)ld; }       /* no demand on the value here (C19 states it for the moment after a resize) */
    VRT_COUNT("reentrant.same-table.size-load");
    /* same table: nested foreach_const (only while no rehash is pending) */
    if (!table_pending(t)) {
        struct nestp q = { t, 0, -1, 0, 0 };
        int i, r;
        for (i = 0; i < nlive[t]; i++) LIVE[t][i]->nest = 0;
        if (tick % 3 == 2 && nlive[t] > 0) { q.stop_at = (int)(tick / 3 % (unsigned)nlive[t]); q.stop_val = vrt_stop_value(tick); }
        vrt_state("nested-in-visitor");
        VRT_OP2("hash.foreach_const", "t%ld nested: called by a visitor of the same table, stop@%ld", t, q.stop_at);
        r = cstl_hash_foreach_const(&T[t], nest_visit, &q);
        VRT_CHECK(q.bad != 1, "hash.foreach_const.nested.visited-non-member", "nested enumeration (from a visitor of %s) visited an object that is not live in table %d", outer, t);
        VRT_CHECK(q.bad != 2, "hash.foreach_const.nested.visited-twice", "nested enumeration (from a visitor of %s) visited an element twice", outer);
        if (q.stop_at < 0) {
            VRT_CHECK(r == 0, "hash.foreach_const.nested.return-value", "nested enumeration returned %d without a stop request", r);
            if (q.n != nlive[t])
                vrt_fail("hash.foreach_const.nested.missed-element", "nested enumeration (from a visitor of %s) visited %d of %d live elements", outer, q.n, nlive[t]);
        } else {
            VRT_CHECK(r == q.stop_val, "hash.foreach_const.nested.stop-value", "nested enumeration returned %d, its visitor asked to stop with %d", r, q.stop_val);
            VRT_CHECK(q.n == q.stop_at + 1, "hash.foreach_const.nested.continued-after-stop", "%d visits, stop requested at visit %d", q.n, q.stop_at);
        }
        VRT_COUNT("reentrant.same-table.nested-foreach_const");
    }
    /* other tables: keyed calls as well */
    aux_calls(tick);
    if (ntab == 2 && ready[1 - t]) {
        const int o = 1 - t;
        const size_t key = KX(mode == M_INCR ? (size_t)(tick % (unsigned)npool) * 3 + 1 : (size_t)(tick % (unsigned)(nkeys + 1)));
        const int nl = count_live(o, key);
        struct elem *r;
        vrt_state("other-table-in-visitor");
        VRT_OP2("hash.find", "t%ld key=%ld (called by a visitor of the other table)", o, key);
        r = cstl_hash_find(&T[o], key, NULL, NULL);
        if (nl == 0) {
            VRT_CHECK(r == NULL, "hash.find.found-absent-key.from-visitor", "find(key %zu) on the other table returned %p, no live element has that key", key, (void *)r);
        } else {
            VRT_CHECK(r != NULL && r->magic == MAGIC && r->where == o && r->key == key, "hash.find.missed-live-element.from-visitor",
                      "find(key %zu) on the other table, called by a visitor, did not return one of the %d live elements of that key", key, nl);
        }
        VRT_COUNT("reentrant.other-model-table.find");
    }
    vrt_state(st);
    VRT_OP1(outer, "t%ld: the visitor returns from its re-entrant calls, the enumeration goes on", t);
}

/* ---- find visitors ---- */
struct findp { int t; size_t key; int accept_at; int noffered; int bad; const struct elem *accepted; int reent; const char *state; };
static int find_visit(const void *e, void *p)
{
    struct findp *f = p;
    struct elem *x = (struct elem *)e;
    if (x->magic != MAGIC || x->where != f->t) { f->bad = 1; return 0; }
    if (x->key != f->key) { f->bad = 2; return 0; }
    if (x->visits != 0) { f->bad = 3; return 0; }
    x->visits = 1;
    if (f->reent && f->noffered < 3) { reentrant_calls(f->t, "hash.find", f->state); VRT_COUNT("reentrant.visitor-calls.find"); }
    /* any non-zero value means "accept": positive, negative and extreme values are all used */
    if (f->noffered++ == f->accept_at) { f->accepted = x; return (int)(x->key % 3) == 0 ? 1 : (int)(x->key % 3) == 1 ? -1 : (-2147483647 - 1); }
    return 0;
}
static void clear_visits(int t)
{
    int i;
    for (i = 0; i < nlive[t]; i++) LIVE[t][i]->visits = 0;
}

/* ---- C19: hash call log oracle ---- */
static size_t shadow_bucket[MAXE];      /* by element id: physical bucket per the log */

static void incr_begin(void) { hlogn = 0; }

/* after a keyed call with key k on table t; present = an element with key k was live before the call */
static void incr_after_keyed(int t, size_t k, const char *entry)
{
    int i, nsrc = 0, nreloc = 0, own_new = 0, own_old = 0, others = 0;
    size_t src[8];
    const struct geo *ng = &inforce[t], *og = &oldgeo[t];
    int finished_form;

    if (mode != M_INCR || ng->f >= NF) return;
    VRT_CHECK(hlogn <= HLOG_MAX, "harness.hash.log-overflow", "hash call log overflow (%d)", hlogn);
    keyed_since[t]++;
    finished_form = hlogn == 1 && hlog[0].k == k && hlog[0].m == ng->n && hlog[0].f == ng->f;
    if (!pending_possible[t] || keyed_since[t] > sweep_len[t]) {
        /* the rehash must have finished: exactly one consultation, of the requested geometry */
        if (!finished_form) {
            if (hlogn == 1)
                vrt_fail("hash.incr.finished.wrong-geometry",
                         "%s(key %zu): after the rehash must have finished the hash function was consulted with (k=%zu, m=%zu, f%d); requested geometry is (m=%zu, f%d)",
                         entry, k, hlog[0].k, hlog[0].m, hlog[0].f, ng->n, ng->f);
            vrt_fail(pending_possible[t] ? "hash.incr.not-finished-in-time" : "hash.incr.finished.consults-not-one",
                     "%s(key %zu): %d hash consultations; rehash to (m=%zu,f%d) requested %zu keyed calls ago over %zu buckets must be finished",
                     entry, k, hlogn, ng->n, ng->f, keyed_since[t], sweep_len[t]);
        }
        if (pending_possible[t]) VRT_MAX("max.incr.keyed-calls-before-finished-permille-of-buckets",
                                         sweep_len[t] ? (keyed_since[t] - 1) * 1000 / sweep_len[t] : 0);
        pending_possible[t] = 0;
        VRT_COUNT("incr.keyed.finished-form");
        return;
    }
    if (finished_form) {
        /* observed finished early: it took at most keyed_since-1 keyed calls */
        VRT_MAX("max.incr.keyed-calls-before-finished-permille-of-buckets",
                sweep_len[t] ? (keyed_since[t] - 1) * 1000 / sweep_len[t] : 0);
        pending_possible[t] = 0;
        VRT_COUNT("incr.keyed.finished-form");
        return;
    }
    VRT_COUNT("incr.keyed.while-pending");
    /* pending form: relocations are consultations of the new geometry for keys of live elements */
    for (i = 0; i < hlogn; i++) {
        const struct hlog *l = &hlog[i];
        if (l->m == ng->n && l->f == ng->f) {
            if (l->k == k) own_new++;
        } else if (l->m == og->n && l->f == og->f && l->k == k) {
            own_old++;
        } else {
            others++;
        }
    }
    (void)own_old;
    VRT_COUNT_N("incr.consultations.other-geometry", others);
    for (i = 0; i < hlogn; i++) {
        const struct hlog *l = &hlog[i];
        struct elem *x;
        int j;
        if (!(l->m == ng->n && l->f == ng->f)) continue;
        if (l->k == k) {
            /* the first consultation of the call's own key is the lookup, not a relocation */
            if (own_new > 0 && own_new != -1) { own_new = -1; continue; }
        }
        x = first_live(t, l->k);
        if (x == NULL) continue;        /* not an element: cannot be a relocation */
        for (j = 0; j < nsrc && j < 8; j++) if (src[j] == shadow_bucket[x->id]) break;
        if (j == nsrc || j == 8) {
            if (nsrc < 8) src[nsrc] = shadow_bucket[x->id];
            nsrc++;         /* beyond 8 distinct buckets the count is an over-estimate; the bound is 3 */
        }
        shadow_bucket[x->id] = fam(ng->f, l->k, ng->n);
        nreloc++;
    }
    VRT_MAX("max.incr.source-buckets-per-keyed-call", nsrc);
    VRT_MAX("max.incr.relocations-per-keyed-call", nreloc);
    if (nsrc > 3)
        vrt_fail("hash.incr.relocated-more-than-3-buckets",
                 "%s(key %zu) relocated elements out of %d distinct buckets (%d relocations) in one keyed call", entry, k, nsrc, nreloc);
}

/* white-box cross-check (reported under its own keys): sweep index advances, <= 3 clean bits flip */
struct wb { int pending; size_t clean, count; unsigned char bits[64]; };
static void wb_snap(int t, struct wb *w)
{
    size_t i;
    w->pending = T[t].bucket.rh.hash != NULL;
    w->clean = T[t].bucket.rh.clean;
    w->count = T[t].bucket.count;
    if (w->pending)
        for (i = 0; i < w->count && i < 64; i++) w->bits[i] = T[t].bucket.at[i].cst == T[t].bucket.cst;
}
static int no_whitebox;         /* VERIF_HASH_NO_WHITEBOX=1: boundary oracles only (used to validate them) */
static void wb_check(int t, const struct wb *b)
{
    struct wb a;
    size_t i;
    int flips = 0;
    if (!b->pending || no_whitebox) return;
    wb_snap(t, &a);
    if (!a.pending) { VRT_COUNT("incr.whitebox.finished-by-keyed-call"); return; }
    if (a.clean < b->clean + 1)
        vrt_fail("hash.incr.whitebox.sweep-not-advanced", "sweep index %zu -> %zu in one keyed call while pending", b->clean, a.clean);
    for (i = 0; i < a.count && i < 64; i++) flips += a.bits[i] != b->bits[i];
    VRT_MAX("max.incr.whitebox.clean-bits-flipped", flips);
    if (flips > 3)
        vrt_fail("hash.incr.whitebox.more-than-3-buckets-cleaned", "%d buckets changed their clean bit in one keyed call", flips);
}

static int table_pending(int t) { return T[t].bucket.rh.hash != NULL; }

static void count_keyed(int t, const char *what)
{
    /* coverage: keyed calls by rehash phase (white-box read, coverage only) */
    char nm[64];
    const char *ph = !table_pending(t) ? "idle" :
        T[t].bucket.rh.count > T[t].bucket.count ? "grow-pending" :
        T[t].bucket.rh.count < T[t].bucket.count ? "shrink-pending" : "refunc-pending";
    snprintf(nm, sizeof(nm), "keyed.%s.%s", what, ph);
    vrt_count_dyn(nm, 1);
}

/* ---- apply ---- */
static int st_apply(uint32_t op, int audit)
{
    const int kind = OP_KIND(op), t = OP_T(op);
    const size_t a = (OP_KIND(op) == K_INSERT || OP_KIND(op) == K_FIND || OP_KIND(op) == K_ERASE) ? KX(OP_A(op)) : OP_A(op);
    const int b = OP_B(op);
    struct elem *e;
    struct wb wb;
    (void)audit;

    if (t >= ntab) return 0;
    switch (kind) {
    case K_INSERT:
        if (!ready[t] || (e = take_free(a)) == NULL) return 0;
        count_keyed(t, "insert"); note_keyed(t, a);
        vrt_state(table_pending(t) ? "pending" : "idle");
        VRT_OP3("hash.insert", "t%ld e%ld key=%ld", t, e->id, a);
        incr_begin(); wb_snap(t, &wb);
        cstl_hash_insert(&T[t], a, e);
        e->where = t; LIVE[t][nlive[t]++] = e;
        if (mode == M_INCR && inforce[t].f < NF) shadow_bucket[e->id] = fam(inforce[t].f, a, inforce[t].n);
        incr_after_keyed(t, a, "insert");
        if (mode == M_INCR) wb_check(t, &wb);
        done_keyed(t);
        check_size(t, "hash.size.after-insert");
        VRT_COUNT("op.insert");
        break;
    case K_FIND: {
        struct findp f = { t, a, -1, 0, 0, NULL };
        const int vb = b & 7, re = (b >> 3) & 1;        /* b & 8: the visitor makes read-only re-entrant calls */
        void *r;
        int nl;
        if (!ready[t]) return 0;
        nl = count_live(t, a);
        count_keyed(t, "find"); note_keyed(t, a);
        vrt_state(table_pending(t) ? "pending" : "idle");
        VRT_OP3("hash.find", "t%ld key=%ld visitmode=%ld", t, a, b);
        clear_visits(t);
        incr_begin(); wb_snap(t, &wb);
        if (vb == 0) {
            r = cstl_hash_find(&T[t], a, NULL, NULL);
            if (nl == 0) {
                VRT_CHECK(r == NULL, "hash.find.found-absent-key", "find(key %zu) returned %p but no live element has that key", a, r);
            } else {
                e = r;
                VRT_CHECK(r != NULL, "hash.find.missed-live-element", "find(key %zu) returned NULL; %d live elements have that key", a, nl);
                VRT_CHECK(e->magic == MAGIC && e->where == t && e->key == a, "hash.find.returned-non-member",
                          "find(key %zu) returned an object that is not a live element of that key", a);
            }
            VRT_COUNT("op.find.no-visitor");
        } else {
            f.accept_at = vb == 1 ? -1 : vb - 2;        /* 1: reject all; 2+j: accept the j-th offered */
            f.reent = re; f.state = table_pending(t) ? "pending" : "idle";
            r = cstl_hash_find(&T[t], a, find_visit, &f);
#define FK(s) (re ? "hash.find.reentrant-visitor." s : "hash.find." s)
            VRT_CHECK(f.bad != 1, FK("offered-non-member"), "find(key %zu) offered an object that is not live in table %d", a, t);
            VRT_CHECK(f.bad != 2, FK("offered-other-key"), "find(key %zu) offered an element of another key", a);
            VRT_CHECK(f.bad != 3, FK("offered-twice"), "find(key %zu) offered the same element twice", a);
            if (f.accepted != NULL) {
                VRT_CHECK(r == f.accepted, FK("returned-not-accepted"), "find returned %p, visitor accepted %p", r, (void *)f.accepted);
                VRT_COUNT("op.find.accepting-visitor");
            } else {
                VRT_CHECK(r == NULL, FK("returned-rejected"), "find returned %p although the visitor accepted nothing", r);
                VRT_CHECK(f.noffered == nl, FK("not-all-offered"),
                          "find(key %zu) with a rejecting visitor offered %d of %d live elements", a, f.noffered, nl);
                VRT_COUNT("op.find.rejecting-visitor");
            }
#undef FK
            if (re) VRT_COUNT("op.find.reentrant-visitor");
            if (nl > 1) VRT_COUNT("op.find.duplicate-key");
        }
        incr_after_keyed(t, a, "find");
        if (mode == M_INCR) wb_check(t, &wb);
        done_keyed(t);
        check_size(t, "hash.size.after-find");
        break;
    }
    case K_ERASE: {
        /* b: 0 = a live member with key a; 1 = a free (erased or never inserted) object with key a */
        int before = nlive[t];
        if (!ready[t]) return 0;
        e = b == 0 ? first_live(t, a) : take_free(a);
        if (e == NULL) return 0;
        count_keyed(t, "erase"); note_keyed(t, a);
        vrt_state(b == 0 ? "member" : "non-member");
        VRT_OP3("hash.erase", "t%ld e%ld member=%ld", t, e->id, b == 0);
        incr_begin(); wb_snap(t, &wb);
        cstl_hash_erase(&T[t], e);
        if (b == 0) { live_del(t, e); VRT_COUNT("op.erase.member"); }
        else VRT_COUNT("op.erase.non-member");
        incr_after_keyed(t, a, "erase");
        if (mode == M_INCR) wb_check(t, &wb);
        done_keyed(t);
        if (cstl_hash_size(&T[t]) != (size_t)nlive[t])
            vrt_fail(b == 0 ? "hash.erase.member.size" : "hash.erase.non-member.changed-size",
                     "erase(%s): size %zu, expected %d (before %d)", b == 0 ? "member" : "non-member",
                     cstl_hash_size(&T[t]), nlive[t], before);
        break;
    }
    case K_RESIZE: {
        /* a == 0xfff stands for a bucket count whose array (2^40 buckets) the allocator refuses */
        const size_t n = a == 0xfff ? (size_t)1 << 40 : a;
        const int f = b - 1;    /* -1 = NULL (keep) */
        const int was_pending = table_pending(t);
        float ld, want;
        if (mode == M_INCR && !ready[t] && f < 0) return 0;    /* unlogged default function */
        vrt_state(was_pending ? "while-pending" : ready[t] ? "idle" : "first");
        VRT_OP3("hash.resize", "t%ld n=%ld f=%ld", t, n, f);
        MAY_ALLOC(cstl_hash_resize(&T[t], n, f < 0 ? NULL : fn_of(f)));
        if (direct_fns && f >= 4) VRT_COUNT("op.resize.library-function-passed-directly");
        if (a == 0xfff) {
            /* cannot be satisfied: nothing visible may change, now or at any later resize */
            VRT_COUNT("op.resize.unsatisfiable");
            if (ready[t] && mode == M_INCR) {
                const float ld = cstl_hash_load(&T[t]);
                if (ld != (float)nlive[t] / inforce[t].n)
                    vrt_fail("hash.resize.unsatisfiable.load-changed", "load %g after a refused resize, geometry in force has %zu buckets", (double)ld, inforce[t].n);
            }
        } else if (n >= 1) {
            struct geo g;
            g.n = n;
            g.f = f >= 0 ? (direct_fns && f == 5 ? NF : f) : ready[t] ? inforce[t].f : NF;    /* NF: cstl_hash_mul itself, named or by default */
            if (!ready[t]) {
                ready[t] = 1; inforce[t] = g; pending_possible[t] = 0;
                fresh[t] |= cleared_before[t] ? F_CLEAR : F_INIT;
                VRT_COUNT("op.resize.first");
            } else if (g.n != inforce[t].n || g.f != inforce[t].f) {
                if (mode == M_INCR) {
                    /* the earlier rehash is completed by resize: everything sits in the in-force geometry */
                    int i;
                    for (i = 0; i < nlive[t]; i++)
                        shadow_bucket[LIVE[t][i]->id] = fam(inforce[t].f, LIVE[t][i]->key, inforce[t].n);
                }
                oldgeo[t] = inforce[t];
                sweep_len[t] = inforce[t].n;
                inforce[t] = g;
                pending_possible[t] = 1;
                keyed_since[t] = 0;
                if (was_pending) { VRT_COUNT("op.resize.while-pending"); resized_while_pending++; }
                if (g.n > oldgeo[t].n) VRT_COUNT("op.resize.grow");
                else if (g.n < oldgeo[t].n) VRT_COUNT("op.resize.shrink");
                else VRT_COUNT("op.resize.same-size-other-function");
                fresh[t] |= F_RESIZE;
                /* exact doublings with the function kept: 4->8 as well as 3->6, 5->10, 6->12, 7->14 (a split-in-place shortcut) */
                if (g.n == 2 * oldgeo[t].n && g.f == oldgeo[t].f) {
                    if ((oldgeo[t].n & (oldgeo[t].n - 1)) == 0) VRT_COUNT("op.resize.doubling.power-of-two");
                    else VRT_COUNT("op.resize.doubling.not-power-of-two");
                    if (nlive[t] >= 2) VRT_COUNT("op.resize.doubling.with-2-or-more-elements");
                }
            } else {
                VRT_COUNT("op.resize.same-geometry");
            }
            /* C19 (i): load reports size / n right after a satisfiable request */
            ld = cstl_hash_load(&T[t]);
            want = (float)nlive[t] / n;
            if (mode == M_INCR && ld != want)
                vrt_fail(was_pending ? "hash.resize.load.while-pending" : "hash.resize.load",
                         "after resize(n=%zu) load is %g, size/n is %g (size %d)", n, (double)ld, (double)want, nlive[t]);
        } else {
            VRT_COUNT("op.resize.zero");
        }
        check_size(t, "hash.size.after-resize");
        break;
    }
    case K_REHASH:
        if (!ready[t]) return 0;
        vrt_state(table_pending(t) ? "pending" : "idle");
        VRT_OP1("hash.rehash", "t%ld", t);
        if (table_pending(t)) fresh[t] |= F_REHASH;
        cstl_hash_rehash(&T[t]);
        pending_possible[t] = 0;
        if (mode == M_INCR && inforce[t].f < NF) {
            int i;
            for (i = 0; i < nlive[t]; i++) shadow_bucket[LIVE[t][i]->id] = fam(inforce[t].f, LIVE[t][i]->key, inforce[t].n);
        }
        check_size(t, "hash.size.after-rehash");
        VRT_COUNT("op.rehash");
        break;
    case K_SHRINK:
        if (!ready[t]) return 0;
        vrt_state(table_pending(t) ? "pending" : "idle");
        VRT_OP1("hash.shrink_to_fit", "t%ld", t);
        MAY_ALLOC(cstl_hash_shrink_to_fit(&T[t]));
        check_size(t, "hash.size.after-shrink");
        VRT_COUNT("op.shrink_to_fit");
        break;
    case K_SWAP: {
        struct elem *tmp[MAXE];
        struct geo g;
        int i, n0, r0;
        size_t s;
        if (ntab < 2 || t != 0) return 0;
        VRT_OP0("hash.swap", "t0 <-> t1");
        cstl_hash_swap(&T[0], &T[1]);
        n0 = nlive[0];
        memcpy(tmp, LIVE[0], n0 * sizeof(tmp[0]));
        memcpy(LIVE[0], LIVE[1], nlive[1] * sizeof(tmp[0]));
        memcpy(LIVE[1], tmp, n0 * sizeof(tmp[0]));
        nlive[0] = nlive[1]; nlive[1] = n0;
        for (i = 0; i < nlive[0]; i++) LIVE[0][i]->where = 0;
        for (i = 0; i < nlive[1]; i++) LIVE[1][i]->where = 1;
        r0 = ready[0]; ready[0] = ready[1]; ready[1] = r0;
        r0 = tcls[0]; tcls[0] = tcls[1]; tcls[1] = r0;
        g = inforce[0]; inforce[0] = inforce[1]; inforce[1] = g;
        g = oldgeo[0]; oldgeo[0] = oldgeo[1]; oldgeo[1] = g;
        r0 = pending_possible[0]; pending_possible[0] = pending_possible[1]; pending_possible[1] = r0;
        s = sweep_len[0]; sweep_len[0] = sweep_len[1]; sweep_len[1] = s;
        s = keyed_since[0]; keyed_since[0] = keyed_since[1]; keyed_since[1] = s;
        r0 = fresh[0]; fresh[0] = fresh[1]; fresh[1] = r0;
        r0 = cleared_before[0]; cleared_before[0] = cleared_before[1]; cleared_before[1] = r0;
        check_size(0, "hash.size.after-swap"); check_size(1, "hash.size.after-swap");
        VRT_COUNT("op.swap");
        break;
    }
    default:
        return 0;
    }
    return 1;
}

/* ---- signature (white-box reads, coverage/closure only) ---- */
static uint64_t st_sig(void)
{
    uint64_t h = 77 + ntab;
    int t;
    for (t = 0; t < ntab; t++) {
        const struct cstl_hash *x = &T[t];
        size_t i, nb;
        h = vrt_mix(h, x->count);
        h = vrt_mix(h, x->bucket.count);
        h = vrt_mix(h, x->bucket.capacity);
        h = vrt_mix(h, fid_of(x->bucket.hash) + 2);
        h = vrt_mix(h, ready[t] + 2 * tcls[t]);
        nb = x->bucket.count;
        if (x->bucket.rh.hash != NULL) {
            h = vrt_mix(h, 0xabc);
            h = vrt_mix(h, x->bucket.rh.count);
            h = vrt_mix(h, x->bucket.rh.clean);
            h = vrt_mix(h, fid_of(x->bucket.rh.hash) + 2);
            if (x->bucket.rh.count > nb) nb = x->bucket.rh.count;
        }
        if (x->bucket.at == NULL) nb = 0;
        for (i = 0; i < nb; i++) {
            const struct cstl_hash_node *n;
            h = vrt_mix(h, 0xb0 + (x->bucket.rh.hash != NULL ? x->bucket.at[i].cst == x->bucket.cst : 0));
            for (n = x->bucket.at[i].n; n != NULL; n = n->next) h = vrt_mix(h, n->key + 1);
        }
        if (mode == M_INCR) {
            /* model side of the C19 oracle is part of the state */
            h = vrt_mix(h, pending_possible[t]);
            h = vrt_mix(h, keyed_since[t] > sweep_len[t] ? sweep_len[t] + 1 : keyed_since[t]);
        }
    }
    return h;
}
static int st_nontrivial(void)
{
    int t, n = 0;
    for (t = 0; t < ntab; t++) n += nlive[t];
    return n >= 2;
}
static void count_state_class(void)
{
    int t;
    for (t = 0; t < ntab; t++) {
        const struct cstl_hash *x = &T[t];
        if (x->bucket.rh.hash == NULL) { VRT_COUNT("states.table.no-rehash-pending"); continue; }
        if (x->bucket.rh.count > x->bucket.count) {
            size_t i;
            int above = 0;
            for (i = x->bucket.count; i < x->bucket.rh.count; i++) above += x->bucket.at[i].n != NULL;
            VRT_COUNT("states.table.grow-pending");
            if (above) VRT_COUNT("states.table.grow-pending.elements-above-old-count");
        } else if (x->bucket.rh.count < x->bucket.count) VRT_COUNT("states.table.shrink-pending");
        else VRT_COUNT("states.table.refunc-pending");
    }
}

/* ---- probes ---- */
struct enump { int t; int n; int stop_at; int stop_val; int bad; int erase; int reent; int total; int konst; const char *entry, *state; };
static int enum_visit_common(struct elem *x, struct enump *p)
{
    if (x->magic != MAGIC || x->where != p->t) { p->bad = 1; return 99; }
    if (x->visits != 0) { p->bad = 2; return 99; }
    x->visits = 1;
    p->n++;
    /* read-only re-entrancy: at the first visits, at the last one, and now and then in between */
    if (p->reent && (p->n <= 2 || p->n == p->total || p->n % 61 == 0)) {
        reentrant_calls(p->t, p->entry, p->state);
        if (p->konst) VRT_COUNT("reentrant.visitor-calls.foreach_const"); else VRT_COUNT("reentrant.visitor-calls.foreach");
    }
    if (p->erase) {
        int id = x->id;
        cstl_hash_erase(&T[p->t], x);
        live_del(p->t, x);
        memset(x, 0xa5, sizeof(*x));
        vrt_free(x);
        pool[id] = new_elem(id);
    }
    if (p->stop_at == p->n - 1) return p->stop_val;
    return 0;
}
static int enum_visit(void *e, void *p) { return enum_visit_common(e, p); }
static int enum_visit_const(const void *e, void *p) { return enum_visit_common((struct elem *)e, p); }

static const char *phase_of(int t)
{
    return !table_pending(t) ? "idle" : T[t].bucket.rh.count > T[t].bucket.count ? "grow-pending" :
           T[t].bucket.rh.count < T[t].bucket.count ? "shrink-pending" : "refunc-pending";
}

#define probe_foreach(t, konst, stop, erase) probe_foreach_x(t, konst, stop, erase, 0)
static void probe_foreach_x(int t, int konst, int stop, int erase, int reent)
{
    struct enump p = { t, 0, -1, 0, 0, erase, reent, nlive[t], konst, konst ? "hash.foreach_const" : "hash.foreach" };
    int r, total = nlive[t];
    const char *ph = phase_of(t);
    char nm[64];
    if (stop && total > 0) { p.stop_at = (int)(st_sig() % total); p.stop_val = vrt_stop_value(7u * vrt_case_tick() + (unsigned)p.stop_at); }
    clear_visits(t);
    vrt_state(ph);
    p.state = ph;
    if (konst) {
        VRT_OP2("hash.foreach_const", "t%ld stop@%ld", t, p.stop_at);
        r = cstl_hash_foreach_const(&T[t], enum_visit_const, &p);
    } else {
        VRT_OP3("hash.foreach", "t%ld stop@%ld erase=%ld", t, p.stop_at, erase);
        r = cstl_hash_foreach(&T[t], enum_visit, &p);
    }
    snprintf(nm, sizeof(nm), "probe.%s%s.%s", konst ? "foreach_const" : erase ? "foreach-erasing" : "foreach", reent ? "-reentrant-visitor" : "", ph);
    vrt_count_dyn(nm, 1);
#define EK(s) (reent ? (konst ? "hash.foreach_const.reentrant-visitor." s : "hash.foreach.reentrant-visitor." s) : \
               (konst ? "hash.foreach_const." s : "hash.foreach." s))
    VRT_CHECK(p.bad != 1, EK("visited-non-member"), "enumeration visited an object that is not live in table %d (%s)", t, ph);
    VRT_CHECK(p.bad != 2, EK("visited-twice"), "enumeration visited an element twice (%s)", ph);
    if (p.stop_at < 0) {
        VRT_CHECK(r == 0, EK("return-value"), "enumeration returned %d without a stop request", r);
        if (p.n != total)
            vrt_fail(EK("missed-element"), "enumeration visited %d of %d live elements (%s)", p.n, total, ph);
    } else {
        VRT_CHECK(r == p.stop_val, EK("stop-value"), "enumeration returned %d, visitor asked to stop with %d", r, p.stop_val);
        VRT_CHECK(p.n == p.stop_at + 1, EK("continued-after-stop"), "%d visits, stop requested at visit %d", p.n, p.stop_at);
    }
#undef EK
    if (erase) check_size(t, "hash.size.after-erasing-foreach");
}

static int clear_t, clear_n;
static void clear_cb(void *e, void *p)
{
    struct elem *x = e;
    int id;
    VRT_CHECK(p == NULL, "hash.clear.priv", "clear callback got priv %p", p);
    VRT_CHECK(x->magic == MAGIC, "hash.clear.non-element-or-twice", "clear callback for a non-element or a second time");
    VRT_CHECK(x->where == clear_t, "hash.clear.non-member", "clear callback for element %d which is not in table %d", x->id, clear_t);
    id = x->id;
    clear_n++;
    memset(x, 0xa5, sizeof(*x));
    vrt_free(x);
    pool[id] = new_elem(id);
    VRT_COUNT("clear.handed-over");
}

static void probe_clear(int t, int with_cb)
{
    const char *ph = phase_of(t);
    size_t live_before = vrt_lib_live();
    int had_array = T[t].bucket.at != NULL, total = nlive[t], i;
    char nm[64];
    uint64_t s = st_sig();
    vrt_state(ph);
    VRT_OP2("hash.clear", "t%ld cb=%ld", t, with_cb);
    clear_t = t; clear_n = 0;
    cstl_hash_clear(&T[t], with_cb ? clear_cb : NULL);
    snprintf(nm, sizeof(nm), "probe.clear%s.%s", with_cb ? "" : "-null", ph);
    vrt_count_dyn(nm, 1);
    if (with_cb && clear_n != total)
        vrt_fail("hash.clear.missed-element", "clear handed over %d of %d live elements (%s)", clear_n, total, ph);
    if (!with_cb) for (i = 0; i < nlive[t]; i++) LIVE[t][i]->where = -1;
    nlive[t] = 0; ready[t] = 0; pending_possible[t] = 0; cleared_before[t] = 1; fresh[t] = 0;
    VRT_CHECK(cstl_hash_size(&T[t]) == 0, "hash.clear.size-not-zero", "size %zu after clear", cstl_hash_size(&T[t]));
    VRT_CHECK(vrt_lib_live() == live_before - (had_array ? 1 : 0), "hash.clear.bucket-array-not-released",
              "live library blocks %zu -> %zu across clear", live_before, vrt_lib_live());
    /* reusable after a fresh resize */
    {
        const int f = (int)(s % 3) - 1 + (mode == M_INCR && s % 3 == 0);      /* NULL, f0 or f1 */
        const size_t n = 1 + (s >> 8) % 4;
        st_apply(OP(K_RESIZE, t, n, f + 1), 1);
        for (i = 0; i < 3; i++) {
            st_apply(OP(K_INSERT, t, mode == M_INCR ? (size_t)i * 3 + 1 : (size_t)(i % nkeys), 0), 1);
        }
        for (i = 0; i < 3; i++) {
            size_t k = mode == M_INCR ? (size_t)i * 3 + 1 : (size_t)(i % nkeys);
            st_apply(OP(K_FIND, t, k, 0), 1);
            st_apply(OP(K_FIND, t, k, 1), 1);
        }
        st_apply(OP(K_ERASE, t, mode == M_INCR ? 1 : 0, 0), 1);
        probe_foreach(t, 1, 0, 0);
        clear_t = t; clear_n = 0; total = nlive[t];
        VRT_OP1("hash.clear", "t%ld (second)", t);
        cstl_hash_clear(&T[t], clear_cb);
        VRT_CHECK(clear_n == total, "hash.clear.reuse.missed-element", "second clear handed over %d of %d", clear_n, total);
        nlive[t] = 0; ready[t] = 0;
        VRT_COUNT("probe.clear.reuse-cycle");
    }
}

/* clear in the MIDDLE of a history: the table object goes on to a second (third, ...) life through a fresh resize.
 * What clear leaves behind in the object (clean-state bit, sweep cursor, capacity) must not matter. */
static void clear_midway(int t, int with_cb)
{
    const char *ph = phase_of(t);
    const size_t live_before = vrt_lib_live();
    const int had_array = T[t].bucket.at != NULL, total = nlive[t];
    int i;
    vrt_state(ph);
    VRT_OP2("hash.clear", "t%ld cb=%ld (the table is used again afterwards)", t, with_cb);
    clear_t = t; clear_n = 0;
    cstl_hash_clear(&T[t], with_cb ? clear_cb : NULL);
    if (with_cb && clear_n != total)
        vrt_fail("hash.clear.missed-element", "clear handed over %d of %d live elements (%s)", clear_n, total, ph);
    if (!with_cb) for (i = 0; i < nlive[t]; i++) LIVE[t][i]->where = -1;
    nlive[t] = 0; ready[t] = 0; pending_possible[t] = 0; cleared_before[t] = 1; fresh[t] = 0;
    inforce[t].n = 0; inforce[t].f = -1; keyed_since[t] = 0; sweep_len[t] = 0;
    VRT_CHECK(cstl_hash_size(&T[t]) == 0, "hash.clear.size-not-zero", "size %zu after clear", cstl_hash_size(&T[t]));
    VRT_CHECK(vrt_lib_live() == live_before - (had_array ? 1 : 0), "hash.clear.bucket-array-not-released",
              "live library blocks %zu -> %zu across clear", live_before, vrt_lib_live());
    VRT_COUNT("op.clear.then-reused");
}

/* C03 audit on a replica: every key of the universe */
static void probe_lookup_audit(int t)
{
    size_t k, kk;
    int i;
    /* two passes over the keys: one with a plain visitor, one with a visitor that makes read-only re-entrant calls; which comes
     * first (and so sees the table before the audit's own keyed calls have moved the rehash on) depends on the state */
    const int re_first = ready[t] ? (int)(st_sig() & 1) : 0;
    if (!ready[t]) return;
    vrt_state(phase_of(t));
    for (kk = 0; kk < 2 * ((size_t)nkeys + 1); kk++) {
        const int re = (kk >= (size_t)nkeys + 1) != re_first;
        const size_t key = KX(k = kk % ((size_t)nkeys + 1));
        struct findp f = { t, key, -1, 0, 0, NULL, re, phase_of(t) };
        void *r;
        int nl = count_live(t, key);
        clear_visits(t);
        VRT_OP3("hash.find", "t%ld key=%ld (audit, rejecting visitor, re-entrant=%ld)", t, k, re);
        vrt_state(f.state);
        r = cstl_hash_find(&T[t], key, find_visit, &f);
        if (re) VRT_COUNT("op.find.reentrant-visitor");
        VRT_CHECK(f.bad == 0, re ? "hash.audit.reentrant-visitor.offered-wrong-object" : "hash.audit.offered-wrong-object", "audit find(key %zu): offered a non-member/other key/twice (%d)", k, f.bad);
        VRT_CHECK(r == NULL, re ? "hash.audit.reentrant-visitor.returned-rejected" : "hash.audit.returned-rejected", "audit find(key %zu) returned %p", k, r);
        if (f.noffered != nl)
            vrt_fail(re ? "hash.audit.reentrant-visitor.live-element-not-found" : "hash.audit.live-element-not-found", "audit find(key %zu) offered %d of %d live elements", k, f.noffered, nl);
    }
    /* erased (free) objects must not be found: any returned object must be live */
    for (i = 0; i < npool; i++) if (pool[i]->where < 0) {
        struct elem *r = cstl_hash_find(&T[t], pool[i]->key, NULL, NULL);
        VRT_CHECK(r == NULL || (r->where == t && r->key == pool[i]->key), "hash.audit.erased-element-found",
                  "find returned an object that is not live");
    }
    check_size(t, "hash.audit.size");
    VRT_COUNT("probe.lookup-audit");
}

static int nprobe_per_table;
static void st_probe(int pi)
{
    const int t = pi / nprobe_per_table, k = pi % nprobe_per_table;
    if (pi == 0) count_state_class();
    if (t >= ntab) return;
    if (mode == M_ENUM) {
        switch (k) {
        case 0: probe_foreach(t, 1, 0, 0); break;
        case 1: probe_foreach(t, 1, 1, 0); break;
        case 2: probe_foreach(t, 0, 0, 0); break;
        case 3: probe_foreach(t, 0, 1, 0); break;
        case 4: probe_foreach(t, 0, 0, 1); break;
        case 5: probe_clear(t, 1); break;
        case 6: probe_clear(t, 0); break;
        /* visitors that make read-only calls on the table being enumerated and keyed calls on other tables */
        /* (one replica for both: foreach_const sees the state as it is, foreach then finishes the rehash itself) */
        case 7: {
            const uint64_t sg = st_sig();
            probe_foreach_x(t, 1, (int)(sg >> 3 & 1), 0, 1);
            probe_foreach_x(t, 0, (int)(sg >> 4 & 1), 0, 1);
            break;
        }
        }
    } else {
        probe_lookup_audit(t);
    }
}

static struct vex model = { st_create, st_destroy, st_apply, st_sig, st_nontrivial, 0, st_probe };

/* ---- closure scopes ---- */
/* bk: 0 = key family derived from the scope index, 1 = BOUNDARY keys starting at BK[rot];
 * dbl: 0 = bucket counts 0..maxb, d = bucket counts { 0, d, 2d } (exact doublings and halvings, also of non-powers of two) */
struct cscope { int nt, nk, np, maxb, f0, f1; uint64_t max_states; int bk, rot, dbl; };
static const struct cscope quick_scopes[] = {
    /* tables keys pool buckets funcs */
    { 1, 2, 3, 3, 0, 1, 400000 },
    { 1, 2, 3, 3, 0, 2, 400000 },
    { 1, 3, 4, 3, 0, 1, 400000 },
    { 1, 2, 4, 4, 0, 1, 400000 },
    { 1, 2, 4, 4, 1, 3, 400000 },
    { 1, 3, 4, 4, 0, 2, 400000 },
    { 2, 2, 3, 2, 0, 1, 400000 },
    { 1, 1, 3, 4, 0, 1, 400000 },
    { 1, 2, 3, 5, 0, 1, 400000 },
    { 1, 2, 3, 4, 4, 5, 400000 },
    /* boundary keys (0, SIZE_MAX, 1 / SIZE_MAX-1, 2^63, 2^63-1 / 2^32, 2^32-1, 2^31 / ...), every one the first key after init, after
     * every resize and after every completed rehash, with the harness's functions, cstl_hash_div and cstl_hash_mul */
    { 1, 3, 3, 3, 0, 1, 400000, 1, 0, 0 },
    { 1, 3, 3, 3, 4, 5, 400000, 1, 3, 0 },
    { 1, 3, 3, 3, 0, 2, 400000, 1, 6, 0 },
    { 1, 2, 3, 3, 5, 4, 400000, 1, 9, 0 },
    { 1, 2, 3, 3, 4, 1, 400000, 1, 0, 0 },
    /* exact doublings (and halvings): 3 <-> 6, 5 <-> 10, 7 <-> 14, 6 <-> 12 next to 4 <-> 8 */
    { 1, 3, 3, 6, 0, 4, 400000, 0, 0, 3 },
    { 1, 3, 3, 10, 4, 0, 400000, 1, 1, 5 },
    { 1, 3, 3, 14, 0, 4, 400000, 0, 0, 7 },
    { 1, 3, 3, 12, 4, 0, 400000, 1, 4, 6 },
    { 1, 3, 3, 8, 0, 4, 400000, 0, 0, 4 },
    /* boundary keys with duplicates; two tables (swap) with SIZE_MAX as the only key (lookup and enum modes: the two-table incr closure
     * is the most expensive case there is, the two-table random histories cover it) */
    { 1, 2, 4, 3, 1, 5, 400000, 1, 4, 0 },
    { 2, 1, 2, 2, 0, 4, 400000, 1, 1, 0 },
};
static const struct cscope thorough_scopes[] = {
    { 1, 2, 4, 4, 0, 1, 3000000 },
    { 1, 2, 4, 4, 0, 2, 3000000 },
    { 1, 3, 5, 4, 0, 1, 3000000 },
    { 1, 3, 5, 5, 0, 1, 3000000 },
    { 1, 2, 5, 5, 1, 3, 3000000 },
    { 1, 3, 4, 5, 0, 2, 3000000 },
    { 2, 2, 3, 3, 0, 1, 3000000 },
    { 2, 2, 4, 2, 0, 1, 3000000 },
    { 1, 1, 4, 6, 0, 1, 3000000 },
    { 1, 2, 4, 6, 0, 1, 3000000 },
    { 1, 2, 4, 5, 4, 5, 3000000 },
    { 1, 3, 5, 4, 1, 2, 3000000 },
    { 1, 2, 6, 4, 0, 1, 3000000 },
    { 1, 3, 6, 3, 0, 1, 3000000 },
    /* boundary keys / exact doublings (see the quick scopes), one size up */
    { 1, 3, 4, 4, 0, 1, 3000000, 1, 0, 0 },
    { 1, 3, 4, 4, 4, 5, 3000000, 1, 3, 0 },
    { 1, 3, 4, 4, 0, 2, 3000000, 1, 6, 0 },
    { 1, 3, 4, 3, 5, 4, 3000000, 1, 9, 0 },
    { 1, 2, 4, 4, 4, 1, 3000000, 1, 0, 0 },
    { 1, 2, 5, 3, 1, 5, 3000000, 1, 4, 0 },
    { 1, 3, 4, 6, 0, 4, 3000000, 0, 0, 3 },
    { 1, 3, 4, 10, 4, 0, 3000000, 1, 1, 5 },
    { 1, 3, 3, 14, 0, 4, 3000000, 0, 0, 7 },
    { 1, 3, 4, 12, 4, 0, 3000000, 1, 4, 6 },
    { 1, 3, 4, 8, 0, 4, 3000000, 0, 0, 4 },
    { 2, 2, 2, 2, 0, 4, 3000000, 1, 0, 0 },
};
static const struct cscope *scopes;
static int nscopes;

static int build_alphabet(const struct cscope *s, uint32_t *al)
{
    int n = 0, t, f;
    size_t k, b;
    for (t = 0; t < s->nt; t++) {
        const size_t kk = mode == M_INCR ? (size_t)s->np : (size_t)s->nk;
        for (k = 0; k < kk; k++) {
            const size_t key = mode == M_INCR ? k * 3 + 1 : k;
            al[n++] = OP(K_INSERT, t, key, 0);
            al[n++] = OP(K_FIND, t, key, 0);
            if (mode != M_INCR) {
                al[n++] = OP(K_FIND, t, key, 1);
                al[n++] = OP(K_FIND, t, key, 2);
                al[n++] = OP(K_FIND, t, key, 3);
            }
            al[n++] = OP(K_ERASE, t, key, 0);
            al[n++] = OP(K_ERASE, t, key, 1);
        }
        for (b = 0; b <= (size_t)s->maxb; b++) {
            if (s->dbl && b != 0 && b != (size_t)s->dbl && b != 2 * (size_t)s->dbl) continue;
            al[n++] = OP(K_RESIZE, t, b, 0);
            for (f = 0; f < 2; f++) al[n++] = OP(K_RESIZE, t, b, 1 + (f ? s->f1 : s->f0));
        }
        al[n++] = OP(K_REHASH, t, 0, 0);
        al[n++] = OP(K_SHRINK, t, 0, 0);
        al[n++] = OP(K_RESIZE, t, 0xfff, 1 + s->f1);
    }
    if (s->nt > 1) al[n++] = OP(K_SWAP, 0, 0, 0);
    return n;
}

static void run_closure(int ci)
{
    const struct cscope *s = &scopes[ci];
    static uint32_t al[1024];
    int n = build_alphabet(s, al);
    struct vex_result r;
    if (mode == M_INCR && s->bk && s->nt > 1) { VRT_COUNT("closure.scopes-skipped-in-incr-mode"); return; }
    vrt_case_note("closure tables=%d keys=%d pool=%d buckets<=%d%s funcs=f%d,f%d alphabet=%d mode=%s%s%s",
                  s->nt, s->nk, s->np, s->maxb, s->dbl ? " (only 0, d, 2d)" : "", s->f0, s->f1, n, vrt_mode, (ci & 1) ? " initializer-macro" : "",
                  s->bk ? " boundary-keys" : (ci >> 1) % 3 == 1 ? " 64-bit-keys" : (ci >> 1) % 3 == 2 ? " aliased-keys(differ only above bit 36)" : "");
    nprobe_per_table = mode == M_ENUM ? 8 : 1;
    use_macro = ci & 1;
    bigkeys = s->bk ? 3 : (ci >> 1) % 3;
    bkrot = (unsigned)s->rot;
    direct_fns = mode != M_INCR && (ci & 1);
    if (s->bk) VRT_COUNT("closure.scopes.boundary-keys");
    if (s->dbl) VRT_COUNT("closure.scopes.doubling-buckets");
    model.nprobes = mode == M_INCR ? 0 : nprobe_per_table * s->nt;
    resized_while_pending = 0;
    vex_closure(&model, SCOPE(s->nt, s->nk, s->np), al, n, s->max_states, 200, &r);
    VRT_COUNT_N("closure.states", r.states);
    VRT_COUNT_N("closure.transitions", r.transitions);
    VRT_COUNT_N("closure.replayed-ops", r.applied);
    VRT_COUNT_N("closure.probes", r.probes);
    VRT_MAX("max.closure.depth", r.maxdepth);
    if (r.closed) VRT_COUNT("closure.scopes-closed"); else VRT_COUNT("closure.scopes-capped");
}

/* ---- random histories ---- */
static void run_random(uint64_t idx)
{
    vrt_rng g;
    int nt, nk, np, nops, i, maxb;
    vrt_rng_seed(&g, vrt_seed, 0xC03000 + idx);
    nt = 1 + (vrt_below(&g, 4) == 0);
    nk = 1 + vrt_below(&g, 12);
    np = (idx % 3 == 0) ? 200 + vrt_below(&g, 312) : 4 + vrt_below(&g, 60);
    maxb = (idx % 5 == 0) ? 64 : 9;
    nops = under_memcheck() ? 600 : vrt_thorough ? 8000 : 2500;
    vrt_case_note("random tables=%d keys=%d pool=%d buckets<=%d ops=%d mode=%s", nt, nk, np, maxb, nops, vrt_mode);
    use_macro = idx & 1;
    bigkeys = (int)((idx >> 1) % 4);
    bkrot = (unsigned)(idx >> 3) % NBK;
    direct_fns = mode != M_INCR && ((idx >> 2) & 1);
    if (bigkeys == 3) VRT_COUNT("random.histories.boundary-keys");
    st_create(SCOPE(nt, nk, np));
    nprobe_per_table = mode == M_ENUM ? 8 : 1;
    for (i = 0; i < nops; i++) {
        const int t = vrt_below(&g, nt), r = vrt_below(&g, 100);
        size_t key;
        uint32_t op;
        if (mode == M_INCR) key = (size_t)vrt_below(&g, np) * 3 + 1; else key = vrt_below(&g, nk);
        if (!ready[t] && r < 90) op = OP(K_RESIZE, t, 1 + vrt_below(&g, maxb), 1 + vrt_below(&g, NF));
        else if (r < 28) op = OP(K_INSERT, t, key, 0);
        else if (r < 52) op = OP(K_FIND, t, key, mode == M_INCR ? 0 : vrt_below(&g, 4) | (vrt_below(&g, 4) == 0 ? 8 : 0));
        else if (r < 68) op = OP(K_ERASE, t, key, vrt_below(&g, 5) == 0);
        else if (r < 86) {
            /* resize storms: often a second and third request right away */
            size_t n = vrt_below(&g, 8) == 0 ? (size_t)vrt_below(&g, 2) : vrt_below(&g, 12) == 0 ? 0xfff : 1 + vrt_below(&g, maxb);
            op = OP(K_RESIZE, t, n, vrt_below(&g, NF + 1));
            /* exact doubling / halving of whatever bucket count is in force (3->6, 5->10, 7->14, ... as well as 4->8), function kept */
            if (ready[t] && vrt_below(&g, 5) == 0) {
                const size_t cur = inforce[t].n;
                n = (vrt_below(&g, 4) == 0 || cur > 128) && cur % 2 == 0 ? cur / 2 : 2 * cur;
                if (n >= 1 && n < 0xfff) op = OP(K_RESIZE, t, n, vrt_below(&g, 2) ? 0 : 1 + (inforce[t].f < NF ? inforce[t].f : -1));
            }
            if (vrt_below(&g, 3) == 0) { st_apply(op, 1); op = OP(K_RESIZE, t, 1 + vrt_below(&g, maxb), vrt_below(&g, NF + 1)); }
        }
        else if (r < 89) op = OP(K_REHASH, t, 0, 0);
        else if (r < 93) op = OP(K_SHRINK, t, 0, 0);
        else if (r < 96) op = OP(K_SWAP, 0, 0, 0);
        else if (mode == M_ENUM && r < 99) {
            /* terminal-style probes inside a history: non-destructive ones only */
            const int konst = (int)vrt_below(&g, 2), stop = (int)vrt_below(&g, 2);
            probe_foreach_x(t, konst, stop, 0, vrt_below(&g, 3) == 0);
            continue;
        }
        else if (mode == M_LOOKUP && r < 98 && np <= 64) { probe_lookup_audit(t); continue; }
        else if (r == 99 && vrt_below(&g, 2) == 0) { clear_midway(t, (int)vrt_below(&g, 4) != 0); continue; }
        else continue;
        st_apply(op, 1);
    }
    /* final audit / terminal probe, then release */
    for (i = 0; i < nt; i++) {
        if (mode == M_ENUM) {
            switch (vrt_below(&g, 4)) {
            case 0: probe_foreach(i, 1, 0, 0); probe_clear(i, 1); break;
            case 1: probe_foreach(i, 0, 0, 1); break;
            case 2: probe_clear(i, 1); break;
            default: probe_clear(i, 0); break;
            }
        } else {
            if (mode == M_LOOKUP) probe_lookup_audit(i);
        }
    }
    vrt_sig(0, vrt_mix(st_sig(), idx));
    st_destroy();
    VRT_COUNT("random.histories");
}

/* under valgrind (config rel-plain: uninitialised reads, which ASan does not see) the workload is a
 * small slice: three small closure scopes and a few dozen short random histories */
static int under_memcheck(void) { return strcmp(vrt_config, "rel-plain") == 0; }
/* C19 on a table with 2^16 -> 2^17 -> 40000 buckets and 70000 elements: the per-operation bound and the
 * finish bound must not depend on the table size */
#define BIGN 70000
static int big_visit(const void *e, void *p) { (void)e; ++*(size_t *)p; return 0; }
static size_t *big_clear_seen;
static void big_clear_cb(void *e, void *p) { (void)e; (void)p; ++*big_clear_seen; }
static void run_bigtable(uint64_t which)
{
    struct cstl_hash H;
    struct belem { size_t key; struct cstl_hash_node n; uint64_t pad; } *E;
    uint32_t *shadow;
    unsigned char *bits;
    vrt_rng g;
    size_t i, count, target;
    int phase;
    bigkeys = (int)(which & 1);
    vrt_rng_seed(&g, vrt_seed, 0xC19B16 + which);
    vrt_case_note("big table: 70000 elements, 65536 -> 131072 -> 40000 buckets, %s keys", bigkeys ? "64-bit" : "small");
    E = vrt_alloc(sizeof(*E) * BIGN); shadow = vrt_alloc(sizeof(*shadow) * BIGN); bits = vrt_alloc(131072);
    memset(E, 0, sizeof(*E) * BIGN);
    cstl_hash_init(&H, offsetof(struct belem, n));
    VRT_OP0("hash.resize", "n=65536 f0 (first)");
    MAY_ALLOC(cstl_hash_resize(&H, 65536, tr0));
    for (i = 0; i < BIGN; i++) { E[i].key = KX(i); cstl_hash_insert(&H, E[i].key, &E[i]); shadow[i] = (uint32_t)fam(0, E[i].key, 65536); }
    count = 65536;
    for (phase = 0; phase < 2; phase++) {
        const int fnew = phase ? 0 : 1;
        size_t op, nops;
        target = phase ? 40000 : 131072;
        VRT_OP2("hash.resize", "n=%ld f%ld (leaves a rehash pending over a big table)", target, fnew);
        MAY_ALLOC(cstl_hash_resize(&H, target, tramp[fnew]));
        if (cstl_hash_load(&H) != (float)BIGN / target) vrt_fail("hash.resize.load.big", "load %g after resize to %zu", (double)cstl_hash_load(&H), target);
        nops = count + 1;               /* after as many keyed calls as there were buckets it must be finished */
        for (op = 0; op < nops; op++) {
            const size_t e = vrt_below(&g, BIGN);
            const int audit = op < 2500;
            int j, nsrc = 0, own = 0;
            uint32_t src[8];
            void *r;
            if (audit && H.bucket.rh.hash != NULL) for (i = 0; i < count; i++) bits[i] = H.bucket.at[i].cst == H.bucket.cst;
            hlogn = 0;
            if ((op & 4095) == 0) VRT_OP2("hash.find", "big table, keyed call #%ld of %ld", op, nops);
            r = cstl_hash_find(&H, E[e].key, NULL, NULL);
            if (r != &E[e]) vrt_fail("hash.big.find.missed", "element %zu not found in the big table (phase %d, call %zu)", e, phase, op);
            if (op + 1 == nops) {
                if (!(hlogn == 1 && hlog[0].m == target && hlog[0].f == fnew))
                    vrt_fail("hash.incr.not-finished-in-time.big", "%d consultations after %zu keyed calls over %zu buckets", hlogn, op, count);
                break;
            }
            if (hlogn == 1) continue;   /* finished early */
            for (j = 0; j < hlogn && j < HLOG_MAX; j++) {
                size_t x;
                int q;
                if (!(hlog[j].m == target && hlog[j].f == fnew)) continue;
                if (hlog[j].k == E[e].key && !own) { own = 1; continue; }
                x = hlog[j].k & 0xffffffffu;
                if (x >= BIGN || E[x].key != hlog[j].k) continue;
                for (q = 0; q < nsrc && q < 8; q++) if (src[q] == shadow[x]) break;
                if (q == nsrc || q == 8) { if (nsrc < 8) src[nsrc] = shadow[x]; nsrc++; }
                shadow[x] = (uint32_t)fam(fnew, hlog[j].k, target);
            }
            VRT_MAX("max.incr.big.source-buckets-per-keyed-call", nsrc);
            if (nsrc > 3) vrt_fail("hash.incr.relocated-more-than-3-buckets.big", "one keyed call on a %zu-bucket table relocated out of %d buckets", count, nsrc);
            if (audit && H.bucket.rh.hash != NULL && !no_whitebox) {
                int flips = 0;
                for (i = 0; i < count; i++) flips += bits[i] != (H.bucket.at[i].cst == H.bucket.cst);
                VRT_MAX("max.incr.big.whitebox.clean-bits-flipped", flips);
                if (flips > 3) vrt_fail("hash.incr.whitebox.more-than-3-buckets-cleaned.big", "%d of %zu buckets changed their clean bit in one keyed call", flips, count);
            }
            VRT_COUNT("incr.big.keyed-while-pending");
            if (mode != M_INCR && op >= 3000) break;    /* lookup/enum modes: leave the rehash pending, probe below */
        }
        if (mode == M_ENUM) {
            /* enumeration over a big, possibly still rehashing, table: every element exactly once */
            size_t seen = 0;
            memset(bits, 0, 131072);
            VRT_OP1("hash.foreach_const", "big table phase %ld", phase);
            if (cstl_hash_foreach_const(&H, big_visit, &seen) != 0 || seen != BIGN)
                vrt_fail("hash.foreach_const.missed-element.big", "enumeration of the big table visited %zu of %d elements", seen, BIGN);
            VRT_COUNT("probe.foreach_const.big");
        }
        if (mode != M_INCR) { VRT_OP0("hash.rehash", "big table"); cstl_hash_rehash(&H); }
        for (i = 0; i < BIGN; i++) shadow[i] = (uint32_t)fam(fnew, E[i].key, target);
        count = target;
    }
    if (mode == M_ENUM) {
        size_t seen = 0;
        big_clear_seen = &seen;
        VRT_OP0("hash.clear", "big table");
        cstl_hash_clear(&H, big_clear_cb);
        if (seen != BIGN) vrt_fail("hash.clear.missed-element.big", "clear of the big table handed over %zu of %d elements", seen, BIGN);
    } else {
        /* erase every other element, then every lookup must agree */
        for (i = 0; i < BIGN; i += 2) cstl_hash_erase(&H, &E[i]);
        if (cstl_hash_size(&H) != BIGN / 2) vrt_fail("hash.size.big", "size %zu after erasing half of %d", cstl_hash_size(&H), BIGN);
        for (i = 0; i < BIGN; i++) {
            void *r = cstl_hash_find(&H, E[i].key, NULL, NULL);
            if ((r == &E[i]) != ((i & 1) != 0)) vrt_fail("hash.big.find-after-erase", "element %zu %s", i, (i & 1) ? "lost" : "found although erased");
        }
        cstl_hash_clear(&H, NULL);
    }
    vrt_free(E); vrt_free(shadow); vrt_free(bits);
    VRT_COUNT("incr.big.cases");
    vrt_sig(0, 0xb16b16 + which);
}
/* Chains of thousands of nodes (few buckets, or a function that maps everything to one bucket): whatever is
 * done per node or per bucket, nothing may be lost when such a chain is relocated piecemeal. */
static void run_longchain(uint64_t which)
{
    enum { LN = 3000 };
    struct cstl_hash H;
    struct lelem { uint64_t pad; struct cstl_hash_node n; size_t key; int seen; } *E;
    const int nb0 = which ? 1 : 2, nb1 = which ? 3 : 4, f1 = which ? 1 : 0;
    size_t i, nfound;
    int step;
    bigkeys = 0;
    vrt_case_note("long chains: %d elements in %d bucket(s), resized to %d buckets (f%d) and back, keyed calls in between", LN, nb0, nb1, f1);
    E = vrt_alloc(sizeof(*E) * LN);
    memset(E, 0x5e, sizeof(*E) * LN);
    cstl_hash_init(&H, offsetof(struct lelem, n));
    VRT_OP1("hash.resize", "n=%ld f0 (first)", nb0);
    MAY_ALLOC(cstl_hash_resize(&H, (size_t)nb0, tr0));
    for (i = 0; i < LN; i++) { E[i].key = 2 * i + (i == LN - 1); cstl_hash_insert(&H, E[i].key, &E[i]); }
    for (step = 0; step < 4; step++) {
        const size_t n = (step & 1) ? (size_t)nb0 : (size_t)nb1;
        size_t k;
        VRT_OP2("hash.resize", "n=%ld f%ld over long chains", n, (step & 1) ? 0 : f1);
        MAY_ALLOC(cstl_hash_resize(&H, n, tramp[(step & 1) ? 0 : f1]));
        /* keyed calls on behalf of a few keys, present and absent, while the rehash is pending */
        for (k = 0; k < 3; k++) {
            const size_t key = k == 0 ? E[LN - 1].key : k == 1 ? 1 : E[17 * (step + 1)].key;
            void *r;
            VRT_OP1("hash.find", "key=%ld (long chains, pending)", key);
            r = cstl_hash_find(&H, key, NULL, NULL);
            if (key == 1) { if (r != NULL) vrt_fail("hash.find.found-absent-key.long-chain", "find of an absent key returned an element"); }
            else if (r == NULL || ((struct lelem *)r)->key != key) vrt_fail("hash.find.missed-live-element.long-chain", "find(key %zu) %s", key, r ? "returned another element" : "returned NULL");
        }
        /* everything is still there: by lookup and by enumeration */
        nfound = 0;
        for (i = 0; i < LN; i++) {
            void *r;
            if (i % 7 == 0 || i > LN - 40) VRT_OP1("hash.find", "key=%ld (audit, long chains)", E[i].key);
            r = cstl_hash_find(&H, E[i].key, NULL, NULL);
            if (r != &E[i]) vrt_fail("hash.audit.live-element-not-found.long-chain", "element with key %zu is no longer found after %d resizes over long chains (size says %zu)", E[i].key, step + 1, cstl_hash_size(&H));
            nfound++;
        }
        if (cstl_hash_size(&H) != LN) vrt_fail("hash.size.long-chain", "size %zu, %d elements were inserted", cstl_hash_size(&H), LN);
        {
            size_t seen = 0;
            VRT_OP0("hash.foreach_const", "long chains");
            if (cstl_hash_foreach_const(&H, big_visit, &seen) != 0 || seen != LN)
                vrt_fail("hash.foreach_const.missed-element.long-chain", "enumeration visited %zu of %d elements", seen, LN);
        }
        VRT_COUNT("longchain.rounds");
    }
    /* erase through the long chains, then clear */
    for (i = 0; i < LN; i += 3) { cstl_hash_erase(&H, &E[i]); }
    if (cstl_hash_size(&H) != LN - (LN + 2) / 3) vrt_fail("hash.erase.member.size.long-chain", "size %zu after erasing every third of %d", cstl_hash_size(&H), LN);
    for (i = 0; i < LN; i++) {
        void *r = cstl_hash_find(&H, E[i].key, NULL, NULL);
        if ((r == &E[i]) != (i % 3 != 0)) vrt_fail("hash.find.after-erase.long-chain", "element %zu %s", i, (i % 3) ? "lost" : "found although erased");
    }
    cstl_hash_clear(&H, NULL);
    vrt_free(E);
    VRT_COUNT("longchain.cases");
    vrt_sig(0, 0x10c4a1 + which);
}
#define NBIGT 2
#define NLONG 2
static uint64_t nrandom(void) { return under_memcheck() ? 48 : vrt_thorough ? 20000 : 1500; }
static void require_more(const char *name);
static uint64_t ncases(void)
{
    mode = !strcmp(vrt_mode, "enum") ? M_ENUM : !strcmp(vrt_mode, "incr") ? M_INCR : M_LOOKUP;
    if (vrt_thorough && !under_memcheck()) { scopes = thorough_scopes; nscopes = sizeof(thorough_scopes) / sizeof(scopes[0]); }
    else { scopes = quick_scopes; nscopes = sizeof(quick_scopes) / sizeof(scopes[0]); }
    if (under_memcheck()) nscopes = 3;
    if (mode != M_INCR) {
        /* visitors made their read-only re-entrant calls (the incr mode has no visitors) */
        require_more("reentrant.visitor-calls.find");
        require_more("reentrant.same-table.nested-foreach_const");
        require_more("reentrant.bystander-table.rounds");
    }
    if (mode == M_ENUM) { require_more("reentrant.visitor-calls.foreach"); require_more("reentrant.visitor-calls.foreach_const"); }
    return nscopes + nrandom() + (!under_memcheck() ? NBIGT + NLONG : 0);
}
static void run_case(uint64_t idx)
{
    /* the few expensive fixed cases first, so that a run capped with --max-cases still has them */
    const uint64_t nfix = !under_memcheck() ? NBIGT + NLONG : 0;
    nomem_case = (int)(idx & 1);
    direct_fns = 0;
    if (nomem_case) { vrt_fp_arm(NULL, 0, 1); VRT_COUNT("nomem.cases"); }
    if (idx < (uint64_t)nscopes) run_closure((int)idx);
    else if (idx < nscopes + nfix) { if (idx - nscopes < NBIGT) run_bigtable(idx - nscopes); else run_longchain(idx - nscopes - NBIGT); }
    else run_random(idx - nscopes - nfix);
    vrt_fp_disarm(); nomem_case = 0;
}
static void winit(void)
{
    (void)ncases();
    no_whitebox = getenv("VERIF_HASH_NO_WHITEBOX") != NULL;
    vrt_sig_name(0, "table-states");
}

static const char *required[24] = { "closure.states", "random.histories", "op.insert", "op.resize.while-pending", "op.clear.then-reused",
    /* boundary keys were the first key after every kind of fresh start; exact doublings of both kinds happened */
    "boundary.first-key.after-init", "boundary.first-key.after-resize", "boundary.first-key.after-rehash-completed",
    "boundary.first-key.after-clear", "boundary.first-key.is-0", "boundary.first-key.is-size-max", "boundary.keyed.key-2^63", "boundary.keyed.key-2^32",
    "op.resize.doubling.not-power-of-two", "op.resize.doubling.power-of-two", NULL };
static void require_more(const char *name)
{
    int i;
    for (i = 0; required[i] != NULL; i++) if (!strcmp(required[i], name)) return;
    if (i + 1 < (int)(sizeof(required) / sizeof(required[0]))) { required[i] = name; required[i + 1] = NULL; }
}
static const struct vrt_harness H = { "hash", ncases, run_case, winit, NULL, required, 16 };
int main(int argc, char **argv) { return vrt_main(argc, argv, &H); }
