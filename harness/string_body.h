/*
 * C10 -- generic part of the string harness; included twice by string.c:
 *   WIDE 0: cstl_string  / char    / str*
 *   WIDE 1: cstl_wstring / wchar_t / wcs*
 * No include guard on purpose.  Everything width-dependent is named W(x).
 */
#if WIDE
#define SX(n)    cstl_wstring_##n
#define STRUCT   struct cstl_wstring
#define CH       wchar_t
#define LC(n)    wcs##n
#define W(n)     w_##n
#define SNAME    "wstring"
#define CH_C     ((wchar_t)0x1F600)
#if WCHAR_MIN < 0
#define CH_NEG   ((wchar_t)-2)              /* below every other character for wcscmp */
#else
#define CH_NEG   ((wchar_t)(WCHAR_MAX - 1))
#endif
/* variant 1: the extremes of wchar_t (wcscmp must order them as wchar_t, a difference overflows) */
#define ALPHA1   { WCHAR_MAX, CH_NEG, 'a', 0 }
#else
#define SX(n)    cstl_string_##n
#define STRUCT   struct cstl_string
#define CH       char
#define LC(n)    str##n
#define W(n)     n_##n
#define SNAME    "string"
#define CH_C     ((char)0xe9)
/* variant 1: ASCII next to 0xFF and 0xE9 (strcmp orders bytes as unsigned char) */
#define ALPHA1   { 'a', (char)0xff, (char)0xe9, 0 }
#endif
#define CW       (sizeof(CH))
#define KEY(k)   SNAME "." k

/* alphabet: index 3 is the NUL character (only used as a search argument) */
static const CH W(alphas)[NVARIANTS][4] = { { 'a', 'b', CH_C, 0 }, ALPHA1 };
static const CH *W(alpha) = W(alphas)[0];

static CH *W(raws)[NVARIANTS][NRAW];
static CH **W(raw) = W(raws)[0];
static size_t W(rawlen)[NRAW];

/* long source of position-dependent characters (no period, no NUL): aux == RAW_PATTERN in *_str_n */
static CH *W(patterns)[NVARIANTS];
static CH *W(pattern);

static void W(set_variant)(int v)
{
    W(alpha) = W(alphas)[v];
    W(raw) = W(raws)[v];
    W(pattern) = W(patterns)[v];
}

struct W(ref) { CH *c; size_t n; };
static STRUCT W(S)[2];
static struct W(ref) W(R)[2];

static void W(init_raws)(void)
{
    int i, v;
    for (v = 0; v < NVARIANTS; v++) for (i = 0; i < NRAW; i++) {
        size_t n = strlen(rawtmpl[i]), j;
        /* exact-size block: a read past the terminator is an ASan report */
        W(raws)[v][i] = vrt_alloc((n + 1) * CW);
        for (j = 0; j < n; j++) W(raws)[v][i][j] = W(alphas)[v][rawtmpl[i][j] - 'a'];
        W(raws)[v][i][n] = 0;
        W(rawlen)[i] = n;
    }
    for (v = 0; v < NVARIANTS; v++) {
        size_t j;
        W(patterns)[v] = vrt_alloc((PATLEN + PATSLACK + 1) * CW);
        for (j = 0; j < PATLEN + PATSLACK; j++)
            W(patterns)[v][j] = W(alphas)[v][(((uint32_t)j * 2654435761u) >> 11 ^ (uint32_t)j >> 3) % 3];
        W(patterns)[v][PATLEN + PATSLACK] = 0;
    }
    W(pattern) = W(patterns)[0];
}

static void W(create)(int scope)
{
    int k;
    (void)scope;
    SX(init)(&W(S)[0]);
    {
        /* the other object comes from the static initialiser */
        STRUCT t = CSTL_STRING_INITIALIZER(CH);
        W(S)[1] = t;
    }
    for (k = 0; k < 2; k++) {
        W(R)[k].c = vrt_alloc((g_refcap + 1) * CW);
        W(R)[k].c[0] = 0;
        W(R)[k].n = 0;
    }
    g_after = "init";
}
static void W(destroy)(void)
{
    int k;
    for (k = 0; k < 2; k++) {
        SX(clear)(&W(S)[k]);
        vrt_free(W(R)[k].c); W(R)[k].c = NULL;
    }
    if (vrt_lib_live() != 0) VRT_COUNT("final.live-blocks-after-clear");
}

static int W(has_nul)(int k)
{
    size_t i;
    for (i = 0; i < W(R)[k].n; i++) if (W(R)[k].c[i] == 0) return 1;
    return 0;
}
static const char *W(state_class)(int k)
{
    if (SX(data)(&W(S)[k]) == NULL) return "never-allocated";
    if (SX(size)(&W(S)[k]) == 0 && SX(str)(&W(S)[k]) == &SX(nul)) return "reserved-unwritten";
    if (W(R)[k].n == 0) return "empty";
    if (W(has_nul)(k)) return "embedded-nul";
    return W(R)[k].n <= 8 ? "short" : "long";
}
static int W(state_idx)(int k)
{
    if (SX(data)(&W(S)[k]) == NULL) return 0;
    if (SX(size)(&W(S)[k]) == 0 && SX(str)(&W(S)[k]) == &SX(nul)) return 5;
    if (W(R)[k].n == 0) return 1;
    if (W(has_nul)(k)) return 3;
    return W(R)[k].n <= 8 ? 2 : 4;
}

/* ------------------------------------------------------------------ */
/* audit: what size/at/str report equals the reference                  */
/* ------------------------------------------------------------------ */
static void W(audit)(int k, int probe_end)
{
    STRUCT *s = &W(S)[k];
    const struct W(ref) *r = &W(R)[k];
    char key[120];
    size_t sz, cap, i, nat = 0;
    const CH *p;
    CH *d;
    volatile const CH *volatile q;
    int ab;

    g_ncalls[WIDE] += 4;
    sz = SX(size)(s);
    if (sz != r->n) {
        snprintf(key, sizeof(key), KEY("size.after.%s"), g_after);
        vrt_fail(key, "object %d: size %zu, reference %zu", k, sz, r->n);
    }
    p = SX(str)(s);
    if (p == NULL) {
        snprintf(key, sizeof(key), KEY("str.null.after.%s"), g_after);
        vrt_fail(key, "object %d: str() returned NULL", k);
    }
    for (i = 0; i < r->n; i++) {
        if (p[i] != r->c[i]) {
            snprintf(key, sizeof(key), KEY("str.content.after.%s"), g_after);
            vrt_fail(key, "object %d: character %zu of %zu is 0x%lx, reference 0x%lx", k, i, r->n,
                     (unsigned long)p[i], (unsigned long)r->c[i]);
        }
    }
    if (p[r->n] != 0) {
        snprintf(key, sizeof(key), KEY("str.not-terminated.after.%s"), g_after);
        vrt_fail(key, "object %d: str()[size=%zu] is 0x%lx, not NUL", k, r->n, (unsigned long)p[r->n]);
    }
    if (memcmp(p, r->c, (r->n + 1) * CW) != 0) {
        snprintf(key, sizeof(key), KEY("str.content.after.%s"), g_after);
        vrt_fail(key, "object %d: memcmp(str, reference, (size+1)*w) != 0", k);
    }
    d = SX(data)(s);
    if (d == NULL) {
        VRT_COUNT("audit.never-allocated");
        if (p == &SX(nul)) VRT_COUNT("audit.never-allocated.str-is-static-nul");
    }
    if (r->n != 0) {
        /* data() of an empty string is unspecified (NULL or a buffer); otherwise it is the string */
        size_t bsz = 0;
        void *base;
        if (d != p) {
            snprintf(key, sizeof(key), KEY("data.differs-from-str.after.%s"), g_after);
            vrt_fail(key, "object %d: data() %p != str() %p with size %zu", k, (void *)d, (const void *)p, r->n);
        }
        base = vrt_lib_block(d, &bsz);
        if (base == NULL || (size_t)((char *)base + bsz - (char *)d) < (r->n + 1) * CW) {
            snprintf(key, sizeof(key), KEY("storage.too-small.after.%s"), g_after);
            vrt_fail(key, "object %d: str() is not a live block of >= (size+1)*w = %zu bytes (block %p, %zu bytes)",
                     k, (r->n + 1) * CW, base, bsz);
        }
    } else if (d != NULL && p == &SX(nul)) {
        VRT_COUNT("audit.reserved-unwritten.str-is-static-nul");
    }
    cap = SX(capacity)(s);
    if (cap < sz) {
        snprintf(key, sizeof(key), KEY("capacity.below-size.after.%s"), g_after);
        vrt_fail(key, "object %d: capacity %zu < size %zu", k, cap, sz);
    }
    /* at(i) == str + i for every valid index (alternating at / at_const) */
    for (i = 0; i < r->n; i++) {
        /* long strings: both ends and a stride that changes from audit to audit */
        if (r->n > 48 && i >= 8 && i + 8 < r->n && (i + g_flip) % 16 != 0) continue;
        g_ncalls[WIDE]++; nat++;
        if ((i ^ g_flip) & 1) ab = VRT_ABORTS(q = SX(at)(s, i));
        else ab = VRT_ABORTS(q = SX(at_const)(s, i));
        if (ab || q != p + i) {
            snprintf(key, sizeof(key), KEY("at.in-range.after.%s"), g_after);
            vrt_fail(key, "object %d: at(%zu) %s, expected str+%zu (size %zu)", k, i,
                     ab ? "aborted" : "returned a different address", i, r->n);
        }
    }
    /* at(size) aborts: always for an object the call touched, every 8th audit otherwise */
    if (probe_end || (g_flip & 7) == 0) {
        g_ncalls[WIDE]++; nat++;
        if (g_flip & 1) ab = VRT_ABORTS(q = SX(at)(s, r->n));
        else ab = VRT_ABORTS(q = SX(at_const)(s, r->n));
        if (!ab) {
            snprintf(key, sizeof(key), KEY("at.size.no-abort.after.%s"), g_after);
            vrt_fail(key, "object %d: at(size=%zu) returned instead of aborting", k, r->n);
        }
        VRT_COUNT("abort.required.at-index");
        g_naborts[WIDE]++;
    }
    g_flip++;
    VRT_COUNT("call.size"); VRT_COUNT("call.str"); VRT_COUNT("call.data"); VRT_COUNT("call.capacity");
    VRT_COUNT_N("call.at+at_const", nat);
    VRT_COUNT("audit.object");
    if (W(has_nul)(k)) VRT_COUNT("audit.object.embedded-nul");
}
static void W(audit_all)(int touched) { W(audit)(0, touched & 1); W(audit)(1, touched & 2); }


/* ------------------------------------------------------------------ */
/* one operation with concrete arguments                                */
/*   returns 0 when the op is outside the domain / scope (nothing run)  */
/* ------------------------------------------------------------------ */
#define BEYOND(opname)                                                                          \
    do {                                                                                        \
        if (!ab) vrt_fail(KEY(opname ".pos-beyond-end.no-abort"),                               \
                          opname "(pos=%zu) on a string of size %zu returned instead of aborting", pos, size); \
        VRT_COUNT("abort.required.pos-beyond-end");                                            \
        g_naborts[WIDE]++;                                                                      \
    } while (0)

/* classification of a growth to newlen characters: GR_OK / GR_ABORT / GR_EITHER */
static int W(grow_class)(const STRUCT *s, size_t newlen)
{
    unsigned __int128 need;
    if (newlen <= SX(capacity)(s) && SX(data)((STRUCT *)s) != NULL) return GR_OK;
    if (newlen == SIZE_MAX) return GR_ABORT;
    need = ((unsigned __int128)newlen + 1) * CW;
    if (need > (unsigned __int128)vrt_alloc_cap) return GR_ABORT;
    if (((unsigned __int128)newlen * 2 + 4) * CW <= (unsigned __int128)vrt_alloc_cap) return GR_OK;
    return GR_EITHER;
}
static void W(count_growth_abort)(size_t newlen, int wrapped)
{
    g_naborts[WIDE]++;
    if (wrapped || newlen == SIZE_MAX || ((unsigned __int128)newlen + 1) * CW > (unsigned __int128)SIZE_MAX)
        VRT_COUNT("abort.required.growth-unrepresentable");
    else if (vrt_alloc_cap != VRT_ALLOC_CAP)
        VRT_COUNT("abort.required.growth-over-lowered-cap");
    else
        VRT_COUNT("abort.required.growth-over-cap");
}

/* insert n characters src[0..n) (or n copies of ch when src == NULL) at pos of object d */
static void W(model_insert)(int d, size_t pos, const CH *src, CH ch, size_t n)
{
    struct W(ref) *r = &W(R)[d];
    size_t i;
    if (r->n + n > g_refcap) vrt_fail("harness.string.model-overflow", "reference would grow to %zu", r->n + n);
    memmove(r->c + pos + n, r->c + pos, (r->n - pos + 1) * CW);
    for (i = 0; i < n; i++) r->c[pos + i] = src ? src[i] : ch;
    r->n += n;
}

static int W(do_op)(int kind, int d, size_t pos, size_t cnt, int aux, int audit)
{
    STRUCT *s = &W(S)[d], *os = &W(S)[1 - d];
    struct W(ref) *r = &W(R)[d], *ro = &W(R)[1 - d];
    const size_t size = r->n;
    volatile ssize_t rv = 0;
    volatile int irv = 0;
    int ab, gc, pc, cc = CC_NONE, wrapped = 0, touched = 1 << d;
    size_t n, newlen, avail, i, rl = 0;
    const CH *src = NULL;
    CH ch = 0;

    vrt_state(W(state_class)(d));
    pc = posclass(pos, size);
    avail = pos <= size ? size - pos : 0;

    switch (kind) {
    /* ---------------- inserts ---------------- */
    case K_INSERT_CH: case K_APPEND_CH:
    case K_INSERT_STR_N: case K_APPEND_STR_N:
    case K_INSERT_STR: case K_APPEND_STR:
    case K_INSERT: case K_APPEND:
        if (kind == K_INSERT_CH || kind == K_APPEND_CH) {
            ch = W(alpha)[aux & 3]; n = cnt;
            if (ch == 0) return 0;
        } else if (kind == K_INSERT || kind == K_APPEND) {
            src = ro->c; n = ro->n;              /* distinct object: never inserted into itself */
        } else {
            if (aux == RAW_PATTERN && (kind == K_INSERT_STR_N || kind == K_APPEND_STR_N)) { src = W(pattern); rl = PATLEN; }
            else if (aux >= NRAW) return 0;
            else { src = W(raw)[aux]; rl = W(rawlen)[aux]; }
            n = (kind == K_INSERT_STR || kind == K_APPEND_STR) ? rl : cnt;
            if (n > rl) return 0;               /* domain: at most the characters the raw string has */
        }
        if (kind == K_APPEND || kind == K_APPEND_CH || kind == K_APPEND_STR || kind == K_APPEND_STR_N) {
            pos = size; pc = PC_END; avail = 0;
        }
        wrapped = n > SIZE_MAX - size;
        newlen = size + n;
        if (pos > size) gc = GR_ABORT;
        else if (n == 0) gc = GR_OK;
        else if (wrapped) gc = GR_ABORT;
        else gc = W(grow_class)(s, newlen);
        if (gc != GR_ABORT && !wrapped && newlen > g_maxlen && n > 0) return 0;
        if (gc != GR_ABORT && newlen > g_refcap) return 0;
        if (kind == K_INSERT_CH || kind == K_APPEND_CH) cc = growclass(size, n, wrapped, CW);
        else if (kind == K_INSERT_STR_N || kind == K_APPEND_STR_N)
            cc = n == 0 ? CC_0 : n < rl ? CC_PART : CC_ALL;
        if (n == 0 && pos <= size && SX(data)(s) == NULL) VRT_COUNT("insert.zero-length.never-allocated");
        g_ncalls[WIDE]++;
        switch (kind) {
        case K_INSERT_CH:
            VRT_OP4(SNAME ".insert_ch", "s%ld pos=%lu cnt=%lu ch#%ld", d, pos, cnt, aux);
            ab = VRT_ABORTS(SX(insert_ch)(s, pos, n, ch)); break;
        case K_APPEND_CH:
            VRT_OP3(SNAME ".append_ch", "s%ld cnt=%lu ch#%ld", d, cnt, aux);
            ab = VRT_ABORTS(SX(append_ch)(s, n, ch)); break;
        case K_INSERT_STR_N:
            VRT_OP4(SNAME ".insert_str_n", "s%ld pos=%lu raw#%ld n=%lu", d, pos, aux, n);
            ab = VRT_ABORTS(SX(insert_str_n)(s, pos, src, n)); break;
        case K_APPEND_STR_N:
            VRT_OP3(SNAME ".append_str_n", "s%ld raw#%ld n=%lu", d, aux, n);
            ab = VRT_ABORTS(SX(append_str_n)(s, src, n)); break;
        case K_INSERT_STR:
            VRT_OP3(SNAME ".insert_str", "s%ld pos=%lu raw#%ld", d, pos, aux);
            ab = VRT_ABORTS(SX(insert_str)(s, pos, src)); break;
        case K_APPEND_STR:
            VRT_OP2(SNAME ".append_str", "s%ld raw#%ld", d, aux);
            ab = VRT_ABORTS(SX(append_str)(s, src)); break;
        case K_INSERT:
            VRT_OP3(SNAME ".insert", "s%ld pos=%lu <- s%ld", d, pos, 1 - d);
            ab = VRT_ABORTS(SX(insert)(s, pos, os)); break;
        default:
            VRT_OP2(SNAME ".append", "s%ld <- s%ld", d, 1 - d);
            ab = VRT_ABORTS(SX(append)(s, os)); break;
        }
        g_after = kname[kind];
        if (pos > size) {
            switch (kind) {
            case K_INSERT_CH: BEYOND("insert_ch"); break;
            case K_INSERT_STR_N: BEYOND("insert_str_n"); break;
            case K_INSERT_STR: BEYOND("insert_str"); break;
            default: BEYOND("insert"); break;
            }
        } else if (gc == GR_ABORT) {
            if (!ab) {
                char key[120];
                snprintf(key, sizeof(key), KEY("%s.unsatisfiable-growth.no-abort"), kname[kind]);
                vrt_fail(key, "%s growing a string of size %zu by %zu returned instead of aborting", kname[kind], size, n);
            }
            W(count_growth_abort)(newlen, wrapped);
        } else if (ab) {
            if (gc == GR_OK) {
                char key[120];
                snprintf(key, sizeof(key), KEY("%s.unexpected-abort"), kname[kind]);
                vrt_fail(key, "%s(pos=%zu, n=%zu) on a string of size %zu aborted", kname[kind], pos, n, size);
            }
            VRT_COUNT("lowcap.borderline.aborted");
        } else {
            W(model_insert)(d, pos, src, ch, n);
            if (gc == GR_EITHER) VRT_COUNT("lowcap.borderline.succeeded");
        }
        break;

    /* ---------------- set_str ---------------- */
    case K_SET_STR:
        if (aux >= NRAW) return 0;
        src = W(raw)[aux]; n = W(rawlen)[aux];
        if (n > g_maxlen || n > g_refcap) return 0;
        /* resize(0) + append: the growth (if any) is from an emptied object */
        gc = n == 0 && SX(data)(s) != NULL ? GR_OK : W(grow_class)(s, n);
        g_ncalls[WIDE]++;
        VRT_OP2(SNAME ".set_str", "s%ld raw#%ld", d, aux);
        ab = VRT_ABORTS(SX(set_str)(s, src));
        g_after = kname[kind];
        if (gc == GR_ABORT && !ab)
            vrt_fail(KEY("set_str.unsatisfiable-growth.no-abort"), "set_str of %zu characters returned instead of aborting", n);
        if (gc == GR_OK && ab)
            vrt_fail(KEY("set_str.unexpected-abort"), "set_str of %zu characters aborted", n);
        if (ab) {
            /* accept exactly {previous content, empty}; the model follows what is there */
            g_ncalls[WIDE]++;
            if (SX(size)(s) == 0 && size != 0) { r->n = 0; r->c[0] = 0; VRT_COUNT("set_str.abort.left-empty"); }
            else VRT_COUNT("set_str.abort.left-previous");
            if (gc == GR_ABORT) W(count_growth_abort)(n, 0); else VRT_COUNT("lowcap.borderline.aborted");
        } else {
            memcpy(r->c, src, (n + 1) * CW);
            r->n = n;
            if (gc == GR_EITHER) VRT_COUNT("lowcap.borderline.succeeded");
        }
        break;

    /* ---------------- erase ---------------- */
    case K_ERASE:
        cc = pos > size ? CC_ANY : cntclass(cnt, avail, pos);
        g_ncalls[WIDE]++;
        VRT_OP3(SNAME ".erase", "s%ld pos=%lu n=%lu", d, pos, cnt);
        ab = VRT_ABORTS(SX(erase)(s, pos, cnt));
        g_after = kname[kind];
        if (pos > size) BEYOND("erase");
        else if (pos == size) {
            /* the statement is silent about exactly pos == size: abort or "nothing erased" */
            if (ab) { VRT_COUNT("tolerated.erase.pos==size.aborted"); g_naborts[WIDE]++; }
            else VRT_COUNT("tolerated.erase.pos==size.natural");
        } else {
            n = cnt < avail ? cnt : avail;
            if (ab) vrt_fail(KEY("erase.unexpected-abort"), "erase(pos=%zu, n=%zu) on a string of size %zu aborted", pos, cnt, size);
            memmove(r->c + pos, r->c + pos + n, (size - pos - n + 1) * CW);
            r->n = size - n;
            if (cnt > avail) VRT_COUNT("count.clamped.erase");
        }
        break;

    /* ---------------- substr (into the other object) ---------------- */
    case K_SUBSTR:
        cc = pos > size ? CC_ANY : cntclass(cnt, avail, pos);
        n = cnt < avail ? cnt : avail;
        gc = pos >= size ? GR_OK : W(grow_class)(os, n);
        g_ncalls[WIDE]++;
        VRT_OP4(SNAME ".substr", "s%ld pos=%lu n=%lu -> s%ld", d, pos, cnt, 1 - d);
        ab = VRT_ABORTS(SX(substr)(s, pos, cnt, os));
        touched = 3;
        g_after = kname[kind];
        if (pos > size) BEYOND("substr");
        else if (pos == size) {
            if (ab) { VRT_COUNT("tolerated.substr.pos==size.aborted"); g_naborts[WIDE]++; }
            else { VRT_COUNT("tolerated.substr.pos==size.natural"); ro->n = 0; ro->c[0] = 0; }
        } else if (gc == GR_ABORT) {
            if (!ab) vrt_fail(KEY("substr.unsatisfiable-growth.no-abort"), "substr of %zu characters returned instead of aborting", n);
            W(count_growth_abort)(n, 0);
        } else if (ab) {
            if (gc == GR_OK)
                vrt_fail(KEY("substr.unexpected-abort"), "substr(pos=%zu, n=%zu) on a string of size %zu aborted", pos, cnt, size);
            VRT_COUNT("lowcap.borderline.aborted");
        } else {
            memcpy(ro->c, r->c + pos, n * CW);
            ro->c[n] = 0; ro->n = n;
            if (cnt > avail) VRT_COUNT("count.clamped.substr");
            if (gc == GR_EITHER) VRT_COUNT("lowcap.borderline.succeeded");
        }
        break;

    /* ---------------- resize ---------------- */
    case K_RESIZE:
        n = cnt;
        gc = W(grow_class)(s, n);
        if (n <= size && SX(data)(s) != NULL) gc = GR_OK;
        if (gc != GR_ABORT) {
            if (n > g_refcap) return 0;
            if (n > size && (!g_allow_grow || n > g_maxlen)) return 0;
        }
        cc = n > size ? growclass(size, n - size, 0, CW) : n == size ? CC_SAME : CC_SHRINK;
        if (cc == CC_FITS) cc = CC_GROW;
        g_ncalls[WIDE]++;
        VRT_OP2(SNAME ".resize", "s%ld n=%lu", d, n);
        ab = VRT_ABORTS(SX(resize)(s, n));
        g_after = kname[kind];
        if (gc == GR_ABORT) {
            if (!ab) vrt_fail(KEY("resize.unsatisfiable-growth.no-abort"),
                              "resize(%zu) of a string of size %zu returned instead of aborting", n, size);
            W(count_growth_abort)(n, 0);
        } else if (ab) {
            if (gc == GR_OK) vrt_fail(KEY("resize.unexpected-abort"), "resize(%zu) of a string of size %zu aborted", n, size);
            VRT_COUNT("lowcap.borderline.aborted");
        } else {
            for (i = size; i < n; i++) r->c[i] = 0;     /* growth fills with NUL characters */
            r->c[n] = 0; r->n = n;
            if (n > size) VRT_COUNT("resize.grew.embedded-nul");
            if (gc == GR_EITHER) VRT_COUNT("lowcap.borderline.succeeded");
        }
        break;

    /* ---------------- reserve ---------------- */
    case K_RESERVE: {
        size_t cap0, cap1;
        const CH *d0;
        int impossible;
        const int fresh = SX(data)(s) == NULL;
        n = cnt;
        cap0 = SX(capacity)(s); d0 = SX(data)(s);
        impossible = n == SIZE_MAX || ((unsigned __int128)n + 1) * CW > (unsigned __int128)vrt_alloc_cap;
        cc = n > size ? growclass(size, n - size, 0, CW) : n == size ? CC_SAME : CC_SHRINK;
        if (cc == CC_FITS) cc = CC_GROW;
        g_ncalls[WIDE] += 3;
        VRT_OP2(SNAME ".reserve", "s%ld n=%lu", d, n);
        ab = VRT_ABORTS(SX(reserve)(s, n));
        g_after = kname[kind];
        if (ab) vrt_fail(KEY("reserve.aborted"), "reserve(%zu) aborted (capacity %zu); a failing reserve must be a quiet no-op", n, cap0);
        cap1 = SX(capacity)(s);
        if (impossible && n > cap0) {
            if (cap1 != cap0 || SX(data)(s) != d0)
                vrt_fail(KEY("reserve.unsatisfiable.not-a-no-op"), "reserve(%zu) that cannot be satisfied changed capacity %zu -> %zu or moved the data", n, cap0, cap1);
            VRT_COUNT("reserve.unsatisfiable.quiet-no-op");
        } else {
            if (cap1 != cap0 && cap1 < n)
                vrt_fail(KEY("reserve.capacity"), "reserve(%zu): capacity %zu -> %zu", n, cap0, cap1);
            if (cap1 != cap0) VRT_COUNT("reserve.grew"); else VRT_COUNT("reserve.kept");
        }
        if (fresh) {
            /* nothing was ever stored: str() must still be an empty, terminated string */
            const CH *p = SX(str)(s);
            g_ncalls[WIDE]++;
            if (p == NULL || p[0] != 0)
                vrt_fail(KEY("reserve.never-allocated.str-not-terminated"),
                         "after reserve(%zu) on a never-allocated string str()[0] is 0x%lx, not NUL", n,
                         p ? (unsigned long)p[0] : 0ul);
            VRT_COUNT("reserve.on-never-allocated");
            if (SX(data)(s) != NULL) VRT_COUNT("reserve.on-never-allocated.got-buffer");
        }
        break;
    }

    case K_SWAP: {
        struct W(ref) t;
        if (d != 0) return 0;
        g_ncalls[WIDE]++;
        VRT_OP0(SNAME ".swap", "s0 <-> s1");
        ab = VRT_ABORTS(SX(swap)(s, os));
        touched = 3;
        g_after = kname[kind];
        if (ab) vrt_fail(KEY("swap.unexpected-abort"), "swap aborted");
        t = *r; *r = *ro; *ro = t;
        break;
    }
    case K_CLEAR:
        g_ncalls[WIDE]++;
        VRT_OP1(SNAME ".clear", "s%ld", d);
        ab = VRT_ABORTS(SX(clear)(s));
        g_after = kname[kind];
        if (ab) vrt_fail(KEY("clear.unexpected-abort"), "clear aborted");
        r->n = 0; r->c[0] = 0;
        break;

    /* ---------------- at / at_const with an arbitrary index ---------------- */
    case K_AT: case K_AT_CONST: {
        volatile const CH *volatile q = NULL;
        const CH *p = SX(str)(s);
        g_ncalls[WIDE] += 2;
        if (kind == K_AT) { VRT_OP2(SNAME ".at", "s%ld i=%lu", d, pos); ab = VRT_ABORTS(q = SX(at)(s, pos)); }
        else { VRT_OP2(SNAME ".at_const", "s%ld i=%lu", d, pos); ab = VRT_ABORTS(q = SX(at_const)(s, pos)); }
        if (pos >= size) {
            if (!ab) vrt_fail(kind == K_AT ? KEY("at.index-out-of-range.no-abort") : KEY("at_const.index-out-of-range.no-abort"),
                              "at(%zu) on a string of size %zu returned instead of aborting", pos, size);
            VRT_COUNT("abort.required.at-index"); g_naborts[WIDE]++;
        } else if (ab || q != p + pos) {
            vrt_fail(kind == K_AT ? KEY("at.in-range") : KEY("at_const.in-range"),
                     "at(%zu) on a string of size %zu %s", pos, size, ab ? "aborted" : "is not str + i");
        }
        audit = 0;
        break;
    }

    /* ---------------- searches ---------------- */
    case K_FIND_CH: {
        long want = -1;
        ch = W(alpha)[aux & 3];
        if (pos <= size) {
            const CH *f = LC(chr)(r->c + pos, ch);      /* the C library on the reference copy */
            if (f != NULL && (size_t)(f - r->c) != size) want = f - r->c;
            if (f != NULL && (size_t)(f - r->c) == size) VRT_COUNT("find_ch.nul.libc-points-at-terminator");
        }
        g_ncalls[WIDE]++;
        VRT_OP3(SNAME ".find_ch", "s%ld ch#%ld pos=%lu", d, aux, pos);
        ab = VRT_ABORTS(rv = SX(find_ch)(s, ch, pos));
        if (pos > size) BEYOND("find_ch");
        else if (ab) {
            if (pos < size) vrt_fail(KEY("find_ch.unexpected-abort"), "find_ch(pos=%zu) on a string of size %zu aborted", pos, size);
            VRT_COUNT("tolerated.find_ch.pos==size.aborted"); g_naborts[WIDE]++;
        } else {
            if (rv != want)
                vrt_fail(ch == 0 ? KEY("find_ch.nul.disagrees-with-libc") : KEY("find_ch.disagrees-with-libc"),
                         "find_ch(ch#%d, pos=%zu) = %ld, C library on the same characters: %ld (size %zu)",
                         aux & 3, pos, (long)rv, want, size);
            if (pos == size) VRT_COUNT("tolerated.find_ch.pos==size.natural");
            else if (want >= 0) { VRT_COUNT("find_ch.found"); if (ch < 0) VRT_COUNT("find_ch.negative-char.found"); }
            else VRT_COUNT("find_ch.not-found");
        }
        audit = 0;
        break;
    }
    case K_FIND_STR: case K_FIND: {
        long want = -1;
        const CH *ndl;
        if (kind == K_FIND_STR) { if (aux >= NRAW) return 0; ndl = W(raw)[aux]; }
        else ndl = ro->c;
        if (pos <= size) {
            const CH *f = LC(str)(r->c + pos, ndl);
            if (f != NULL) want = f - r->c;
        }
        g_ncalls[WIDE]++;
        if (kind == K_FIND_STR) {
            VRT_OP3(SNAME ".find_str", "s%ld raw#%ld pos=%lu", d, aux, pos);
            ab = VRT_ABORTS(rv = SX(find_str)(s, ndl, pos));
        } else {
            VRT_OP3(SNAME ".find", "s%ld needle=s%ld pos=%lu", d, 1 - d, pos);
            ab = VRT_ABORTS(rv = SX(find)(s, os, pos));
        }
        if (pos > size) { if (kind == K_FIND_STR) BEYOND("find_str"); else BEYOND("find"); }
        else if (ab) {
            if (pos < size) vrt_fail(kind == K_FIND_STR ? KEY("find_str.unexpected-abort") : KEY("find.unexpected-abort"),
                                     "find(pos=%zu) on a string of size %zu aborted", pos, size);
            if (kind == K_FIND_STR) VRT_COUNT("tolerated.find_str.pos==size.aborted");
            else VRT_COUNT("tolerated.find.pos==size.aborted");
            g_naborts[WIDE]++;
        } else {
            if (rv != want)
                vrt_fail(kind == K_FIND_STR ? KEY("find_str.disagrees-with-libc") : KEY("find.disagrees-with-libc"),
                         "find(pos=%zu) = %ld, C library on the same characters: %ld (size %zu)", pos, (long)rv, want, size);
            if (pos == size) {
                if (kind == K_FIND_STR) VRT_COUNT("tolerated.find_str.pos==size.natural");
                else VRT_COUNT("tolerated.find.pos==size.natural");
            } else if (want >= 0) {
                VRT_COUNT("find_str+find.found");
                if (ndl[0] < 0) VRT_COUNT("find_str.needle-with-negative-char.found");
            } else VRT_COUNT("find_str+find.not-found");
        }
        audit = 0;
        break;
    }
    case K_COMPARE: case K_COMPARE_STR: {
        int want;
        const CH *other;
        if (kind == K_COMPARE_STR) { if (aux >= NRAW) return 0; other = W(raw)[aux]; }
        else other = ro->c;
        want = sgn(LC(cmp)(r->c, other));
        g_ncalls[WIDE]++;
        if (kind == K_COMPARE_STR) {
            VRT_OP2(SNAME ".compare_str", "s%ld raw#%ld", d, aux);
            ab = VRT_ABORTS(irv = SX(compare_str)(s, other));
        } else {
            VRT_OP2(SNAME ".compare", "s%ld vs s%ld", d, 1 - d);
            ab = VRT_ABORTS(irv = SX(compare)(s, os));
        }
        if (ab) vrt_fail(KEY("compare.unexpected-abort"), "compare aborted");
        if (sgn(irv) != want)
            vrt_fail(kind == K_COMPARE_STR ? KEY("compare_str.disagrees-with-libc") : KEY("compare.disagrees-with-libc"),
                     "compare = %d, C library on the same characters has sign %d", (int)irv, want);
        if (want == 0) VRT_COUNT("compare.equal"); else VRT_COUNT("compare.unequal");
        /* top-bit byte vs ASCII / negative vs positive wchar_t: a plain difference has the wrong sign or overflows */
        if (r->c[0] != other[0] && (r->c[0] < 0) != (other[0] < 0)) VRT_COUNT("compare.first-chars-differ-in-sign");
        audit = 0;
        break;
    }
    default:
        return 0;
    }

    count_cell(kind, pc, cc, WIDE, W(state_idx)(d));
    if (audit) W(audit_all)(touched);
    return 1;
}

/* ------------------------------------------------------------------ */
/* coded operations (closure alphabets, matrix)                         */
/* ------------------------------------------------------------------ */
static int W(apply)(uint32_t op, int audit)
{
    const int kind = OP_KIND(op), d = OP_D(op), pcode = OP_POS(op), ccode = OP_CNT(op), aux = OP_AUX(op);
    const size_t size = W(R)[d].n;
    size_t pos, cnt;
    if (!resolve_pos(pcode, size, &pos)) return 0;
    if (kind == K_APPEND_CH || kind == K_RESIZE || kind == K_RESERVE) pos = size;     /* counts relative to the end */
    if (!resolve_cnt(ccode, pos, size, CW, &cnt)) return 0;
    if (kind == K_RESIZE || kind == K_RESERVE) {
        /* the code names a requested length; relative codes are taken from the current size */
        if (ccode == C_AVAIL) cnt = size;
        else if (ccode == C_AVAIL_P1) cnt = size + 1;
        else if (ccode == C_AVAIL_M1) { if (size == 0) return 0; cnt = size - 1; }
    }
    if (!W(do_op)(kind, d, pos, cnt, aux, audit)) return 0;
    if (ccode >= 8) count_code(ccode);
    return 1;
}

/* find/compare sweep against the C library on the reference copies */
static void W(queries)(int d)
{
    int a, i;
    const size_t size = W(R)[d].n;
    for (a = 0; a < 4; a++) {
        W(do_op)(K_FIND_CH, d, 0, 0, a, 0);
        if (size > 1) W(do_op)(K_FIND_CH, d, size / 2, 0, a, 0);
        if (size > 0) W(do_op)(K_FIND_CH, d, size - 1, 0, a, 0);
    }
    for (i = 0; i < NRAW_SHORT; i++) {
        W(do_op)(K_FIND_STR, d, 0, 0, i, 0);
        if (size > 1) W(do_op)(K_FIND_STR, d, size / 2, 0, i, 0);
        W(do_op)(K_COMPARE_STR, d, 0, 0, i, 0);
    }
    W(do_op)(K_FIND, d, 0, 0, 0, 0);
    if (size > 0) W(do_op)(K_FIND, d, size - 1, 0, 0, 0);
    W(do_op)(K_COMPARE, d, 0, 0, 0, 0);
    VRT_COUNT("audit.query-sweeps");
}

static uint64_t W(sig)(void)
{
    uint64_t h = 0xC10 + WIDE;
    int k;
    size_t i;
    for (k = 0; k < 2; k++) {
        h = vrt_mix(h, 0xff00 + W(R)[k].n * 4 + (SX(data)(&W(S)[k]) == NULL ? 1 :
                               (W(R)[k].n == 0 && SX(str)(&W(S)[k]) == &SX(nul)) ? 2 : 0));
        for (i = 0; i < W(R)[k].n; i++) h = vrt_mix(h, (uint64_t)(uint32_t)W(R)[k].c[i] + 1);
    }
    return h;
}
static int W(nontrivial)(void) { return W(R)[0].n + W(R)[1].n >= 2; }

/* put object k into one of the named classes (matrix / random start) */
static void W(make_class)(int k, int cls)
{
    switch (cls) {
    case SC_NEVER: break;
    case SC_EMPTY: W(do_op)(K_RESIZE, k, 0, 0, 0, 0); break;
    case SC_RESERVED: W(do_op)(K_RESERVE, k, 0, 6, 0, 0); break;
    case SC_SHORT: W(do_op)(K_SET_STR, k, 0, 0, k == 0 ? RAW_ABCA : RAW_BC, 0); break;
    case SC_NUL:
        W(do_op)(K_SET_STR, k, 0, 0, RAW_AB, 0);
        W(do_op)(K_RESIZE, k, 0, 3, 0, 0);
        W(do_op)(K_APPEND_STR, k, 0, 0, RAW_CA, 0);
        if (k == 0) { W(do_op)(K_RESIZE, k, 0, 6, 0, 0); W(do_op)(K_APPEND_CH, k, 0, 1, 1, 0); }
        break;
    default: /* SC_SLACK: content shorter than the capacity */
        W(do_op)(K_SET_STR, k, 0, 0, RAW_LONG24, 0);
        W(do_op)(K_ERASE, k, 3, 19, 0, 0);
        break;
    }
}

/* ------------------------------------------------------------------ */
/* long strings x the overflow argument classes                         */
/* ------------------------------------------------------------------ */
static size_t W(longL), W(long_spare);
static int W(long_dirty);

/* cheap audit: size, storage, terminator, memcmp against the reference, a few at() probes */
static void W(long_audit)(int k)
{
    STRUCT *s = &W(S)[k];
    const struct W(ref) *r = &W(R)[k];
    char key[120];
    size_t sz, bsz = 0, i, idx[3];
    const CH *p;
    void *base;
    volatile const CH *volatile q;
    int ab;

    g_ncalls[WIDE] += 4;
    sz = SX(size)(s);
    if (sz != r->n) {
        snprintf(key, sizeof(key), KEY("size.after.%s"), g_after);
        vrt_fail(key, "long object %d: size %zu, reference %zu", k, sz, r->n);
    }
    p = SX(str)(s);
    if (p == NULL) {
        snprintf(key, sizeof(key), KEY("str.null.after.%s"), g_after);
        vrt_fail(key, "long object %d: str() returned NULL", k);
    }
    base = vrt_lib_block(p, &bsz);
    if ((r->n != 0 || base != NULL) &&
        (base == NULL || (size_t)((const char *)base + bsz - (const char *)p) < (r->n + 1) * CW)) {
        snprintf(key, sizeof(key), KEY("storage.too-small.after.%s"), g_after);
        vrt_fail(key, "long object %d: str() is not a live block of >= (size+1)*w = %zu bytes (block %p, %zu bytes)",
                 k, (r->n + 1) * CW, base, bsz);
    }
    if (p[r->n] != 0) {
        snprintf(key, sizeof(key), KEY("str.not-terminated.after.%s"), g_after);
        vrt_fail(key, "long object %d: str()[size=%zu] is 0x%lx, not NUL", k, r->n, (unsigned long)p[r->n]);
    }
    if (memcmp(p, r->c, (r->n + 1) * CW) != 0) {
        for (i = 0; i < r->n && p[i] == r->c[i]; i++) ;
        snprintf(key, sizeof(key), KEY("str.content.after.%s"), g_after);
        vrt_fail(key, "long object %d: character %zu of %zu is 0x%lx, reference 0x%lx", k, i, r->n,
                 (unsigned long)p[i], (unsigned long)r->c[i]);
    }
    if (r->n != 0 && SX(data)(s) != p) {
        snprintf(key, sizeof(key), KEY("data.differs-from-str.after.%s"), g_after);
        vrt_fail(key, "long object %d: data() != str() with size %zu", k, r->n);
    }
    if (SX(capacity)(s) < sz) {
        snprintf(key, sizeof(key), KEY("capacity.below-size.after.%s"), g_after);
        vrt_fail(key, "long object %d: capacity %zu < size %zu", k, SX(capacity)(s), sz);
    }
    idx[0] = 0; idx[1] = r->n / 2; idx[2] = r->n ? r->n - 1 : 0;
    for (i = 0; i < 3 && r->n != 0; i++) {
        g_ncalls[WIDE]++;
        if ((i ^ g_flip) & 1) ab = VRT_ABORTS(q = SX(at)(s, idx[i]));
        else ab = VRT_ABORTS(q = SX(at_const)(s, idx[i]));
        if (ab || q != p + idx[i]) {
            snprintf(key, sizeof(key), KEY("at.in-range.after.%s"), g_after);
            vrt_fail(key, "long object %d: at(%zu) %s (size %zu)", k, idx[i], ab ? "aborted" : "is not str + i", r->n);
        }
    }
    if ((g_flip & 3) == 0) {
        g_ncalls[WIDE]++;
        ab = VRT_ABORTS(q = SX(at)(s, r->n));
        if (!ab) {
            snprintf(key, sizeof(key), KEY("at.size.no-abort.after.%s"), g_after);
            vrt_fail(key, "long object %d: at(size=%zu) returned instead of aborting", k, r->n);
        }
        VRT_COUNT("abort.required.at-index");
        g_naborts[WIDE]++;
    }
    g_flip++;
    VRT_COUNT("call.size"); VRT_COUNT("call.str"); VRT_COUNT("call.data"); VRT_COUNT("call.capacity");
    VRT_COUNT("long.audit.object");
    if (r->n >= 4095) VRT_COUNT("long.audit.object.size>=4095");
    if (r->n >= 65535) VRT_COUNT("long.audit.object.size>=65535");
}

/* object d := the first L characters of the pattern, built in one go from a cleared object */
static void W(long_build)(int d, size_t L, size_t spare)
{
    STRUCT *s = &W(S)[d];
    struct W(ref) *r = &W(R)[d];
    const CH *src = W(pattern) + (d ? 29 : 0);
    if (L > PATLEN || L > g_refcap) vrt_fail("harness.string.long-build", "length %zu", L);
    g_ncalls[WIDE]++;
    VRT_OP1(SNAME ".clear", "s%ld", d);
    SX(clear)(s);
    r->n = 0; r->c[0] = 0;
    if (spare) {
        g_ncalls[WIDE]++;
        VRT_OP2(SNAME ".reserve", "s%ld n=%lu", d, L + spare);
        SX(reserve)(s, L + spare);
    }
    if (L) {
        g_ncalls[WIDE]++;
        VRT_OP2(SNAME ".append_str_n", "s%ld pattern n=%lu", d, L);
        SX(append_str_n)(s, src, L);
        memcpy(r->c, src, L * CW);
        r->c[L] = 0; r->n = L;
    }
    g_after = "append_str_n";
    if (d == 0) W(long_dirty) = 0;
    VRT_COUNT("long.builds");
}
static void W(long_other)(size_t olen)
{
    if (W(R)[1].n != olen) W(long_build)(1, olen, 0);
}

/* lowmode: 0 standard allocator cap; 1 cap = object 0's capacity + 17 characters; 2 cap = 64 characters */
static int W(long_cell)(int kind, size_t pos, size_t cnt, int aux, int lowmode)
{
    const size_t L = W(longL);
    const uint64_t ab0 = g_naborts[WIDE];
    int made, aborted, i, grows = 0, mutates = 1;
    char key[120];

    if (W(long_dirty) || W(R)[0].n != L) W(long_build)(0, L, W(long_spare));
    if (lowmode == 1) vrt_alloc_cap = (SX(capacity)(&W(S)[0]) + 1 + 16) * CW;
    else if (lowmode == 2) vrt_alloc_cap = 64 * CW;
    vrt_ev_begin();
    made = W(do_op)(kind, 0, pos, cnt, aux, 0);
    vrt_alloc_cap = VRT_ALLOC_CAP;
    if (!made) { VRT_COUNT("long.cells.outside-domain"); return 0; }
    aborted = g_naborts[WIDE] != ab0;
    switch (kind) {
    case K_INSERT_CH: case K_INSERT_STR_N: case K_INSERT_STR: case K_INSERT:
    case K_APPEND_CH: case K_APPEND_STR_N: case K_APPEND_STR: case K_APPEND: case K_RESIZE:
        grows = 1; break;
    case K_SUBSTR: mutates = 0; break;
    }
    if (aborted && grows) {
        /* own oracle next to ASan: a growth that must abort cannot have obtained a buffer that does not even hold
         * the characters already there (the size of the request was computed with a wrapped / truncated length) */
        for (i = 0; i < vrt_ev_n(); i++) {
            const struct vrt_aev *e = vrt_ev(i);
            if (e->kind != 'f' && !e->failed && e->sz < (L + 1) * CW) {
                snprintf(key, sizeof(key), KEY("%s.unsatisfiable-growth.undersized-request"), kname[kind]);
                vrt_fail(key, "%s on a string of %zu characters that must abort obtained a block of %zu bytes before the abort",
                         kname[kind], L, e->sz);
            }
        }
        VRT_COUNT("long.abort.no-undersized-request");
    }
    W(long_audit)(0);
    W(long_audit)(1);
    if (aborted) {
        VRT_COUNT("long.abort.object-unchanged");
        if (pos > L) VRT_COUNT("long.abort.pos-beyond-end");
        else if (lowmode) VRT_COUNT("long.abort.growth-over-lowered-cap");
        else if (grows) VRT_COUNT("long.abort.growth-unrepresentable-or-over-cap");
    } else if (mutates) {
        W(long_dirty) = 1;
    }
    VRT_COUNT("long.cells");
    return 1;
}

static void W(run_long)(size_t L, size_t spare)
{
    const size_t M = SIZE_MAX, U = SIZE_MAX / CW, T = (size_t)1 << 32, A = VRT_ALLOC_CAP / CW;
    const size_t c16 = L < 65536 ? 65536 - L + 1 : 65536;
    const size_t gabort[] = {
        M, M - 1, M - 2, M - L, M - L + 1, M - L - 1, (size_t)1 << 62, (size_t)1 << 63, A + 1, VRT_ALLOC_CAP,
        U, U + 1, U - 1, U - 2, U - L, U - L - 1, U - L - 2, T, T + 1, T - L, T - L + 1, T - L - 1, T - L + 5,
        T / CW - L, T / CW - L - 1
    };
    const size_t gok[] = { 0, 1, 7, c16 };
    const size_t rabort[] = {
        M, M - 1, M - 2, (size_t)1 << 62, (size_t)1 << 63, A, A + 1, U, U + 1, U - 1, U - 2,
        T, T + 1, T - 1, T + L, T + L + 1, T + L - 1, T + 10, T / CW - 1, T / CW, T / CW + L
    };
    size_t vpos[6], bpos[8], epos[5];
    const int ngab = sizeof(gabort) / sizeof(gabort[0]), ngok = sizeof(gok) / sizeof(gok[0]);
    const int nrab = sizeof(rabort) / sizeof(rabort[0]);
    int nv = 0, nb = 0, ne = 0, i, j, k;

    W(longL) = L; W(long_spare) = spare; W(long_dirty) = 0;
    W(create)(0);
    W(long_build)(0, L, spare);
    if (SX(capacity)(&W(S)[0]) == L) VRT_COUNT("long.strings.capacity==size");
    else VRT_COUNT("long.strings.spare-capacity");
    W(long_audit)(0);

    vpos[nv++] = 0; vpos[nv++] = L / 2; vpos[nv++] = L - 1; vpos[nv++] = L;
    if (L > 4097) vpos[nv++] = 4096;
    if (L > 65537) vpos[nv++] = 65536;
    bpos[nb++] = L + 1; bpos[nb++] = L + 2; bpos[nb++] = L + 1000; bpos[nb++] = T; bpos[nb++] = T + L / 2;
    bpos[nb++] = (size_t)1 << 63; bpos[nb++] = M - 1; bpos[nb++] = M;
    epos[ne++] = 0; epos[ne++] = 1; epos[ne++] = L / 2; epos[ne++] = L - 2; epos[ne++] = L - 1;

    /* insert_ch / append_ch: every growth count at every valid position; positions beyond the end */
    for (i = 0; i < nv; i++) {
        for (j = 0; j < ngab; j++) W(long_cell)(K_INSERT_CH, vpos[i], gabort[j], (i + j) % 3, 0);
        for (j = 0; j < ngok; j++) W(long_cell)(K_INSERT_CH, vpos[i], gok[j], (i + j) % 3, 0);
        W(long_cell)(K_INSERT_CH, vpos[i], spare + 40, 1, 1);
    }
    for (i = 0; i < nb; i++) {
        W(long_cell)(K_INSERT_CH, bpos[i], 0, 0, 0);
        W(long_cell)(K_INSERT_CH, bpos[i], 1, 1, 0);
        W(long_cell)(K_INSERT_CH, bpos[i], M - bpos[i] + 1, 2, 0);
        W(long_cell)(K_INSERT_CH, bpos[i], M, 0, 0);
    }
    for (j = 0; j < ngab; j++) W(long_cell)(K_APPEND_CH, 0, gabort[j], j % 3, 0);
    for (j = 0; j < ngok; j++) W(long_cell)(K_APPEND_CH, 0, gok[j], j % 3, 0);
    W(long_cell)(K_APPEND_CH, 0, spare + 40, 1, 1);

    /* insert_str_n / insert_str / insert / append*: sources as long as they claim; growth refused by a lowered cap */
    for (i = 0; i < nv; i++) {
        W(long_cell)(K_INSERT_STR_N, vpos[i], 0, RAW_PATTERN, 0);
        W(long_cell)(K_INSERT_STR_N, vpos[i], 1, RAW_PATTERN, 0);
        W(long_cell)(K_INSERT_STR_N, vpos[i], 40, RAW_LONG40, 0);
        W(long_cell)(K_INSERT_STR_N, vpos[i], 5000, RAW_PATTERN, 0);
        W(long_cell)(K_INSERT_STR_N, vpos[i], c16, RAW_PATTERN, 0);
        W(long_cell)(K_INSERT_STR_N, vpos[i], spare + 40, RAW_PATTERN, 1);
        W(long_cell)(K_INSERT_STR_N, vpos[i], 5000, RAW_PATTERN, 1);
        W(long_cell)(K_INSERT_STR, vpos[i], 0, RAW_LONG24, 0);
        W(long_cell)(K_INSERT_STR, vpos[i], 0, RAW_LONG40, spare <= 16 ? 1 : 0);
        W(long_other)(i & 1 ? 3 : 5000);
        W(long_cell)(K_INSERT, vpos[i], 0, 0, 0);
        W(long_other)(5000);
        W(long_cell)(K_INSERT, vpos[i], 0, 0, 1);
    }
    W(long_cell)(K_INSERT_STR_N, L / 2, PATLEN, RAW_PATTERN, 0);
    for (i = 0; i < nb; i++) {
        W(long_cell)(K_INSERT_STR_N, bpos[i], 0, RAW_ABC, 0);
        W(long_cell)(K_INSERT_STR_N, bpos[i], 3, RAW_ABC, 0);
        W(long_cell)(K_INSERT_STR_N, bpos[i], 5000, RAW_PATTERN, 0);
        W(long_cell)(K_INSERT_STR, bpos[i], 0, RAW_AB, 0);
        W(long_other)(i & 1 ? 3 : 0);
        W(long_cell)(K_INSERT, bpos[i], 0, 0, 0);
    }
    W(long_cell)(K_APPEND_STR_N, 0, 0, RAW_PATTERN, 0);
    W(long_cell)(K_APPEND_STR_N, 0, 5000, RAW_PATTERN, 0);
    W(long_cell)(K_APPEND_STR_N, 0, c16, RAW_PATTERN, 0);
    W(long_cell)(K_APPEND_STR_N, 0, 5000, RAW_PATTERN, 1);
    W(long_cell)(K_APPEND_STR, 0, 0, RAW_LONG40, 0);
    W(long_cell)(K_APPEND_STR, 0, 0, RAW_LONG40, spare <= 16 ? 1 : 0);
    W(long_other)(5000);
    W(long_cell)(K_APPEND, 0, 0, 0, 0);
    W(long_cell)(K_APPEND, 0, 0, 0, 1);

    /* resize / reserve: requested lengths */
    for (j = 0; j < nrab; j++) {
        W(long_cell)(K_RESIZE, 0, rabort[j], 0, 0);
        W(long_cell)(K_RESERVE, 0, rabort[j], 0, 0);
    }
    {
        const size_t rok[] = { L, L + 1, L - 1, L + 5, L + c16, 10, 0 };
        for (j = 0; j < (int)(sizeof(rok) / sizeof(rok[0])); j++) {
            W(long_cell)(K_RESIZE, 0, rok[j], 0, 0);
            W(long_cell)(K_RESERVE, 0, rok[j], 0, 0);
        }
        W(long_cell)(K_RESIZE, 0, L + spare + 40, 0, 1);
        W(long_cell)(K_RESERVE, 0, L + spare + 40, 0, 1);
    }

    /* erase / substr: counts reaching past the end are truncated */
    for (i = 0; i < ne; i++) {
        const size_t pos = epos[i], av = L - pos;
        const size_t cnts[] = { 0, 1, av - 1, av, av + 1, M, M - 1, M - pos, M - pos + 1, M - pos - 1,
                                (size_t)1 << 63, (size_t)1 << 62, T, T + 1, T - pos, T - pos + 1, T + av, T / CW - pos };
        for (j = 0; j < (int)(sizeof(cnts) / sizeof(cnts[0])); j++) {
            W(long_cell)(K_ERASE, pos, cnts[j], 0, 0);
            if ((i + j) % 5 == 0) W(long_other)(0);
            W(long_cell)(K_SUBSTR, pos, cnts[j], 0, 0);
        }
    }
    for (k = 0; k < 2; k++) {
        const int kind = k ? K_SUBSTR : K_ERASE;
        W(long_cell)(kind, L, 0, 0, 0); W(long_cell)(kind, L, 1, 0, 0); W(long_cell)(kind, L, M, 0, 0);
        for (i = 0; i < nb; i++) {
            W(long_cell)(kind, bpos[i], 0, 0, 0);
            W(long_cell)(kind, bpos[i], 1, 0, 0);
            W(long_cell)(kind, bpos[i], M, 0, 0);
            W(long_cell)(kind, bpos[i], M - bpos[i] + 1, 0, 0);
        }
    }
    W(long_other)(0);
    W(long_cell)(K_SUBSTR, 0, M, 0, 2);           /* the copy cannot be allocated: abort, both unchanged */
    W(long_cell)(K_SUBSTR, L / 2, L, 0, 2);
    W(long_cell)(K_SUBSTR, L - 10, M, 0, 2);      /* 10 characters fit */

    /* erase most of it (0, 1, 10 characters stay), with and without a following shrink, then grow again */
    for (i = 0; i < 3; i++) for (j = 0; j < 5; j++) for (k = 0; k < 2; k++) {
        const size_t keep = i == 0 ? 0 : i == 1 ? 1 : 10;
        switch (j) {
        case 0: W(long_cell)(K_ERASE, keep, M, 0, 0); break;                   /* head stays, count to the end */
        case 1: W(long_cell)(K_ERASE, keep, L - keep, 0, 0); break;            /* exact count */
        case 2: W(long_cell)(K_ERASE, 0, L - keep, 0, 0); break;               /* tail stays */
        case 3: W(long_cell)(K_ERASE, keep / 2, L - keep, 0, 0); break;        /* both ends stay */
        default: W(long_cell)(K_ERASE, keep, (size_t)1 << 63, 0, 0); break;
        }
        if (W(R)[0].n != keep) vrt_fail("harness.string.long-erase-most", "reference has %zu characters", W(R)[0].n);
        VRT_COUNT("long.erase-most");
        if (k) {
            W(do_op)(K_RESIZE, 0, 0, keep / 2, 0, 0); W(long_audit)(0);
            W(do_op)(K_SWAP, 0, 0, 0, 0, 0); W(long_audit)(0); W(long_audit)(1);
            W(do_op)(K_SWAP, 0, 0, 0, 0, 0); W(long_audit)(0); W(long_audit)(1);
            VRT_COUNT("long.erase-most.then-shrink");
        }
        W(do_op)(K_APPEND_CH, 0, 0, 3, 1, 0); W(long_audit)(0);
        W(do_op)(K_INSERT_STR_N, 0, 0, 5000, RAW_PATTERN, 0); W(long_audit)(0);
        W(long_dirty) = 1;
    }
    W(destroy)();
}

#undef SX
#undef STRUCT
#undef CH
#undef LC
#undef W
#undef SNAME
#undef CH_C
#undef CH_NEG
#undef ALPHA1
#undef CW
#undef KEY
#undef BEYOND
