/*
 * C01 -- ordered trees (cstl_bintree_*, cstl_rbtree_*) hold exactly the
 *        inserted-minus-erased multiset, in order           (mode "order")
 * C02 -- red-black rules after every insert and erase       (mode "rb")
 * C15 -- clear hands over each element exactly once         (mode "clear")
 * A mode with the suffix "-mc" is the reduced workload for the valgrind
 * memcheck pass (config rel-plain): element nodes start out undefined and
 * VALGRIND_COUNT_ERRORS is polled after every operation.
 *
 * cases: [0, nscopes)   closure scopes (one tree type / pool / key count each)
 *        then ndeep()   deep degenerate plain trees (modes order, clear)
 *        then nbig()    large monotone fills of the red-black tree (modes order, rb)
 *        then           seeded random histories
 * In all of them every second hinted insert (every fourth in the random histories) uses a hint that is not from the
 * last find (hint_batch), and in mode order every second K_FOREACH and one traversal per direction in every closure
 * state has a visitor that makes read-only calls on the trees itself (reent_action).
 *
 * The tree type is a property of the case (closure scope or random draw); in
 * mode "rb" every case is a red-black tree.
 *
 * Oracles: reference multiset of element addresses per tree (return values of
 * find/erase/size after every call), traversal monitor (per-element
 * PRE/MID/POST/LEAF state machine, monotone MID/LEAF keys, early stop), link
 * walker (BST order, parent links, count; in mode "rb" the red-black rules and
 * the height bound instead), exactly-once clear callback that poisons and
 * frees; erased elements are poisoned and freed as well.  Local additions to
 * the runtime: memcheck polling (above) and a CPU-time hang detector.
 */
#include "vrt.h"
#include "explore.h"
#include "cstl/bintree.h"
#include "cstl/rbtree.h"
#include "cstl/heap.h"
#include <string.h>
#include <stdio.h>
#include <limits.h>
#include <signal.h>
#include <sys/time.h>
#if defined(__has_include)
# if __has_include(<valgrind/memcheck.h>)
#  include <valgrind/memcheck.h>
#  define HAVE_MEMCHECK_H 1
# endif
#endif

#define MAXT   2
#define MAXE   6400
#define MAXKEY 32768            /* keys are 0..nkeys-1, probes -1..nkeys */
#define MAGIC  0x7ee5e1e7u
#define RED    CSTL_RBTREE_COLOR_R
#define BLACK  CSTL_RBTREE_COLOR_B

enum { MODE_ORDER, MODE_RB, MODE_CLEAR };
static int mode;
static int mc_mode;             /* "<mode>-mc": reduced workload for the valgrind memcheck pass (config rel-plain) */

/* An element carries two embedded nodes ("offset classes").  A tree of class c links elements through rn[c]
 * (bintree cases use rn[c].n only).  In "mixed" scopes tree 0 starts with class 0 and tree 1 with class 1, so an
 * element can be held by both trees at once and the `off` members of the tree objects become observable
 * (swap must carry them along).  All other scopes use class 0 only. */
struct subc;
struct elem {
    uint32_t magic;
    int id, key;
    int where[2];               /* per class: tree index, -1 = not in a tree through that node */
    int midx[2];                /* per class: index in M[where[c]] */
    int vis;                    /* traversal state: 0 none, 1 PRE, 2 MID, 3 done */
    uint32_t stamp;             /* walker visit stamp */
    struct subc *sub;           /* mode clear: private container owned by this element (or NULL) */
    uint64_t pad0;
    struct cstl_rbtree_node rn[2];
    uint64_t pad1;
};
#define RN_OFF(c) (offsetof(struct elem, rn) + (size_t)(c) * sizeof(struct cstl_rbtree_node))
#define BN_OFF(c) (RN_OFF(c) + offsetof(struct cstl_rbtree_node, n))
static unsigned init_toggle;

static struct elem *pool[MAXE];
static int freeids[MAXE], nfree;
static int npool, nkeys, ntrees, is_rb, mixed;
static int cls[MAXT];                   /* offset class each tree object currently uses */
static struct cstl_bintree *BT[MAXT];
static struct cstl_rbtree *RT[MAXT];
static struct elem *M[MAXT][MAXE];
static int Mn[MAXT];
static int cnt[MAXT][MAXKEY + 2];       /* held elements per key (index key+1) */
static struct elem *probe;
static int cmp_token, cmp_scale = 1;
static uint64_t cmp_calls;
static uint32_t stamp_ctr;

/* ---- op encoding ---- */
enum { K_INSERT = 1, K_FIND, K_ERASE, K_CLEAR, K_SWAP, K_FOREACH };
#define OP(kind, t, flag, val) ((uint32_t)(kind) | (uint32_t)(t) << 4 | (uint32_t)(flag) << 5 | (uint32_t)(val) << 6)
#define OP_KIND(o) ((o) & 15)
#define OP_T(o)    (((o) >> 4) & 1)
#define OP_FLAG(o) (((o) >> 5) & 1)
#define OP_VAL(o)  ((int)((o) >> 6))
/* insert: val = key, flag = hinted; find: val = key+1, flag = with par;
 * erase: val = key+1; foreach: val = stop index + 1 (0 = never), flag = REV */

/* ---- keys: "<bintree|rbtree>.<suffix>" ---- */
static const char *TK(const char *suffix)
{
    static char buf[4][120];
    static int k;
    char *b = buf[k++ & 3];
    snprintf(b, sizeof(buf[0]), "%s.%s", is_rb ? "rbtree" : "bintree", suffix);
    return b;
}

static struct elem *new_elem(int id)
{
    struct elem *e = vrt_alloc(sizeof(*e));
    memset(e, 0x5e, sizeof(*e));
    e->magic = MAGIC; e->id = id; e->key = -2; e->where[0] = e->where[1] = -1; e->midx[0] = e->midx[1] = -1;
    e->vis = 0; e->stamp = 0; e->sub = NULL;
#ifdef HAVE_MEMCHECK_H
    /* the embedded node starts out undefined: memcheck reports any use the library makes of it before writing it */
    VALGRIND_MAKE_MEM_UNDEFINED(&e->rn, sizeof(e->rn));
#endif
    return e;
}
static int is_elem(const struct elem *e)
{
    return e != NULL && e->magic == MAGIC && e->id >= 0 && e->id < npool && pool[e->id] == e;
}
static inline struct elem *elem_of(const struct cstl_bintree_node *n, int c)
{
    return (struct elem *)((char *)n - BN_OFF(c));
}
static inline int col(const struct cstl_bintree_node *n)
{
    return (int)((const struct cstl_rbtree_node *)((const char *)n - offsetof(struct cstl_rbtree_node, n)))->c;
}
#define HELD(e, t) ((e)->where[cls[t]] == (t))
static inline struct cstl_bintree *bt_of(int t) { return is_rb ? &RT[t]->t : BT[t]; }

static int cmp_key(const void *a, const void *b, void *p)
{
    const struct elem *x = a, *y = b;
    VRT_CHECK(p == (void *)&cmp_token, TK("cmp.priv"), "comparison called with wrong priv %p", p);
    VRT_CHECK(x->magic == MAGIC && y->magic == MAGIC, TK("cmp.non-element"), "comparison called with a non-element");
    cmp_calls++;
    if (cmp_scale != 1 && ((x->id ^ y->id) & 1))     /* magnitudes on the edges of the integer types */
        return vrt_cmp_result((x->key > y->key) - (x->key < y->key), (unsigned)(x->id * 131 + y->id * 31 + cmp_scale));
    return x->key < y->key ? -cmp_scale : x->key > y->key ? cmp_scale : 0;
}

/* ---- hang detector (local to this harness) ----
 * A corrupted link can make a later library call spin forever; the runtime's wall-clock watchdog would turn the
 * whole run inconclusive after half an hour.  Here a CPU-time (not wall-clock) timer ticks every 2 s of consumed
 * CPU; five ticks without a new operation being started means one library call has used >= 10 s of CPU on a tree
 * of at most a few thousand elements: reported as a violation of the call's contract to return.  After the first
 * hang a worker skips its remaining cases (the verdict is already decided). */
static volatile uint64_t op_serial;
static const char *volatile op_name = "none";
static volatile int case_running, hang_seen;
static void hang_tick(int sig)
{
    static uint64_t last;
    static int ticks;
    (void)sig;
    if (!case_running || op_serial != last) { last = op_serial; ticks = 0; return; }
    if (++ticks < 5) return;
    ticks = 0;
    hang_seen = 1;
    case_running = 0;
    {
        char key[96];
        snprintf(key, sizeof(key), "%s.hang.%s", is_rb ? "rbtree" : "bintree", op_name);
        vrt_fail(key, "no new operation started during 10 s of CPU time: the %s call does not return", op_name);
    }
}
static void hang_timer(int on)
{
    struct itimerval it;
    struct sigaction sa;
    memset(&it, 0, sizeof(it));
    memset(&sa, 0, sizeof(sa));
    if (on) {
        sa.sa_handler = hang_tick;
        sa.sa_flags = SA_NODEFER | SA_RESTART;
        sigaction(SIGVTALRM, &sa, NULL);
        it.it_interval.tv_sec = 2; it.it_value.tv_sec = 2;
    }
    setitimer(ITIMER_VIRTUAL, &it, NULL);
}
#define OP_BEGIN(name) do { op_name = (name); op_serial++; } while (0)

/* ---- thin wrappers over the two APIs ---- */
static void t_insert(int t, struct elem *e, void *hint)
{
    if (is_rb) cstl_rbtree_insert(RT[t], e, hint); else cstl_bintree_insert(BT[t], e, hint);
}
static const void *t_find(int t, const struct elem *pr, const void **par)
{
    return is_rb ? cstl_rbtree_find(RT[t], pr, par) : cstl_bintree_find(BT[t], pr, par);
}
static void *t_erase(int t, const struct elem *pr)
{
    return is_rb ? cstl_rbtree_erase(RT[t], pr) : cstl_bintree_erase(BT[t], pr);
}
static size_t t_size(int t)
{
    return is_rb ? cstl_rbtree_size(RT[t]) : cstl_bintree_size(BT[t]);
}
static int t_foreach(int t, cstl_bintree_const_visit_func_t *v, void *p, int rev)
{
    const cstl_bintree_foreach_dir_t d = rev ? CSTL_BINTREE_FOREACH_DIR_REV : CSTL_BINTREE_FOREACH_DIR_FWD;
    return is_rb ? cstl_rbtree_foreach(RT[t], v, p, d) : cstl_bintree_foreach(BT[t], v, p, d);
}

/* ---- state ---- */
#define SCOPE(rb, nt, nk, np) ((rb) | (nt) << 1 | (nk) << 3 | (np) << 16)
#define SCOPE_MIXED (1 << 29)
static void sub_reset(void);
static void sub_release(struct elem *e);
static void st_create_ex(int rb, int nt, int nk, int np, int mx)
{
    int i, t;
    is_rb = rb; ntrees = nt; nkeys = nk; npool = np; mixed = mx;
    sub_reset();
    for (i = 0; i < npool; i++) pool[i] = new_elem(i);
    nfree = 0;
    for (i = npool - 1; i >= 0; i--) freeids[nfree++] = i;
    probe = new_elem(-1);
    for (t = 0; t < ntrees; t++) {
        cls[t] = mixed ? (t & 1) : 0;
        if (is_rb) {
            RT[t] = vrt_alloc(sizeof(*RT[t]));
            memset(RT[t], 0x5e, sizeof(*RT[t]));
            /* both documented ways of making a tree: the init function and (every other time) the static initialiser */
            if (++init_toggle & 1) cstl_rbtree_init(RT[t], cmp_key, &cmp_token, RN_OFF(cls[t]));
            else if (cls[t]) *RT[t] = (struct cstl_rbtree)CSTL_RBTREE_INITIALIZER(struct elem, rn[1], cmp_key, &cmp_token);
            else *RT[t] = (struct cstl_rbtree)CSTL_RBTREE_INITIALIZER(struct elem, rn[0], cmp_key, &cmp_token);
        } else {
            BT[t] = vrt_alloc(sizeof(*BT[t]));
            memset(BT[t], 0x5e, sizeof(*BT[t]));
            if (++init_toggle & 1) cstl_bintree_init(BT[t], cmp_key, &cmp_token, BN_OFF(cls[t]));
            else if (cls[t]) *BT[t] = (struct cstl_bintree)CSTL_BINTREE_INITIALIZER(struct elem, rn[1].n, cmp_key, &cmp_token);
            else *BT[t] = (struct cstl_bintree)CSTL_BINTREE_INITIALIZER(struct elem, rn[0].n, cmp_key, &cmp_token);
        }
        Mn[t] = 0;
        memset(cnt[t], 0, (nkeys + 2) * sizeof(cnt[t][0]));
    }
}
static void st_create(int scope)
{
    st_create_ex(scope & 1, (scope >> 1) & 3, (scope >> 3) & 0x1fff, (scope >> 16) & 0x1fff, (scope >> 29) & 1);
}
static void st_destroy(void)
{
    int i, t;
    for (i = 0; i < npool; i++) { if (pool[i]->sub != NULL) sub_release(pool[i]); vrt_free(pool[i]); pool[i] = NULL; }
    vrt_free(probe); probe = NULL;
    for (t = 0; t < ntrees; t++) {
        if (is_rb) { vrt_free(RT[t]); RT[t] = NULL; } else { vrt_free(BT[t]); BT[t] = NULL; }
    }
}
/* ---- nested containers (mode clear) ----
 * A share of the elements own a private, non-empty container (plain tree, red-black tree or heap in turn) of
 * individually allocated sub-elements.  Destroying such an element clears its container first, with a callback and
 * a priv of its own -- the ordinary destructor pattern.  When the element is destroyed from inside the clear
 * callback of the outer tree this is a clear of a different object running inside a clear: each callback must
 * still see exactly the elements of its own container, once, with its own priv. */
#define SMAGIC 0x5ab5e1e7u
#define SUBMAX 4
struct selem {
    uint32_t magic;
    int key;
    struct subc *owner;
    uint64_t pad0;
    struct cstl_rbtree_node rn;         /* rn.n doubles as the heap node */
    uint64_t pad1;
};
struct subc {
    uint32_t magic;
    int kind, n, seen, owner_id;        /* kind: 0 bintree, 1 rbtree, 2 heap */
    struct selem *se[SUBMAX];
    union { struct cstl_bintree bt; struct cstl_rbtree rt; struct cstl_heap hp; } u;
};
static int sub_token, sub_ctr, ins_ctr, nested_ran;
static struct subc *cur_sub;            /* the inner container being cleared right now */
static void sub_reset(void) { sub_ctr = 0; ins_ctr = 0; cur_sub = NULL; }
static int cmp_sub(const void *a, const void *b, void *p)
{
    const struct selem *x = a, *y = b;
    VRT_CHECK(p == (void *)&sub_token, TK("nested.cmp.priv"), "comparison of an inner container called with priv %p", p);
    VRT_CHECK(x->magic == SMAGIC && y->magic == SMAGIC, TK("nested.cmp.foreign-element"),
              "comparison of an inner container called with something that is not one of its elements");
    return (x->key > y->key) - (x->key < y->key);
}
static void sub_attach(struct elem *e)
{
    struct subc *sc = vrt_alloc(sizeof(*sc));
    int i;
    VRT_OP1("nested.fill", "owner e%ld", e->id);
    memset(sc, 0x5e, sizeof(*sc));
    sc->magic = SMAGIC; sc->kind = sub_ctr % 3; sc->n = 2 + (sub_ctr / 3) % 3; sc->seen = 0; sc->owner_id = e->id;
    sub_ctr++;
    switch (sc->kind) {
    case 0: cstl_bintree_init(&sc->u.bt, cmp_sub, &sub_token, offsetof(struct selem, rn.n)); break;
    case 1: cstl_rbtree_init(&sc->u.rt, cmp_sub, &sub_token, offsetof(struct selem, rn)); break;
    default: cstl_heap_init(&sc->u.hp, cmp_sub, &sub_token, offsetof(struct selem, rn.n)); break;
    }
    for (i = 0; i < SUBMAX; i++) sc->se[i] = NULL;
    for (i = 0; i < sc->n; i++) {
        struct selem *x = vrt_alloc(sizeof(*x));
        memset(x, 0x5e, sizeof(*x));
        x->magic = SMAGIC; x->key = (i * 3 + sub_ctr) % 4; x->owner = sc;
        sc->se[i] = x;
        switch (sc->kind) {
        case 0: cstl_bintree_insert(&sc->u.bt, x, NULL); break;
        case 1: cstl_rbtree_insert(&sc->u.rt, x, NULL); break;
        default: cstl_heap_push(&sc->u.hp, x); break;
        }
    }
    e->sub = sc;
    VRT_COUNT("nested.attached");
}
static void sub_clear_cb(void *ev, void *p)
{
    struct selem *x = ev;
    int i;
    VRT_CHECK(cur_sub != NULL, TK("clear.nested.callback-outside-its-clear"),
              "the callback of an inner container's clear was invoked while no inner clear is running (priv %p)", p);
    VRT_CHECK(p == (cur_sub->kind == 2 ? NULL : (void *)cur_sub), TK("clear.nested.priv"),
              "inner clear callback got priv %p, not the one passed to its own clear call", p);
    VRT_CHECK(x->magic == SMAGIC && x->owner == cur_sub, TK("clear.nested.foreign-element"),
              "inner clear callback was handed something that is not an element of the inner container (or twice)");
    for (i = 0; i < cur_sub->n; i++) if (cur_sub->se[i] == x) cur_sub->se[i] = NULL;
    cur_sub->seen++;
    memset(x, 0xa5, sizeof(*x));
    vrt_free(x);
    VRT_COUNT("clear.nested.handed-over");
}
/* the owning element is being destroyed: clear its container through the library, then free it */
static void sub_destroy(struct elem *e)
{
    struct subc *sc = e->sub, *prev = cur_sub;
    size_t left;
    cur_sub = sc; sc->seen = 0;
    switch (sc->kind) {
    case 0:
        VRT_OP2("nested.bintree.clear", "owner e%ld n%ld", e->id, sc->n);
        cstl_bintree_clear(&sc->u.bt, sub_clear_cb, sc);
        left = cstl_bintree_size(&sc->u.bt);
        break;
    case 1:
        VRT_OP2("nested.rbtree.clear", "owner e%ld n%ld", e->id, sc->n);
        cstl_rbtree_clear(&sc->u.rt, sub_clear_cb, sc);
        left = cstl_rbtree_size(&sc->u.rt);
        break;
    default:
        VRT_OP2("nested.heap.clear", "owner e%ld n%ld", e->id, sc->n);
        cstl_heap_clear(&sc->u.hp, sub_clear_cb);
        left = cstl_heap_size(&sc->u.hp);
        break;
    }
    cur_sub = prev;
    VRT_CHECK(sc->seen == sc->n, TK("clear.nested.count"), "inner clear handed over %d of %d elements", sc->seen, sc->n);
    VRT_CHECK(left == 0, TK("clear.nested.size"), "inner container reports size %zu after clear", left);
    memset(sc, 0xa5, sizeof(*sc));
    vrt_free(sc);
    e->sub = NULL;
    nested_ran = 1;
    VRT_COUNT("clear.nested.containers-cleared");
}
/* state teardown by the generator (not through the library) */
static void sub_release(struct elem *e)
{
    int i;
    for (i = 0; i < SUBMAX; i++) if (e->sub->se[i] != NULL) vrt_free(e->sub->se[i]);
    vrt_free(e->sub);
    e->sub = NULL;
}

static void model_add(int t, struct elem *e)
{
    const int c = cls[t];
    e->where[c] = t; e->midx[c] = Mn[t]; M[t][Mn[t]++] = e; cnt[t][e->key + 1]++;
}
static void model_del(int t, struct elem *e)
{
    const int c = cls[t];
    struct elem *last = M[t][--Mn[t]];
    M[t][e->midx[c]] = last; last->midx[c] = e->midx[c];
    cnt[t][e->key + 1]--; e->where[c] = -1; e->midx[c] = -1;
}
/* pick the element for an insert of `key` into tree t (deterministic: lowest id).  Mixed scopes: an element
 * already held by the other tree through its other node qualifies when it carries the same key (preferred, so
 * that sharing is the normal case), otherwise an element held by no tree. */
static struct elem *take_elem(int t, int key)
{
    int i;
    if (!mixed) return nfree > 0 ? pool[freeids[--nfree]] : NULL;
    for (i = 0; i < npool; i++)
        if (pool[i]->where[cls[t]] < 0 && pool[i]->where[!cls[t]] >= 0 && pool[i]->key == key) return pool[i];
    for (i = 0; i < npool; i++)
        if (pool[i]->where[0] < 0 && pool[i]->where[1] < 0) return pool[i];
    return NULL;
}
/* an element that left a tree (already removed from the model) is poisoned and freed: any later access by the
 * library is a use-after-free.  If it is still held by the other tree through its other node only the node
 * that left is poisoned. */
static void recycle(struct elem *e, int c)
{
    const int id = e->id;
    if (e->where[!c] >= 0) {
        memset(&e->rn[c], 0xa5, sizeof(e->rn[c]));
#ifdef HAVE_MEMCHECK_H
        VALGRIND_MAKE_MEM_UNDEFINED(&e->rn[c], sizeof(e->rn[c]));
#endif
        VRT_COUNT("recycle.node-only.still-in-other-tree");
        return;
    }
    if (e->sub != NULL) sub_destroy(e);
    memset(e, 0xa5, sizeof(*e));
    vrt_free(e);
    pool[id] = new_elem(id);
    if (!mixed) freeids[nfree++] = id;
}

/* ---- traversal monitor ---- */
struct trav {
    int t, rev, n, stop_at, stop_val, stopped;
    int npre, nmid, npost, nleaf, lastkey, have_last;
};
/* read-only re-entrancy: the visitor of the traversal that is running (cur_trav) makes read-only calls on the same
 * tree and on the other tree at the callback indices of the plan (see reent_action below) */
static struct trav *cur_trav;
static struct { int on, at, gap, left, done; unsigned salt; } reent;
static void reent_action(const struct trav *w, const struct elem *x);
static inline __attribute__((always_inline)) void visit_checks(struct trav *w, struct elem *x, cstl_bintree_visit_order_t ord)
{
    int leaf;
    VRT_CHECK(w == cur_trav, TK("foreach.priv"),
              "visitor called with priv %p, not the one passed to the traversal that is running", (void *)w);
    VRT_CHECK(!w->stopped, TK("foreach.continued-after-stop"),
              "%s traversal made callback #%d after the visitor returned %d at #%d", w->rev ? "REV" : "FWD",
              w->n, w->stop_val, w->stop_at);
    VRT_CHECK(is_elem(x) && HELD(x, w->t), TK("foreach.non-member"),
              "%s traversal visited something that is not a held element of tree %d", w->rev ? "REV" : "FWD", w->t);
    leaf = x->rn[cls[w->t]].n.l == NULL && x->rn[cls[w->t]].n.r == NULL;
    switch (ord) {
    case CSTL_BINTREE_VISIT_ORDER_PRE:
        VRT_CHECK(x->vis == 0, TK("foreach.bracket"), "PRE visit of e%d in visit state %d", x->id, x->vis);
        VRT_CHECK(!leaf, TK("foreach.leaf-class"), "PRE visit of childless e%d", x->id);
        x->vis = 1; w->npre++;
        break;
    case CSTL_BINTREE_VISIT_ORDER_MID:
        VRT_CHECK(x->vis == 1, TK("foreach.bracket"), "MID visit of e%d in visit state %d", x->id, x->vis);
        x->vis = 2; w->nmid++;
        break;
    case CSTL_BINTREE_VISIT_ORDER_POST:
        VRT_CHECK(x->vis == 2, TK("foreach.bracket"), "POST visit of e%d in visit state %d", x->id, x->vis);
        x->vis = 3; w->npost++;
        break;
    case CSTL_BINTREE_VISIT_ORDER_LEAF:
        VRT_CHECK(x->vis == 0, TK("foreach.bracket"), "LEAF visit of e%d in visit state %d", x->id, x->vis);
        VRT_CHECK(leaf, TK("foreach.leaf-class"), "LEAF visit of e%d which has a child", x->id);
        x->vis = 3; w->nleaf++;
        break;
    default:
        vrt_fail(TK("foreach.bad-order-value"), "visit order %d", (int)ord);
    }
    if (ord == CSTL_BINTREE_VISIT_ORDER_MID || ord == CSTL_BINTREE_VISIT_ORDER_LEAF) {
        if (w->have_last) {
            if (w->rev)
                VRT_CHECK(x->key <= w->lastkey, TK("foreach.rev.order"),
                          "REV traversal presents key %d after key %d", x->key, w->lastkey);
            else
                VRT_CHECK(x->key >= w->lastkey, TK("foreach.fwd.order"),
                          "FWD traversal presents key %d after key %d", x->key, w->lastkey);
        }
        w->lastkey = x->key; w->have_last = 1;
    }
}
static int visit_cb(const void *ev, cstl_bintree_visit_order_t ord, void *p)
{
    struct trav *w = p;
    visit_checks(w, (struct elem *)ev, ord);
    if (w->n++ == w->stop_at) { w->stopped = 1; return w->stop_val; }
    return 0;
}
/* the same visitor, making the read-only calls of the plan (a function of its own: the plain one is the hottest code here) */
static int visit_reent_cb(const void *ev, cstl_bintree_visit_order_t ord, void *p)
{
    struct trav *w = p;
    visit_checks(w, (struct elem *)ev, ord);
    if (reent.left > 0 && w->n >= reent.at && (w->n - reent.at) % reent.gap == 0) {
        reent.left--;
        reent_action(w, (const struct elem *)ev);
    }
    if (w->n++ == w->stop_at) { w->stopped = 1; return w->stop_val; }
    return 0;
}

/* one monitored traversal; returns the number of callbacks made */
static int do_foreach(int t, int rev, int stop_at, int stop_val)
{
    struct trav w;
    int i, r;
    memset(&w, 0, sizeof(w));
    w.t = t; w.rev = rev; w.stop_at = stop_at; w.stop_val = stop_val;
    for (i = 0; i < Mn[t]; i++) M[t][i]->vis = 0;
    OP_BEGIN("foreach");
    vrt_state(stop_at < 0 ? "full" : "early-stop");
    VRT_OP4(is_rb ? "rbtree.foreach" : "bintree.foreach", "t%ld dir%ld stop@%ld val%ld", t, rev, stop_at, stop_val);
    cur_trav = &w;
    r = t_foreach(t, reent.on ? visit_reent_cb : visit_cb, &w, rev);
    cur_trav = NULL;
    if (reent.on && reent.done > 0) {
        /* everything below is demanded of this traversal exactly as of an undisturbed one */
        if (w.stopped) VRT_COUNT("reent.outer.early-stop"); else VRT_COUNT("reent.outer.completed");
    }
    if (rev) VRT_COUNT("op.foreach.rev"); else VRT_COUNT("op.foreach.fwd");
    if (w.stopped) {
        VRT_CHECK(r == stop_val, TK("foreach.stop-value"),
                  "%s traversal returned %d, the visitor stopped it with %d at callback #%d",
                  rev ? "REV" : "FWD", r, stop_val, stop_at);
        VRT_COUNT("op.foreach.early-stop");
    } else {
        VRT_CHECK(r == 0, TK("foreach.ret-nonzero"), "%s traversal returned %d although every visit returned 0",
                  rev ? "REV" : "FWD", r);
        VRT_CHECK(w.nmid + w.nleaf == Mn[t], TK("foreach.count"),
                  "%s traversal presented %d elements (MID+LEAF), %d are held", rev ? "REV" : "FWD",
                  w.nmid + w.nleaf, Mn[t]);
        VRT_CHECK(w.npre == w.nmid && w.npost == w.nmid, TK("foreach.bracket"),
                  "%s traversal made %d PRE, %d MID, %d POST visits", rev ? "REV" : "FWD", w.npre, w.nmid, w.npost);
        for (i = 0; i < Mn[t]; i++)
            VRT_CHECK(M[t][i]->vis == 3, TK("foreach.missed-element"), "%s traversal did not finish e%d (state %d)",
                      rev ? "REV" : "FWD", M[t][i]->id, M[t][i]->vis);
    }
    return w.n;
}
/* every callback index is paired, over the states of a run, with every special value (-1, 1, +-2, even values, values that
 * vanish in narrow fields, the ends of int): the salt moves on with every traversal of the case */
static int stop_value(int s) { return vrt_stop_value((unsigned)s * 31u + 7u * vrt_case_tick()); }
/* well-mixed bits of the per-case counter: which variant of a call sequence comes next (a pure function of the case) */
static unsigned tick_hash(void)
{
    unsigned h = vrt_case_tick() * 2654435761u;
    h ^= h >> 15; h *= 2246822519u; h ^= h >> 13;
    return h;
}

/* ---- structural walker over the header-visible links ---- */
struct wk { int t, count, maxd, rules, bst; uint32_t stamp; };
#define WKEY(w, s) ((w)->rules ? "rbtree.rules." s : TK("walker." s))
static int walk(const struct cstl_bintree_node *n, const struct cstl_bintree_node *par, int lo, int hi,
                int depth, struct wk *w)
{
    struct elem *e;
    int bl, br, c = BLACK;
    if (n == NULL) return 0;
    w->count++;
    VRT_CHECK(w->count <= Mn[w->t], WKEY(w, "count"), "more than %d nodes reachable from the root of tree %d",
              Mn[w->t], w->t);
    e = elem_of(n, cls[w->t]);
    VRT_CHECK(is_elem(e) && HELD(e, w->t), WKEY(w, "non-member"), "reachable node is not a held element");
    VRT_CHECK(e->stamp != w->stamp, WKEY(w, "node-twice"), "e%d reachable along two paths", e->id);
    e->stamp = w->stamp;
    VRT_CHECK(n->p == par, WKEY(w, "parent-link"), "e%d (depth %d): parent link does not point at its parent",
              e->id, depth);
    if (w->bst)
        VRT_CHECK(lo <= e->key && e->key <= hi, TK("walker.bst-order"),
                  "e%d key %d outside [%d,%d] demanded by its ancestors", e->id, e->key, lo, hi);
    if (depth > w->maxd) w->maxd = depth;
    if (w->rules) {
        c = col(n);
        VRT_CHECK(c == RED || c == BLACK, "rbtree.rules.colour-invalid", "e%d colour field %d", e->id, c);
        if (c == RED) {
            VRT_CHECK(n->l == NULL || col(n->l) != RED, "rbtree.rules.red-red", "red e%d has a red left child", e->id);
            VRT_CHECK(n->r == NULL || col(n->r) != RED, "rbtree.rules.red-red", "red e%d has a red right child", e->id);
        }
    }
    bl = walk(n->l, n, lo, e->key, depth + 1, w);
    br = walk(n->r, n, e->key, hi, depth + 1, w);
    if (w->rules)
        VRT_CHECK(bl == br, "rbtree.rules.black-height",
                  "e%d (depth %d): %d blacks down to a missing child on the left, %d on the right", e->id, depth, bl, br);
    return bl + (c == BLACK);
}
static void walk_tree(int t, int rules, struct wk *w)
{
    const struct cstl_bintree_node *root = bt_of(t)->root;
    memset(w, 0, sizeof(*w));
    w->t = t; w->rules = rules; w->bst = !rules; w->stamp = ++stamp_ctr;
    if (rules && root != NULL)
        VRT_CHECK(col(root) == BLACK, "rbtree.rules.red-root", "root of tree %d is not black (colour %d)", t, col(root));
    walk(root, NULL, INT_MIN, INT_MAX, 1, w);
    VRT_CHECK(w->count == Mn[t], WKEY(w, "count"), "%d nodes reachable from the root of tree %d, %d held",
              w->count, t, Mn[t]);
}

/* C01 audit: size, walker, full FWD and REV traversal */
static void audit_tree(int t)
{
    struct wk w;
    VRT_CHECK(t_size(t) == (size_t)Mn[t], TK("size"), "tree %d: size %zu, %d inserted and not removed", t, t_size(t), Mn[t]);
    walk_tree(t, 0, &w);
    do_foreach(t, 0, -1, 0);
    do_foreach(t, 1, -1, 0);
    VRT_COUNT("audit.tree");
}
/* C02 audit: the red-black rules, parent links, node count, height */
static void rb_check(int t)
{
    struct wk w;
    size_t mn = 0, mx = 0;
    const size_t n = (size_t)Mn[t];
    walk_tree(t, 1, &w);
    VRT_CHECK(cstl_rbtree_size(RT[t]) == n, "rbtree.rules.count", "tree %d: size %zu, %zu held", t, cstl_rbtree_size(RT[t]), n);
    OP_BEGIN("height");
    VRT_OP1("rbtree.height", "t%ld", t);
    cstl_rbtree_height(RT[t], &mn, &mx);
    VRT_CHECK(mx == (size_t)w.maxd, "rbtree.height.max-mismatch",
              "cstl_rbtree_height max %zu, longest root-to-leaf path walked %d (n=%zu)", mx, w.maxd, n);
    VRT_CHECK(mx < 62 && ((uint64_t)1 << mx) <= (uint64_t)(n + 1) * (n + 1), "rbtree.height.bound",
              "height %zu exceeds 2*log2(n+1) for n=%zu", mx, n);
    VRT_MAX("max.rb.height", mx);
    VRT_MAX("max.rb.size-audited", n);
    VRT_COUNT("audit.rb-rules");
}
static void audit_all(void)
{
    int t;
    for (t = 0; t < ntrees; t++) {
        if (mode == MODE_RB) rb_check(t); else audit_tree(t);
    }
}

/* ---- evidence: which situation is an insert/erase about to meet (white box, never an oracle) ---- */
#define NCLS 24
struct eclass { const struct elem *victim; int n; char name[NCLS][64]; };
static void ecls_add(struct eclass *c, const char *fmt, ...) __attribute__((format(printf, 2, 3)));
static void ecls_add(struct eclass *c, const char *fmt, ...)
{
    va_list ap;
    if (c->n >= NCLS) return;
    va_start(ap, fmt);
    vsnprintf(c->name[c->n++], sizeof(c->name[0]), fmt, ap);
    va_end(ap);
}
static const struct cstl_bintree_node *predict_find(int t, int key)
{
    const struct cstl_bintree_node *n = bt_of(t)->root;
    int guard = Mn[t] + 1;
    while (n != NULL && guard-- > 0) {
        const int k = elem_of(n, cls[t])->key;
        if (key == k) return n;
        n = key < k ? n->l : n->r;
    }
    return NULL;
}
static const char *classify_erase(int t, int key, struct eclass *c)
{
    const struct cstl_bintree_node *n = predict_find(t, key), *y, *x, *p, *w, *w2, *near, *far;
    const char *kind;
    int nch, side, level, guard = 64;
    c->n = 0; c->victim = NULL;
    if (n == NULL) return "absent";
    c->victim = elem_of(n, cls[t]);
    nch = (n->l != NULL) + (n->r != NULL);
    y = n;
    if (nch == 2) {
        int deeper = 0;
        for (y = n->r; y->l != NULL && guard-- > 0; y = y->l) deeper = 1;
        kind = deeper ? "two-children.succ-deeper" : "two-children.succ-is-child";
    } else {
        kind = nch ? "one-child" : "leaf";
    }
    ecls_add(c, "erase.node.%s%s", kind, n->p == NULL ? ".root" : "");
    if (mode != MODE_RB) return kind;
    /* y is the position physically removed, x its only child */
    x = y->l != NULL ? y->l : y->r;
    if (col(y) == RED) { ecls_add(c, "erase.rb.n%d.removed-red", nch); ecls_add(c, "erase.rb.removed-red"); return kind; }
    if (x != NULL) { ecls_add(c, "erase.rb.n%d.removed-black.child-red", nch); ecls_add(c, "erase.rb.removed-black.child-red"); return kind; }
    if (y->p == NULL) { ecls_add(c, "erase.rb.removed-black.last-node"); return kind; }
    /* a black leaf position disappears: follow the textbook repair loop upwards */
    for (level = 0, p = y->p; level < 64; level++) {
        int nr, fr, wred;
        const char *nn;
        char lv[8];
        side = p->l == y ? 0 : 1;
        w = side == 0 ? p->r : p->l;
        if (w == NULL) break;
        wred = col(w) == RED;
        w2 = wred ? (side == 0 ? w->l : w->r) : w;
        if (w2 == NULL) break;
        near = side == 0 ? w2->l : w2->r;
        far = side == 0 ? w2->r : w2->l;
        nr = near != NULL && col(near) == RED;
        fr = far != NULL && col(far) == RED;
        nn = nr ? (fr ? "RR" : "RB") : (fr ? "BR" : "BB");
        if (level == 0) snprintf(lv, sizeof(lv), "n%d", nch); else snprintf(lv, sizeof(lv), "up");
        ecls_add(c, "erase.rb.fix.%s.%s.%s.nn-%s%s", lv, side ? "R" : "L", wred ? "w-red" : "w-black", nn,
                 (wred || nr || fr) ? "" : col(p) == RED ? ".p-red" : p->p != NULL ? ".p-black" : ".p-root");
        if (wred) ecls_add(c, "erase.rb.case.sibling-red");
        if (!nr && !fr) ecls_add(c, "erase.rb.case.nephews-black");
        else if (!fr) ecls_add(c, "erase.rb.case.near-nephew-red-only");
        else ecls_add(c, "erase.rb.case.far-nephew-red");
        if (level > 0) ecls_add(c, "erase.rb.case.above-the-leaf");
        if (!wred && !nr && !fr && col(p) == BLACK && p->p != NULL) { y = p; p = p->p; continue; }
        break;
    }
    return kind;
}
static void ecls_commit(const struct eclass *c)
{
    int i;
    for (i = 0; i < c->n; i++) vrt_count_dyn(c->name[i], 1);
}
static void classify_insert(int t, int key)
{
    const struct cstl_bintree_node *n = bt_of(t)->root, *par = NULL, *g, *u;
    int guard = Mn[t] + 1, pside, nside;
    while (n != NULL && guard-- > 0) { par = n; n = key < elem_of(n, cls[t])->key ? n->l : n->r; }
    if (par == NULL) { VRT_COUNT("insert.rb.into-empty"); return; }
    if (col(par) == BLACK) { VRT_COUNT("insert.rb.parent-black"); return; }
    g = par->p;
    if (g == NULL) return;
    pside = g->l == par ? 0 : 1;
    u = pside == 0 ? g->r : g->l;
    nside = key < elem_of(par, cls[t])->key ? 0 : 1;
    if (u != NULL && col(u) == RED) VRT_COUNT("insert.rb.parent-red.uncle-red");
    else if (nside == pside) VRT_COUNT("insert.rb.parent-red.uncle-black.outer");
    else VRT_COUNT("insert.rb.parent-red.uncle-black.inner");
}

/* ---- clear callback: exactly-once state machine, poison, free ---- */
static int clear_tree, clear_seen;
static void clear_cb(void *ev, void *p)
{
    struct elem *x = ev;
    VRT_CHECK(p == (void *)&clear_seen, TK("clear.priv"), "clear callback got priv %p", p);
    VRT_CHECK(x->magic == MAGIC, TK("clear.non-element"), "clear callback for a non-element or for an element twice");
    VRT_CHECK(is_elem(x) && HELD(x, clear_tree), TK("clear.non-member"),
              "clear callback for e%d which is not held by tree %d", x->id, clear_tree);
    clear_seen++;
    cnt[clear_tree][x->key + 1]--;
    x->where[cls[clear_tree]] = -1; x->midx[cls[clear_tree]] = -1;
    nested_ran = 0;
    recycle(x, cls[clear_tree]);
    if (nested_ran) {
        /* an inner container was cleared from inside this callback; the outer clear goes on */
        VRT_OP1(is_rb ? "rbtree.clear" : "bintree.clear", "t%ld (continues after a nested clear)", clear_tree);
        VRT_COUNT("clear.nested.inside-outer-clear");
    }
    VRT_COUNT("clear.handed-over");
}

static void check_par(int t, const void *par, const char *what)
{
    if (par != NULL) {
        const struct elem *pe = par;
        VRT_CHECK(is_elem(pe) && HELD(pe, t), TK("find.par-not-member"),
                  "find (%s) reported a parent that is not a held element of tree %d", what, t);
    }
}

/* one read-only find outside the op alphabet (hint batches, calls from inside a visitor); checked like any other find */
static struct elem *ro_find(int t, int key, const void **parp, const char *statecls)
{
    const void *par = (const void *)&cmp_token;
    struct elem *r;
    probe->key = key;
    vrt_state(statecls);
    VRT_OP3(is_rb ? "rbtree.find" : "bintree.find", "t%ld k%ld par%ld", t, key, parp != NULL);
    r = (struct elem *)t_find(t, probe, parp != NULL ? &par : NULL);
    if (cnt[t][key + 1] == 0) {
        VRT_CHECK(r == NULL, TK("find.phantom"), "find(k%d) returned %p, no held element has that key", key, (void *)r);
    } else {
        VRT_CHECK(r != NULL, TK("find.missed"), "find(k%d) returned NULL, %d held elements have that key", key, cnt[t][key + 1]);
        VRT_CHECK(is_elem(r) && HELD(r, t), TK("find.not-held"), "find(k%d) returned a pointer that is not a held element", key);
        VRT_CHECK(r->key == key, TK("find.wrong-key"), "find(k%d) returned e%d with key %d", key, r->id, r->key);
    }
    if (parp != NULL) {
        VRT_CHECK(par != (const void *)&cmp_token, TK("find.par-not-written"), "find did not store the parent");
        check_par(t, par, r ? "hit" : "miss");
        *parp = par;
    }
    VRT_COUNT("op.find");
    return r;
}
static void ro_height(int t)
{
    size_t mn = 0, mx = 0;
    VRT_OP1(is_rb ? "rbtree.height" : "bintree.height", "t%ld", t);
    if (is_rb) cstl_rbtree_height(RT[t], &mn, &mx); else cstl_bintree_height(BT[t], &mn, &mx);
}

/* ---- read-only re-entrancy (C01) ----
 * Nothing in the headers forbids a visitor to look at the tree it is shown: it asks for the size, searches another
 * key, measures the height, runs a traversal of its own in either direction -- on the tree being traversed or on the
 * other tree of the case.  The inner traversal has a visitor and a priv of its own and is checked on its own terms;
 * the outer one is held to the ordinary oracle (every element once, brackets, order, stop value). */
struct nest { int t, rev, n, stop_at, stop_val, stopped, nmid, lastkey, have_last; };
static struct nest *cur_nest;
static int nest_cb(const void *ev, cstl_bintree_visit_order_t ord, void *p)
{
    struct nest *w = p;
    const struct elem *x = ev;
    VRT_CHECK(p == (void *)cur_nest && cur_nest != NULL, TK("foreach.nested.visitor-outside-its-traversal"),
              "the visitor of a traversal started from inside another visitor was called with priv %p while %s", p,
              cur_nest ? "its traversal runs with another priv" : "its traversal is not running");
    VRT_CHECK(!w->stopped, TK("foreach.nested.continued-after-stop"), "nested traversal made callback #%d after it was stopped at #%d",
              w->n, w->stop_at);
    VRT_CHECK(is_elem(x) && HELD(x, w->t), TK("foreach.nested.non-member"),
              "nested traversal visited something that is not a held element of tree %d", w->t);
    if (ord == CSTL_BINTREE_VISIT_ORDER_MID || ord == CSTL_BINTREE_VISIT_ORDER_LEAF) {
        if (w->have_last)
            VRT_CHECK(w->rev ? x->key <= w->lastkey : x->key >= w->lastkey, TK("foreach.nested.order"),
                      "nested %s traversal presents key %d after key %d", w->rev ? "REV" : "FWD", x->key, w->lastkey);
        w->lastkey = x->key; w->have_last = 1; w->nmid++;
    }
    if (w->n++ == w->stop_at) { w->stopped = 1; return w->stop_val; }
    return 0;
}
static void reent_action(const struct trav *w, const struct elem *x)
{
    const unsigned s = reent.salt + 13u * (unsigned)reent.done;
    const int t2 = (ntrees == 2 && (s & 1)) ? !w->t : w->t;
    int act = (int)((s >> 1) % 6), k;
    reent.done++;
    if (act == 2 && Mn[t2] > 48) act = 0;       /* height is quadratic on a spine */
    switch (act) {
    case 0:
        VRT_OP1(is_rb ? "rbtree.size" : "bintree.size", "t%ld (from a visitor)", t2);
        VRT_CHECK(t_size(t2) == (size_t)Mn[t2], TK("size"), "tree %d: size %zu asked from inside a visitor, %d held", t2, t_size(t2), Mn[t2]);
        VRT_COUNT("reent.size");
        break;
    case 1: {
        /* another key than the one being shown: absent ones (-1, nkeys) included */
        const void *par;
        k = (int)((s >> 4) % (unsigned)(nkeys + 2)) - 1;
        if (k == x->key) k = k < nkeys ? k + 1 : -1;
        ro_find(t2, k, (s & 8) ? &par : NULL, "from-visitor");
        VRT_COUNT("reent.find");
        break;
    }
    case 2:
        vrt_state("from-visitor");
        ro_height(t2);
        VRT_COUNT("reent.height");
        break;
    default: {
        struct nest nw, *prev = cur_nest;
        int r;
        memset(&nw, 0, sizeof(nw));
        nw.t = t2; nw.rev = act == 3 ? w->rev : !w->rev;
        /* small trees completely, larger ones mostly up to an early stop */
        nw.stop_at = (Mn[t2] <= 16 || (s & 0x300) == 0) && !(s & 0x40) ? -1 : (int)((s >> 4) % 12);
        nw.stop_val = vrt_stop_value(s * 29u + 5u);
        vrt_state("from-visitor");
        VRT_OP4(is_rb ? "rbtree.foreach" : "bintree.foreach", "t%ld dir%ld stop@%ld val%ld (from a visitor)", t2, nw.rev, nw.stop_at, nw.stop_val);
        cur_nest = &nw;
        r = t_foreach(t2, nest_cb, &nw, nw.rev);
        cur_nest = prev;
        if (nw.stopped) {
            VRT_CHECK(r == nw.stop_val, TK("foreach.nested.stop-value"), "nested traversal returned %d, its visitor stopped it with %d", r, nw.stop_val);
            VRT_COUNT("reent.foreach.early-stop");
        } else {
            VRT_CHECK(r == 0, TK("foreach.nested.ret-nonzero"), "nested traversal returned %d although every visit returned 0", r);
            VRT_CHECK(nw.nmid == Mn[t2], TK("foreach.nested.count"), "nested traversal presented %d elements, %d are held", nw.nmid, Mn[t2]);
            VRT_COUNT("reent.foreach.completed");
        }
        if (nw.rev == w->rev) VRT_COUNT("reent.foreach.same-direction"); else VRT_COUNT("reent.foreach.other-direction");
        if (t2 == w->t) VRT_COUNT("reent.foreach.same-tree");
        break;
    }
    }
    if (t2 != w->t) VRT_COUNT("reent.other-tree"); else VRT_COUNT("reent.same-tree");
    /* back in the outer traversal */
    vrt_state("re-entered");
    VRT_OP2(is_rb ? "rbtree.foreach" : "bintree.foreach", "t%ld dir%ld (continues after a read-only call made by its visitor)", w->t, w->rev);
    OP_BEGIN("foreach");
}
/* a monitored traversal whose visitor makes up to `calls` read-only calls, the first at callback index `at` */
static int do_foreach_reent(int t, int rev, int stop_at, int stop_val, unsigned salt, int calls)
{
    const int ncb = 3 * Mn[t];
    int n;
    reent.on = 1; reent.salt = salt; reent.done = 0; reent.left = calls;
    reent.at = ncb > 0 ? (int)((salt >> 3) % (unsigned)(ncb > 24 && !(salt & 4) ? 24 : ncb)) : 0;
    if (stop_at >= 0 && reent.at > stop_at) reent.at = stop_at;          /* the stopping callback itself may be the one */
    reent.gap = 1 + (int)((salt >> 9) % 5);
    n = do_foreach(t, rev, stop_at, stop_val);
    reent.on = 0;
    if (reent.done > 0) VRT_COUNT("reent.traversals");
    return n;
}

/* ---- hints that are not from the last find ----
 * The parent reported by find stays the right place to start an insert of that key for as long as the tree is not
 * changed.  After find(k1) -> h1 the caller takes hints for one or two more keys (with and without the par
 * out-parameter, held and absent keys, preferably a key whose search ends under the same node as k1's but on its other
 * side), looks at the tree (find, size, height, traversals; the other tree as well) and then inserts k1 under h1.
 * One insert per batch: it invalidates the other hints. */
/* where a search for `key` ends: the parent and the side (0 left, 1 right) of the empty slot, or of the first match.
 * Read from the header-visible links to steer the generator, never an oracle. */
static const struct cstl_bintree_node *predict_slot(int t, int key, int *side)
{
    const struct cstl_bintree_node *n = bt_of(t)->root, *p = NULL;
    int guard = Mn[t] + 1;
    *side = -1;
    while (n != NULL && guard-- > 0) {
        const int k = elem_of(n, cls[t])->key;
        if (key == k) break;
        p = n; *side = key < k ? 0 : 1;
        n = *side ? n->r : n->l;
    }
    return p;
}
static void hint_batch(int t, int k1, const void *h1, unsigned s)
{
    const void *h2 = NULL, *h3 = NULL;
    int k2 = INT_MIN, k3, s1, s2, i, nro;
    const int present = cnt[t][k1 + 1] > 0;
    VRT_COUNT("hint.batch");
    if (present) VRT_COUNT("hint.batch.key-present"); else VRT_COUNT("hint.batch.key-absent");
    if (h1 == NULL) VRT_COUNT("hint.batch.null-hint");
    /* k2: an absent key whose empty slot hangs under the same node as h1, on the other side than k1's slot */
    if (h1 != NULL) {
        const struct cstl_bintree_node *p1 = predict_slot(t, k1, &s1);
        if (p1 != NULL && elem_of(p1, cls[t]) == (const struct elem *)h1) {
            const int pk = ((const struct elem *)h1)->key;
            const int cand[4] = { s1 ? pk - 1 : pk + 1, s1 ? k1 - 1 : k1 + 1, pk - 1, pk + 1 };
            for (i = 0; i < 4 && k2 == INT_MIN; i++) {
                if (cand[i] < -1 || cand[i] > nkeys || cand[i] == k1 || cnt[t][cand[i] + 1] > 0) continue;
                if (predict_slot(t, cand[i], &s2) == p1 && s2 != s1) k2 = cand[i];
            }
        }
    }
    if (k2 != INT_MIN) {
        if (present) VRT_COUNT("hint.batch.other-slot-of-the-hint.key-present"); else VRT_COUNT("hint.batch.same-leaf-other-side");
    } else {
        k2 = (int)((s >> 2) % (unsigned)(nkeys + 2)) - 1;
    }
    ro_find(t, k2, (s & 1) ? &h2 : NULL, "hint-batch");
    if (s & 2) {
        k3 = (int)((s >> 8) % (unsigned)(nkeys + 2)) - 1;
        ro_find(t, k3, (s & 0x40) ? &h3 : NULL, "hint-batch");
        VRT_COUNT("hint.batch.three-hints");
    }
    if (!(s & 1) || ((s & 2) && !(s & 0x40))) VRT_COUNT("hint.batch.find-without-par");
    /* looking at the tree changes nothing */
    nro = (int)((s >> 14) % 3);
    for (i = 0; i < nro; i++) {
        const unsigned a = (s >> (16 + 4 * i)) % 6;
        const int t2 = (ntrees == 2 && (a & 1)) ? !t : t;
        switch (a >> 1) {
        case 0:
            VRT_OP1(is_rb ? "rbtree.size" : "bintree.size", "t%ld (hint batch)", t2);
            VRT_CHECK(t_size(t2) == (size_t)Mn[t2], TK("size"), "tree %d: size %zu, %d inserted and not removed", t2, t_size(t2), Mn[t2]);
            VRT_COUNT("hint.batch.then.size");
            break;
        case 1:
            if (Mn[t2] <= 48) { vrt_state("hint-batch"); ro_height(t2); VRT_COUNT("hint.batch.then.height"); break; }
            /* fall through */
        default:
            if (mode == MODE_RB) {      /* traversals are C01's */
                ro_find(t2, (int)((s >> 5) % (unsigned)(nkeys + 2)) - 1, NULL, "hint-batch");
            } else {
                const int lim = Mn[t2] <= 12 ? -1 : (int)((s >> 7) % 9);
                do_foreach(t2, (int)(s >> 13) & 1, lim, stop_value(lim));
                VRT_COUNT("hint.batch.then.foreach");
            }
            break;
        }
        if (t2 != t) VRT_COUNT("hint.batch.then.other-tree");
    }
    if (nro == 0) VRT_COUNT("hint.batch.finds-only");
}
/* the element inserted under the old hint must be where a search finds it: every ancestor on the correct side */
static void hint_batch_after(int t, const struct elem *e)
{
    const struct cstl_bintree_node *n = &e->rn[cls[t]].n;
    int guard = Mn[t] + 1;
    for (; n->p != NULL && guard-- > 0; n = n->p) {
        const struct elem *pe = elem_of(n->p, cls[t]);
        VRT_CHECK(is_elem(pe) && HELD(pe, t), TK("insert.old-hint.ancestor-not-member"), "an ancestor of the inserted e%d is not a held element", e->id);
        VRT_CHECK(n->p->l == n || n->p->r == n, TK("insert.old-hint.parent-link"), "e%d is not a child of the node its parent link names", elem_of(n, cls[t])->id);
        VRT_CHECK(n->p->l == n ? e->key <= pe->key : e->key >= pe->key, TK("insert.old-hint.misplaced"),
                  "e%d (key %d) inserted under a hint taken earlier (tree unchanged since) hangs on the %s of e%d (key %d)",
                  e->id, e->key, n->p->l == n ? "left" : "right", pe->id, pe->key);
    }
    VRT_CHECK(n == bt_of(t)->root, TK("insert.old-hint.unreachable"), "the parent links of the inserted e%d do not lead to the root", e->id);
    ro_find(t, e->key, NULL, "after-old-hint");
}

static int in_closure;
static int st_apply(uint32_t op, int audit);
static int st_apply_inner(uint32_t op, int audit)
{
    const int kind = OP_KIND(op), t = OP_T(op), flag = OP_FLAG(op), val = OP_VAL(op);
    struct elem *e, *r;
    const void *par;
    int key, i, batch = 0;
    unsigned salt;

    if (t >= ntrees) return 0;
    OP_BEGIN(kind == K_INSERT ? "insert" : kind == K_FIND ? "find" : kind == K_ERASE ? "erase" : kind == K_CLEAR ? "clear" :
             kind == K_SWAP ? "swap" : "foreach");
    switch (kind) {
    case K_INSERT:
        key = val;
        if (key >= nkeys || (e = take_elem(t, key)) == NULL) return 0;
        e->key = key;
        if (mode == MODE_CLEAR && e->sub == NULL && ins_ctr++ % 3 == 0) sub_attach(e);
        par = NULL;
        if (flag) {
            /* documented hint protocol: the `par` reported by a find of the same key with no mutation in between,
             * whether or not the key is already held (par is then the parent of the match; NULL = match is the
             * root / tree empty) */
            probe->key = key;
            vrt_state("for-hint");
            VRT_OP2(is_rb ? "rbtree.find" : "bintree.find", "t%ld k%ld +par (hint)", t, key);
            par = (const void *)&cmp_token;     /* must be overwritten */
            r = (struct elem *)t_find(t, probe, &par);
            if (cnt[t][key + 1] == 0) {
                VRT_CHECK(r == NULL, TK("find.phantom"), "find(k%d) returned %p, no held element has that key", key, (void *)r);
                VRT_COUNT("op.insert.hinted.key-absent");
            } else {
                VRT_CHECK(r != NULL, TK("find.missed"), "find(k%d) returned NULL, %d held elements have that key", key, cnt[t][key + 1]);
                VRT_CHECK(is_elem(r) && HELD(r, t), TK("find.not-held"), "find(k%d) returned a pointer that is not a held element", key);
                VRT_CHECK(r->key == key, TK("find.wrong-key"), "find(k%d) returned e%d with key %d", key, r->id, r->key);
                VRT_COUNT("op.insert.hinted.key-present");
                if (par == NULL) VRT_COUNT("op.insert.hinted.key-present.match-is-root");
            }
            VRT_CHECK(par != (const void *)&cmp_token, TK("find.par-not-written"), "find did not store the parent");
            check_par(t, par, r ? "hit" : "miss");
            VRT_COUNT("op.find");
            if (par == NULL) VRT_COUNT("op.insert.hinted.null-hint");
            VRT_COUNT("op.insert.hinted");
            /* every second hint (every fourth in the long histories) is not used at once: more hints are taken and read-only
             * calls made first (tree unchanged) */
            salt = tick_hash();
            if ((salt & 1) && (in_closure || (salt & 2)) && (Mn[t] <= 1024 || (salt >> 28) == 0)) {     /* rarely on the deep spines: O(depth) a step */
                batch = 1; hint_batch(t, key, par, salt >> 2); OP_BEGIN("insert");
            }
        }
        if (mode == MODE_RB) classify_insert(t, key);
        vrt_state(Mn[t] ? "nonempty" : "empty");
        VRT_OP4(is_rb ? "rbtree.insert" : "bintree.insert", "t%ld e%ld(k%ld) hint=%ld", t, e->id, key,
                par ? ((const struct elem *)par)->id : -1);
        t_insert(t, e, (void *)par);
        model_add(t, e);
        if (batch) hint_batch_after(t, e);
        if (cnt[t][key + 1] > 1) VRT_COUNT("op.insert.duplicate-key");
        VRT_COUNT("op.insert");
        break;
    case K_FIND:
        key = val - 1;
        if (key > nkeys) return 0;
        probe->key = key;
        vrt_state(cnt[t][key + 1] ? "present" : "absent");
        if (flag) {
            VRT_OP2(is_rb ? "rbtree.find" : "bintree.find", "t%ld k%ld +par", t, key);
            par = (const void *)&cmp_token;
            cmp_calls = 0;
            r = (struct elem *)t_find(t, probe, &par);
            VRT_CHECK(par != (const void *)&cmp_token, TK("find.par-not-written"), "find did not store the parent");
            check_par(t, par, r ? "hit" : "miss");
            VRT_COUNT("op.find.par");
        } else {
            VRT_OP2(is_rb ? "rbtree.find" : "bintree.find", "t%ld k%ld", t, key);
            cmp_calls = 0;
            r = (struct elem *)t_find(t, probe, NULL);
        }
        if (cnt[t][key + 1] == 0) {
            VRT_CHECK(r == NULL, TK("find.phantom"), "find(k%d) returned %p, no held element has that key", key, (void *)r);
            VRT_COUNT("op.find.absent");
        } else {
            VRT_CHECK(r != NULL, TK("find.missed"), "find(k%d) returned NULL, %d held elements have that key", key, cnt[t][key + 1]);
            VRT_CHECK(is_elem(r) && HELD(r, t), TK("find.not-held"), "find(k%d) returned a pointer that is not a held element", key);
            VRT_CHECK(r->key == key, TK("find.wrong-key"), "find(k%d) returned e%d with key %d", key, r->id, r->key);
            if (cnt[t][key + 1] > 1) VRT_COUNT("op.find.among-duplicates");
        }
        if (is_rb) VRT_MAX("max.rb.cmp-per-find", cmp_calls);
        VRT_COUNT("op.find");
        return 1;
    case K_ERASE: {
        struct eclass ec;
        key = val - 1;
        if (key > nkeys) return 0;
        probe->key = key;
        vrt_state(classify_erase(t, key, &ec));
        VRT_OP2(is_rb ? "rbtree.erase" : "bintree.erase", "t%ld k%ld", t, key);
        r = t_erase(t, probe);
        if (cnt[t][key + 1] == 0) {
            VRT_CHECK(r == NULL, TK("erase.phantom"), "erase(k%d) returned %p, no held element has that key", key, (void *)r);
            VRT_COUNT("op.erase.absent");
        } else {
            VRT_CHECK(r != NULL, TK("erase.missed"), "erase(k%d) returned NULL, %d held elements have that key", key, cnt[t][key + 1]);
            VRT_CHECK(is_elem(r) && HELD(r, t), TK("erase.not-held"), "erase(k%d) returned a pointer that is not a held element", key);
            VRT_CHECK(r->key == key, TK("erase.wrong-key"), "erase(k%d) returned e%d with key %d", key, r->id, r->key);
            if (cnt[t][key + 1] > 1) VRT_COUNT("op.erase.among-duplicates");
            if (r == ec.victim) ecls_commit(&ec); else VRT_COUNT("erase.class-not-predicted");
            model_del(t, r);
            recycle(r, cls[t]);
            VRT_COUNT("op.erase");
        }
        VRT_CHECK(t_size(t) == (size_t)Mn[t], TK("erase.size"), "size %zu after erase, %d held", t_size(t), Mn[t]);
        break;
    }
    case K_CLEAR:
        vrt_state(Mn[t] == 0 ? "empty" : "nonempty");
        VRT_OP1(is_rb ? "rbtree.clear" : "bintree.clear", "t%ld", t);
        clear_tree = t; clear_seen = 0;
        if (vrt_case_tick() & 1) {
            if (is_rb) cstl_rbtree_clear(RT[t], clear_cb, &clear_seen); else cstl_bintree_clear(BT[t], clear_cb, &clear_seen);
        } else {
            /* every second clear runs while the allocator refuses everything: clear has no way to fail */
            VRT_NOMEM(if (is_rb) cstl_rbtree_clear(RT[t], clear_cb, &clear_seen); else cstl_bintree_clear(BT[t], clear_cb, &clear_seen));
        }
        VRT_CHECK(clear_seen == Mn[t], TK("clear.count"), "clear handed over %d of %d elements", clear_seen, Mn[t]);
        Mn[t] = 0;
        VRT_CHECK(t_size(t) == 0, TK("clear.size"), "size %zu after clear", t_size(t));
        VRT_COUNT("op.clear");
        break;
    case K_SWAP: {
        static struct elem *tmp[MAXE];
        static int tcnt[MAXKEY + 2];
        int tn;
        if (ntrees < 2 || t != 0) return 0;
        vrt_state(Mn[0] == 0 || Mn[1] == 0 ? "one-empty" : "both");
        VRT_OP0(is_rb ? "rbtree.swap" : "bintree.swap", "t0 <-> t1");
        if (is_rb) cstl_rbtree_swap(RT[0], RT[1]); else cstl_bintree_swap(BT[0], BT[1]);
        tn = Mn[0];
        memcpy(tmp, M[0], tn * sizeof(tmp[0]));
        memcpy(M[0], M[1], Mn[1] * sizeof(tmp[0]));
        memcpy(M[1], tmp, tn * sizeof(tmp[0]));
        Mn[0] = Mn[1]; Mn[1] = tn;
        memcpy(tcnt, cnt[0], (nkeys + 2) * sizeof(tcnt[0]));
        memcpy(cnt[0], cnt[1], (nkeys + 2) * sizeof(tcnt[0]));
        memcpy(cnt[1], tcnt, (nkeys + 2) * sizeof(tcnt[0]));
        /* the tree objects exchanged everything, including the node offset they link through */
        if (cls[0] != cls[1]) { const int c = cls[0]; cls[0] = cls[1]; cls[1] = c; VRT_COUNT("op.swap.different-offsets"); }
        for (i = 0; i < Mn[0]; i++) { M[0][i]->where[cls[0]] = 0; M[0][i]->midx[cls[0]] = i; }
        for (i = 0; i < Mn[1]; i++) { M[1][i]->where[cls[1]] = 1; M[1][i]->midx[cls[1]] = i; }
        VRT_COUNT("op.swap");
        break;
    }
    case K_FOREACH:
        /* every second traversal of a history has a visitor that makes read-only calls itself (traversals are C01's) */
        salt = tick_hash();
        if (mode != MODE_RB && (salt & 1)) do_foreach_reent(t, flag, val - 1, stop_value(val - 1), salt >> 1, 1 + (int)((salt >> 20) % 3));
        else do_foreach(t, flag, val - 1, stop_value(val - 1));
        VRT_COUNT("op.foreach");
        return 1;
    default:
        return 0;
    }
    if (audit) audit_all();
    return 1;
}

/* memcheck pass: valgrind only reports at exit, so ask it after every operation (no-op outside valgrind) */
static void memcheck_poll(void)
{
#ifdef HAVE_MEMCHECK_H
    static unsigned long seen;
    if (RUNNING_ON_VALGRIND) {
        const unsigned long n = VALGRIND_COUNT_ERRORS;
        if (n > seen) {
            const unsigned long d = n - seen;
            seen = n;
            vrt_fail(TK("memcheck.error"), "valgrind memcheck reported %lu error(s) during this operation (see the worker log)", d);
        }
        VRT_COUNT("memcheck.polls");
    }
#endif
}
static int st_apply_inner(uint32_t op, int audit);
static int st_apply(uint32_t op, int audit)
{
    const int r = st_apply_inner(op, audit);
    if (mc_mode) memcheck_poll();
    return r;
}

/* ---- signature: shape + key per node (+ colour) ---- */
static int sig_budget, sig_cls;
static uint64_t sig_node(const struct cstl_bintree_node *n)
{
    uint64_t h;
    if (n == NULL || sig_budget-- <= 0) return 0x9e37;
    h = vrt_mix(0x51, (uint64_t)(elem_of(n, sig_cls)->key + 2));
    if (is_rb) h = vrt_mix(h, 3 + (uint64_t)col(n));
    h = vrt_mix(h, sig_node(n->l));
    h = vrt_mix(h, sig_node(n->r));
    return h;
}
static uint64_t st_sig(void)
{
    uint64_t h = 0x7ee + is_rb;
    int t;
    for (t = 0; t < ntrees; t++) {
        sig_budget = Mn[t] + 1; sig_cls = cls[t];
        h = vrt_mix(h, 0xfff0 + Mn[t] + (cls[t] << 16));
        h = vrt_mix(h, sig_node(bt_of(t)->root));
    }
    if (mixed) {
        /* which keys are held by both trees through one element (decides which inserts are possible) */
        uint64_t both = 0;
        int i;
        for (i = 0; i < npool; i++)
            if (pool[i]->where[0] >= 0 && pool[i]->where[1] >= 0) both += vrt_mix(0xb07, (uint64_t)pool[i]->key + 1);
        h = vrt_mix(h, both);
    }
    return h;
}
static int st_nontrivial(void)
{
    int t, n = 0;
    for (t = 0; t < ntrees; t++) n += Mn[t];
    return n >= 2;
}

/* ---- probes, run once on a replica of every newly discovered state ---- */
/* observe: every find of the scope and every traversal with every possible stopping callback */
static void probe_observe(void)
{
    int t, k, rev, s, total;
    for (t = 0; t < ntrees; t++) {
        for (k = -1; k <= nkeys; k++) {
            st_apply(OP(K_FIND, t, 0, k + 1), 0);
            st_apply(OP(K_FIND, t, 1, k + 1), 0);
        }
        for (rev = 0; rev < 2; rev++) {
            total = do_foreach(t, rev, -1, 0);
            for (s = 0; s < total; s++) do_foreach(t, rev, s, stop_value(s));
            /* a stop index beyond the last callback: the run must complete and return 0 */
            do_foreach(t, rev, total, stop_value(total));
            /* the visitor looks at the tree(s) itself, at callback indices and with calls that move on from state to state */
            if (mode == MODE_ORDER && total > 0) {
                const unsigned salt = tick_hash();
                do_foreach_reent(t, rev, -1, 0, salt, 2);
                if ((salt & 0x30000) == 0) { s = (int)((salt >> 18) % (unsigned)total); do_foreach_reent(t, rev, s, stop_value(s), salt >> 3, 1); }
            }
        }
    }
    VRT_COUNT("probe.observe");
}
/* C15: clear the state, then fill/drain the same object again under the model */
static void probe_clear(void)
{
    int t;
    for (t = 0; t < ntrees; t++) st_apply(OP(K_CLEAR, t, 0, 0), 1);
    for (t = 0; t < ntrees; t++) {
        st_apply(OP(K_INSERT, t, 1, 0), 1);              /* hinted into the empty tree (NULL hint) */
        st_apply(OP(K_INSERT, t, 0, nkeys - 1), 1);
        st_apply(OP(K_INSERT, t, 0, 0), 1);              /* duplicate */
        st_apply(OP(K_INSERT, t, 1, 1 % nkeys), 1);      /* hinted when that key is still absent */
        st_apply(OP(K_FIND, t, 1, 1), 1);
        st_apply(OP(K_ERASE, t, 0, 1), 1);
        st_apply(OP(K_ERASE, t, 0, nkeys), 1);
        st_apply(OP(K_INSERT, t, 0, nkeys - 1), 1);
        st_apply(OP(K_CLEAR, t, 0, 0), 1);
        st_apply(OP(K_CLEAR, t, 0, 0), 1);               /* clear of an empty tree */
        st_apply(OP(K_INSERT, t, 1, 0), 1);
    }
    for (t = 0; t < ntrees; t++) st_apply(OP(K_CLEAR, t, 0, 0), 1);
    VRT_COUNT("probe.clear-then-reuse");
}
static void st_probe(int pi)
{
    if (mode == MODE_CLEAR) { if (pi == 0) probe_clear(); else probe_observe(); }
    else probe_observe();
}

static struct vex model = { st_create, st_destroy, st_apply, st_sig, st_nontrivial, 0, st_probe };

/* ---- closure scopes ---- */
struct cscope { int rb, nt, nk, np; uint64_t max_states; int max_depth; int mixed; };
/* measured state counts (closure reached in all of them) are in the evidence as closure.states.<scope> */
static const struct cscope order_quick[] = {
    { 0, 1, 5, 7, 400000, 100 }, { 1, 1, 5, 7, 400000, 100 },   /* ~13k / ~9k states */
    { 0, 1, 4, 8, 400000, 100 }, { 1, 1, 4, 8, 400000, 100 },
    { 0, 1, 6, 6, 400000, 100 }, { 1, 1, 6, 6, 400000, 100 },   /* every shape of <= 6 distinct keys */
    { 0, 1, 3, 10, 400000, 100 }, { 1, 1, 3, 10, 400000, 100 }, /* long runs of equal keys */
    { 0, 1, 2, 12, 400000, 100 }, { 1, 1, 2, 12, 400000, 100 },
    { 0, 2, 3, 6, 400000, 100 }, { 1, 2, 3, 6, 400000, 100 },   /* two trees: swap */
    { 0, 2, 4, 5, 400000, 100 }, { 1, 2, 4, 5, 400000, 100 },
    { 0, 2, 3, 4, 400000, 100, 1 }, { 1, 2, 3, 4, 400000, 100, 1 },     /* two trees linking through different nodes */
    { 0, 1, 5, 8, 400000, 100 }, { 1, 1, 5, 8, 400000, 100 },           /* ~32k / ~21k states */
    { 0, 1, 4, 9, 400000, 100 }, { 1, 1, 4, 9, 400000, 100 },
    { 0, 2, 3, 7, 400000, 100 }, { 1, 2, 3, 7, 400000, 100 },
};
static const struct cscope order_thorough[] = {
    { 0, 1, 7, 7, 4000000, 200 }, { 1, 1, 7, 7, 4000000, 200 }, /* ~109k / ~52k states */
    { 0, 1, 6, 8, 4000000, 200 }, { 1, 1, 6, 8, 4000000, 200 }, /* ~115k / ~57k */
    { 0, 1, 5, 8, 4000000, 200 }, { 1, 1, 5, 8, 4000000, 200 },
    { 0, 1, 4, 9, 4000000, 200 }, { 1, 1, 4, 9, 4000000, 200 },
    { 0, 1, 3, 11, 4000000, 200 }, { 1, 1, 3, 11, 4000000, 200 },
    { 0, 1, 2, 14, 4000000, 200 }, { 1, 1, 2, 14, 4000000, 200 },
    { 0, 1, 1, 16, 4000000, 200 }, { 1, 1, 1, 20, 4000000, 200 },
    { 0, 2, 3, 7, 4000000, 200 }, { 1, 2, 3, 7, 4000000, 200 },
    { 0, 2, 4, 6, 4000000, 200 }, { 1, 2, 4, 6, 4000000, 200 },
    { 0, 2, 5, 5, 4000000, 200 }, { 1, 2, 5, 5, 4000000, 200 },
    { 0, 2, 3, 5, 4000000, 200, 1 }, { 1, 2, 3, 5, 4000000, 200, 1 },
    { 0, 2, 4, 4, 4000000, 200, 1 }, { 1, 2, 4, 4, 4000000, 200, 1 },
};
static const struct cscope rb_quick[] = {
    { 1, 1, 6, 7, 400000, 100 },        /* ~23k (shape, key, colour) states */
    { 1, 1, 5, 8, 400000, 100 },        /* ~21k */
    { 1, 1, 4, 9, 400000, 100 },        /* ~12k */
    { 1, 1, 3, 11, 400000, 100 },
    { 1, 1, 2, 14, 400000, 100 },
    { 1, 1, 1, 20, 400000, 100 },
    { 1, 1, 7, 6, 400000, 100 },
    { 1, 2, 3, 4, 400000, 100, 1 },     /* two trees linking through different nodes: swap must carry `off` */
    { 1, 1, 5, 9, 400000, 100 },        /* ~43k */
    { 1, 1, 4, 10, 400000, 100 },       /* ~29k */
};
static const struct cscope rb_thorough[] = {
    { 1, 1, 8, 8, 4000000, 200 },       /* ~310k */
    { 1, 1, 9, 7, 4000000, 200 },       /* ~203k */
    { 1, 1, 7, 8, 4000000, 200 },       /* ~140k */
    { 1, 1, 6, 9, 4000000, 200 },       /* ~127k */
    { 1, 1, 5, 10, 4000000, 200 },      /* ~117k */
    { 1, 1, 4, 11, 4000000, 200 },      /* ~60k */
    { 1, 1, 3, 13, 4000000, 200 },
    { 1, 1, 2, 16, 4000000, 200 },
    { 1, 1, 1, 24, 4000000, 200 },
    { 1, 2, 3, 5, 4000000, 200, 1 },
    { 1, 2, 4, 4, 4000000, 200, 1 },
};
static const struct cscope clear_quick[] = {
    { 0, 1, 5, 7, 400000, 100 }, { 1, 1, 5, 7, 400000, 100 },
    { 0, 1, 6, 6, 400000, 100 }, { 1, 1, 6, 6, 400000, 100 },
    { 0, 1, 3, 9, 400000, 100 }, { 1, 1, 3, 9, 400000, 100 },
    { 0, 2, 3, 5, 400000, 100 }, { 1, 2, 3, 5, 400000, 100 },
    { 0, 2, 3, 4, 400000, 100, 1 }, { 1, 2, 3, 4, 400000, 100, 1 },
};
static const struct cscope clear_thorough[] = {
    { 0, 1, 7, 7, 4000000, 200 }, { 1, 1, 7, 7, 4000000, 200 },
    { 0, 1, 5, 8, 4000000, 200 }, { 1, 1, 6, 8, 4000000, 200 },
    { 0, 1, 3, 11, 4000000, 200 }, { 1, 1, 3, 11, 4000000, 200 },
    { 0, 2, 3, 6, 4000000, 200 }, { 1, 2, 3, 6, 4000000, 200 },
    { 0, 2, 4, 5, 4000000, 200 }, { 1, 2, 4, 5, 4000000, 200 },
    { 0, 2, 3, 5, 4000000, 200, 1 }, { 1, 2, 3, 5, 4000000, 200, 1 },
};
static const struct cscope *scopes;
static int nscopes;

static int build_alphabet(const struct cscope *s, uint32_t *al)
{
    int n = 0, t, k;
    for (t = 0; t < s->nt; t++) {
        for (k = 0; k < s->nk; k++) {
            al[n++] = OP(K_INSERT, t, 0, k);
            al[n++] = OP(K_INSERT, t, 1, k);
            al[n++] = OP(K_ERASE, t, 0, k + 1);
        }
        if (mode != MODE_RB) al[n++] = OP(K_CLEAR, t, 0, 0);
    }
    if (s->nt > 1) al[n++] = OP(K_SWAP, 0, 0, 0);
    return n;
}

static void run_closure(int ci)
{
    const struct cscope *s = &scopes[ci];
    uint32_t al[64];
    int n = build_alphabet(s, al);
    struct vex_result r;
    vrt_case_note("closure %s trees=%d%s keys=%d pool=%d alphabet=%d%s", s->rb ? "rbtree" : "bintree", s->nt,
                  s->mixed ? "(different node offsets)" : "", s->nk, s->np, n,
                  mode == MODE_CLEAR ? " +clear probe in every state" : mode == MODE_ORDER ? " +find/foreach sweep in every state" : "");
    model.nprobes = mode == MODE_RB ? 0 : 1;
    cmp_scale = 1 + 1000 * (ci & 1);
    in_closure = 1;
    vex_closure(&model, SCOPE(s->rb, s->nt, s->nk, s->np) | (s->mixed ? SCOPE_MIXED : 0), al, n, s->max_states, s->max_depth, &r);
    VRT_COUNT_N("closure.states", r.states);
    VRT_COUNT_N("closure.transitions", r.transitions);
    VRT_COUNT_N("closure.replayed-ops", r.applied);
    VRT_COUNT_N("closure.probes", r.probes);
    VRT_MAX("max.closure.depth", r.maxdepth);
    if (s->rb) VRT_COUNT_N("closure.states.rbtree", r.states); else VRT_COUNT_N("closure.states.bintree", r.states);
    if (r.closed) VRT_COUNT("closure.scopes-closed"); else VRT_COUNT("closure.scopes-capped");
    {
        char nm[64];
        snprintf(nm, sizeof(nm), "closure.states.%s.trees%d%s.keys%d.pool%d", s->rb ? "rbtree" : "bintree", s->nt,
                 s->mixed ? "-two-offsets" : "", s->nk, s->np);
        vrt_count_dyn(nm, r.states);
    }
}

/* ---- random histories ---- */
enum { PH_MIXED, PH_FILL_ASC, PH_FILL_DESC, PH_FILL_ORGAN, PH_FILL_RANDOM,
       PH_DRAIN_ALT, PH_DRAIN_ASC, PH_DRAIN_DESC, PH_DRAIN_RANDOM, PH_N };
static const char *const phase_ctr[PH_N] = {
    "phase.mixed", "phase.fill-ascending", "phase.fill-descending", "phase.fill-organ-pipe", "phase.fill-random",
    "phase.drain-alternating", "phase.drain-ascending", "phase.drain-descending", "phase.drain-random"
};
static int pick(vrt_rng *g, const int *v, int n) { return v[vrt_below(g, n)]; }

static void run_random(uint64_t idx)
{
    static const int keys_order[] = { 1, 2, 2, 3, 3, 4, 8, 16, 64 };
    static const int keys_rb[] = { 1, 2, 3, 4, 8, 16, 64, 256, 4096 };
    vrt_rng g;
    int rb, nt, nk, np, nops, i, phase = PH_MIXED, phase_left = 0, seq = 0, lo = 0, hi = 0, every, mx;
    vrt_rng_seed(&g, vrt_seed, 0xC01000 + idx);
    rb = mode == MODE_RB ? 1 : (int)(idx & 1);
    nt = vrt_chance(&g, 1, 5) ? 2 : 1;
    mx = nt == 2 && vrt_chance(&g, 1, 2);       /* the two trees link through different nodes */
    if (mode == MODE_RB) {
        const int c = vrt_below(&g, 8);
        np = c < 3 ? 8 + vrt_below(&g, 56) : c < 5 ? 64 + vrt_below(&g, 193) : c < 7 ? 257 + vrt_below(&g, 768) : 2048 + vrt_below(&g, 2049);
        nk = pick(&g, keys_rb, 9);
        nops = np <= 256 ? 2500 : 3 * np + 2000;
        if (vrt_thorough) nops *= 2;
        every = np <= 256 ? 1 : 8;
    } else {
        const int c = vrt_below(&g, 3);
        np = c == 0 ? 3 + vrt_below(&g, 14) : c == 1 ? 17 + vrt_below(&g, 48) : 65 + vrt_below(&g, 192);
        nk = pick(&g, keys_order, 9);
        nops = vrt_thorough ? 6000 : 2000;
        every = np <= 16 ? 1 : 16;
    }
    if (mc_mode) { if (np > 96) np = 32 + np % 64; nops = 800; every = np <= 16 ? 1 : 16; }
    if (nk > np) nk = np;
    cmp_scale = vrt_chance(&g, 1, 2) ? 1 : 1 + (int)vrt_below(&g, 100000);
    vrt_case_note("random %s trees=%d%s keys=%d pool=%d ops=%d audit-every=%d", rb ? "rbtree" : "bintree", nt,
                  mx ? "(different node offsets)" : "", nk, np, nops, every);
    st_create(SCOPE(rb, nt, nk, np) | (mx ? SCOPE_MIXED : 0));
    if (mx) VRT_COUNT("random.histories.two-offsets");
    for (i = 0; i < nops; i++) {
        const int t = nt == 2 && vrt_chance(&g, 1, 3) ? 1 : 0;
        /* rb mode: the rules are checked after every call while the trees hold <= 256 elements, every 8th call above */
        const int audit = (i % every) == 0 || (mode == MODE_RB && Mn[0] + (nt > 1 ? Mn[1] : 0) <= 256);
        int r = vrt_below(&g, 100), key, done = 0;
        uint32_t op;
        if (phase_left-- <= 0) {
            if (phase != PH_MIXED) audit_all();
            phase = vrt_chance(&g, 1, 3) ? PH_MIXED : 1 + (int)vrt_below(&g, PH_N - 1);
            phase_left = np / 2 + (int)vrt_below(&g, np + np / 2 + 8);
            seq = 0; lo = 0; hi = nk - 1;
            vrt_count_dyn(phase_ctr[phase], 1);
        }
        if (phase >= PH_FILL_ASC && phase <= PH_FILL_RANDOM && r < 80) {
            switch (phase) {
            case PH_FILL_ASC: key = (int)((long)seq * nk / np); break;
            case PH_FILL_DESC: key = nk - 1 - (int)((long)seq * nk / np); break;
            case PH_FILL_ORGAN:
                if (lo > hi) { lo = 0; hi = nk - 1; }
                key = (seq & 1) ? hi-- : lo++;
                break;
            default: key = vrt_below(&g, nk); break;
            }
            seq++;
            if (key < 0) key = 0;
            if (key >= nk) key = nk - 1;
            op = OP(K_INSERT, t, vrt_chance(&g, 1, 2), key);
            done = st_apply(op, audit);
            if (!done) { phase_left = 0; continue; }    /* no element left for this tree: next phase */
        } else if (phase >= PH_DRAIN_ALT && r < 80) {
            if (Mn[t] == 0) { phase_left = 0; continue; }
            switch (phase) {
            case PH_DRAIN_ALT:
                /* even keys first, then odd keys; one element per call */
                for (key = -1; seq < 2 * nk; seq++) {
                    const int k2 = seq < nk ? seq : seq - nk;
                    if ((k2 & 1) == (seq < nk ? 0 : 1) && cnt[t][k2 + 1] > 0) { key = k2; break; }
                }
                if (key < 0) { seq = 0; key = M[t][vrt_below(&g, Mn[t])]->key; }
                break;
            case PH_DRAIN_ASC:
                while (lo < nk && cnt[t][lo + 1] == 0) lo++;
                key = lo < nk ? lo : M[t][0]->key;
                if (lo >= nk) lo = 0;
                break;
            case PH_DRAIN_DESC:
                while (hi >= 0 && cnt[t][hi + 1] == 0) hi--;
                key = hi >= 0 ? hi : M[t][0]->key;
                if (hi < 0) hi = nk - 1;
                break;
            default: key = M[t][vrt_below(&g, Mn[t])]->key; break;
            }
            done = st_apply(OP(K_ERASE, t, 0, key + 1), audit);
        }
        if (done) goto next;
        /* mixed traffic (also the 20% interleaved into fill/drain phases) */
        r = vrt_below(&g, 100);
        if (r < 32) {
            key = vrt_below(&g, nk);
            op = OP(K_INSERT, t, vrt_chance(&g, 1, 2), key);
        } else if (r < 60) {
            key = (Mn[t] > 0 && vrt_chance(&g, 3, 4)) ? M[t][vrt_below(&g, Mn[t])]->key : (int)vrt_below(&g, nk + 2) - 1;
            op = OP(K_ERASE, t, 0, key + 1);
        } else if (r < 80) {
            key = (Mn[t] > 0 && vrt_chance(&g, 1, 2)) ? M[t][vrt_below(&g, Mn[t])]->key : (int)vrt_below(&g, nk + 2) - 1;
            op = OP(K_FIND, t, vrt_chance(&g, 1, 2), key + 1);
        } else if (r < 92) {
            /* stop at a random callback index (there are at most 3 per element), or never */
            const int lim = Mn[t] > 40 && vrt_chance(&g, 1, 2) ? 40 : 3 * Mn[t];
            const int stop = (lim > 0 && vrt_chance(&g, 3, 4)) ? (int)vrt_below(&g, lim) : -1;
            op = OP(K_FOREACH, t, vrt_chance(&g, 1, 2), stop + 1);
            if (mode == MODE_RB) op = OP(K_FIND, t, 0, vrt_below(&g, nk + 2));      /* traversals belong to C01 */
        } else if (r < 98 && nt == 2) {
            op = OP(K_SWAP, 0, 0, 0);
        } else if (r == 99 && vrt_chance(&g, 1, 4)) {
            op = OP(K_CLEAR, t, 0, 0);
        } else {
            op = OP(K_FIND, t, 1, vrt_below(&g, nk + 2));
        }
        st_apply(op, audit);
next:
        /* coverage accounting only: sample the state signature at (a subset of) the audit points */
        if (audit && ((i & 7) == 0 || (mode != MODE_RB && every > 1)) && Mn[0] + (nt > 1 ? Mn[1] : 0) >= 2) vrt_sig(0, st_sig());
        VRT_MAX("max.random.tree-size", Mn[t]);
    }
    audit_all();
    for (i = 0; i < nt; i++) st_apply(OP(K_CLEAR, i, 0, 0), 1);
    st_destroy();
    VRT_COUNT("random.histories");
    if (rb) VRT_COUNT("random.histories.rbtree"); else VRT_COUNT("random.histories.bintree");
}

/* ---- deep degenerate plain trees ----
 * A plain binary tree filled in (nearly) sorted order is as deep as it is large.  4200-6000 keys in ascending or
 * descending order (optionally in runs of equal keys) make one long spine; zig-zag keys inserted afterwards give
 * nodes far down the spine (and the deep end) children on the other side, grandchildren included.  Built with the
 * documented find -> par -> insert protocol on every other insert.  Mode order: audits, early-stop traversals,
 * finds and erases down there; mode clear: clear with the poisoning/freeing callback, then re-use. */
static void run_deep(uint64_t di)
{
    vrt_rng g;
    /* comb: EVERY spine node additionally gets a child on the other side, so a path of more than a thousand nodes with two
     * children each exists (what a traversal or clear that keeps its pending subtrees in a fixed or growable table meets) */
    const int desc = (int)(di & 1), comb = (int)((di >> 2) & 1), dup = comb ? 0 : (int)((di >> 1) & 1);
    int n, i, nz, base = 400;
    vrt_rng_seed(&g, vrt_seed, 0xDEE9000 + di);
    n = comb ? 1100 + (int)vrt_below(&g, 600) : 4200 + (int)vrt_below(&g, 1800);
    cmp_scale = 1;
    vrt_case_note("deep bintree %s%s%s spine=%d", desc ? "descending" : "ascending", dup ? " with-equal-keys" : "", comb ? " comb" : "", n);
    st_create_ex(0, 1, base + 4 * n + 400, (comb ? 2 * n : n) + 80, 0);
    /* equal keys always go right: runs of equal keys keep an ascending spine a spine; on the descending (left)
     * spine duplicates of deep spine keys are added afterwards instead */
#define DKEY(i) (base + 4 * ((dup && !desc) ? (i) / 4 * 4 : (i)))
    for (i = 0; i < n; i++) {
        const int k = desc ? DKEY(n - 1 - i) : DKEY(i);
        if (!st_apply(OP(K_INSERT, 0, i & 1, k), 0)) vrt_fail("harness.deep.insert", "insert not applicable");
    }
    nz = 0;
    if (comb) {
        for (i = 0; i < n; i++) {
            const int k = desc ? DKEY(n - 1 - i) + 1 : DKEY(i) - 1;
            if (!st_apply(OP(K_INSERT, 0, i & 1, k), 0)) vrt_fail("harness.deep.insert", "comb insert not applicable");
        }
        VRT_COUNT("deep.comb-trees");
    }
    /* zig-zags: at ~14 nodes below depth 4100 and at the deep end */
    if (dup && desc)
        for (i = 0; i < 24; i++) nz += st_apply(OP(K_INSERT, 0, i & 1, DKEY(n - 1 - (4100 + (int)vrt_below(&g, n - 4100)))), 0);
    for (i = 0; i < (comb ? 0 : 14); i++) {
        const int at = 4100 + (int)vrt_below(&g, n - 4100);      /* spine position (= depth) */
        const int k = desc ? DKEY(n - 1 - at) : DKEY(at);
        if (desc) {
            /* right child of the spine node, then that child's left and right children */
            nz += st_apply(OP(K_INSERT, 0, i & 1, k + 2), 0);
            nz += st_apply(OP(K_INSERT, 0, 1, k + 1), 0);
            nz += st_apply(OP(K_INSERT, 0, 0, k + 3), 0);
        } else {
            /* the next spine node gets a left child, which gets a left and a right child */
            nz += st_apply(OP(K_INSERT, 0, i & 1, k + 2), 0);
            nz += st_apply(OP(K_INSERT, 0, 1, k + 1), 0);
            nz += st_apply(OP(K_INSERT, 0, 0, k + 3), 0);
        }
    }
    if (desc) {
        static const int tail[] = { 100, 250, 175, 140, 200, 190 };
        for (i = 0; i < 6; i++) nz += st_apply(OP(K_INSERT, 0, i & 1, tail[i]), 0);
    } else {
        static const int tail[] = { 300, 150, 225, 260, 200, 210 };
        for (i = 0; i < 6; i++) nz += st_apply(OP(K_INSERT, 0, i & 1, base + 4 * n + tail[i]), 0);
    }
#undef DKEY
    VRT_COUNT_N("deep.zigzag-nodes", nz);
    audit_all();
    {
        struct wk w;
        walk_tree(0, 0, &w);
        VRT_MAX("max.deep.depth", w.maxd);
        if (w.maxd > 4096) VRT_COUNT("deep.trees-deeper-than-4096");
    }
    vrt_sig(0, vrt_mix(st_sig(), di));
    /* traffic at depth */
    for (i = 0; i < (mode == MODE_CLEAR ? 6 : 40); i++) {
        const int r = vrt_below(&g, 10);
        const int k = M[0][vrt_below(&g, Mn[0])]->key;
        if (r < 4) st_apply(OP(K_ERASE, 0, 0, k + 1), (i & 3) == 0);
        else if (r < 6) st_apply(OP(K_FIND, 0, r & 1, k + 1), 0);
        else if (r < 8) st_apply(OP(K_FOREACH, 0, r & 1, 1 + vrt_below(&g, 3 * Mn[0])), 0);
        else st_apply(OP(K_INSERT, 0, r & 1, k), (i & 3) == 0);
    }
    audit_all();
    probe_clear();
    st_destroy();
    VRT_COUNT("deep.cases");
}

/* mode clear: one large random state, cleared, re-used */
static void run_random_clear(uint64_t idx)
{
    static const int keys[] = { 1, 2, 3, 16, 256, 4096 };
    vrt_rng g;
    int rb, nk, np, n, i, t;
    vrt_rng_seed(&g, vrt_seed, 0xC15000 + idx);
    rb = (int)(idx & 1);
    np = rb ? 64 + vrt_below(&g, 4000) : 32 + vrt_below(&g, 1000);
    if (mc_mode) np = 16 + np % 200;
    nk = pick(&g, keys, 6);
    if (nk > np) nk = np;
    cmp_scale = 1;
    if (idx & 2) np = 16 + np % 500;
    vrt_case_note("random-clear %s keys=%d pool=%d%s", rb ? "rbtree" : "bintree", nk, np, (idx & 2) ? " (different node offsets)" : "");
    st_create(SCOPE(rb, 2, nk, np) | ((idx & 2) ? SCOPE_MIXED : 0));
    n = np / 2 + vrt_below(&g, np / 2);
    for (i = 0; i < n; i++) {
        const int key = vrt_below(&g, nk);
        t = vrt_chance(&g, 1, 8);
        st_apply(OP(K_INSERT, t, vrt_chance(&g, 1, 2), key), 0);
        if (vrt_chance(&g, 1, 5) && Mn[t] > 0) st_apply(OP(K_ERASE, t, 0, M[t][vrt_below(&g, Mn[t])]->key + 1), 0);
    }
    audit_all();
    VRT_MAX("max.clear.tree-size", Mn[0]);
    vrt_sig(0, vrt_mix(st_sig(), idx));
    if (vrt_chance(&g, 1, 2)) st_apply(OP(K_SWAP, 0, 0, 0), 1);
    probe_clear();
    st_destroy();
    VRT_COUNT("random.clear-large");
}

/* ---- large monotone fills of the red-black tree ----
 * 2^18 + 5000.. (thorough 2^20 + 5000..) distinct keys inserted strictly descending, strictly ascending, alternating
 * from both ends inward, or in long descending runs: the flank that takes every insert gets deeper than 32 nodes
 * (counted), which no random fill of <= 4096 elements reaches.  Every other insert is hinted, every fourth with a hint
 * that is older than the last find.  Checked at every power of two, after the fill, at every power of two of the drain
 * (half of the elements, from the deep end) and at the end -- mode rb: the red-black rules walker, parent links, node
 * count, cstl_rbtree_height and its bound; mode order: size, an order/parent-link/count walker with an explicit stack,
 * finds of held and absent keys, one complete traversal after the fill (FWD) and one after the drain (REV).  Keys are
 * even numbers, so an absent key exists between any two neighbours.  Elements are private to these cases (own
 * comparator and priv), individually allocated, poisoned and freed when erased. */
#define BMAGIC 0xb16e1e57u
struct belem {
    uint32_t magic;
    int key, held;
    uint32_t stamp;
    uint64_t pad0;
    struct cstl_rbtree_node rn;
    uint64_t pad1;
};
struct bframe { const struct cstl_bintree_node *n, *par; int lo, hi; };
static struct belem **BE;               /* by key: even = the monotone fill, odd = in-between keys added after it */
static struct belem *big_probe;
static struct cstl_rbtree *BIGT;
static struct bframe *big_stk;
static int big_n, big_held, big_token, big_deep_flank;
static inline struct belem *belem_of(const struct cstl_bintree_node *n)
{
    return (struct belem *)((char *)n - offsetof(struct belem, rn.n));
}
static int big_member(const struct belem *e)
{
    return e != NULL && e->magic == BMAGIC && e->key >= 0 && e->key < 2 * big_n && BE[e->key] == e && e->held;
}
static int cmp_big(const void *a, const void *b, void *p)
{
    const struct belem *x = a, *y = b;
    VRT_CHECK(p == (void *)&big_token, "rbtree.cmp.priv", "comparison called with wrong priv %p", p);
    VRT_CHECK(x->magic == BMAGIC && y->magic == BMAGIC, "rbtree.cmp.non-element", "comparison called with a non-element");
    return x->key < y->key ? -cmp_scale : x->key > y->key ? cmp_scale : 0;
}
/* mode order: order, parent links, count; explicit stack (C01 says nothing about the depth of the tree) */
static void big_walk_order(void)
{
    const uint32_t stamp = ++stamp_ctr;
    const struct cstl_bintree_node *n = BIGT->t.root, *par = NULL;
    int sp = 0, lo = -1, hi = 2 * big_n, count = 0;
    for (;;) {
        struct belem *e;
        if (n == NULL) {
            if (sp == 0) break;
            sp--; n = big_stk[sp].n; par = big_stk[sp].par; lo = big_stk[sp].lo; hi = big_stk[sp].hi;
        }
        count++;
        VRT_CHECK(count <= big_held, "rbtree.walker.count", "more than %d nodes reachable from the root", big_held);
        e = belem_of(n);
        VRT_CHECK(big_member(e), "rbtree.walker.non-member", "reachable node is not a held element");
        VRT_CHECK(e->stamp != stamp, "rbtree.walker.node-twice", "key %d reachable along two paths", e->key);
        e->stamp = stamp;
        VRT_CHECK(n->p == par, "rbtree.walker.parent-link", "key %d: parent link does not point at its parent", e->key);
        VRT_CHECK(lo < e->key && e->key < hi, "rbtree.walker.bst-order", "key %d outside (%d,%d) demanded by its ancestors", e->key, lo, hi);
        if (n->r != NULL) { big_stk[sp].n = n->r; big_stk[sp].par = n; big_stk[sp].lo = e->key; big_stk[sp].hi = hi; sp++; }
        hi = e->key; par = n; n = n->l;
    }
    VRT_CHECK(count == big_held, "rbtree.walker.count", "%d nodes reachable from the root, %d held", count, big_held);
}
/* mode rb: the rules; a path of more than 200 nodes is beyond 2*log2(n+1) for any n these cases reach */
struct bwk { int count, maxd; uint32_t stamp; };
static int big_walk_rules(const struct cstl_bintree_node *n, const struct cstl_bintree_node *par, int depth, struct bwk *w)
{
    struct belem *e;
    int bl, br, c;
    if (n == NULL) return 0;
    VRT_CHECK(depth <= 200, "rbtree.height.bound", "a path of more than 200 nodes in a tree of %d elements", big_held);
    w->count++;
    VRT_CHECK(w->count <= big_held, "rbtree.rules.count", "more than %d nodes reachable from the root", big_held);
    e = belem_of(n);
    VRT_CHECK(big_member(e), "rbtree.rules.non-member", "reachable node is not a held element");
    VRT_CHECK(e->stamp != w->stamp, "rbtree.rules.node-twice", "key %d reachable along two paths", e->key);
    e->stamp = w->stamp;
    VRT_CHECK(n->p == par, "rbtree.rules.parent-link", "key %d (depth %d): parent link does not point at its parent", e->key, depth);
    if (depth > w->maxd) w->maxd = depth;
    c = col(n);
    VRT_CHECK(c == RED || c == BLACK, "rbtree.rules.colour-invalid", "key %d colour field %d", e->key, c);
    if (c == RED) {
        VRT_CHECK(n->l == NULL || col(n->l) != RED, "rbtree.rules.red-red", "red key %d has a red left child", e->key);
        VRT_CHECK(n->r == NULL || col(n->r) != RED, "rbtree.rules.red-red", "red key %d has a red right child", e->key);
    }
    bl = big_walk_rules(n->l, n, depth + 1, w);
    br = big_walk_rules(n->r, n, depth + 1, w);
    VRT_CHECK(bl == br, "rbtree.rules.black-height", "key %d (depth %d): %d blacks down to a missing child on the left, %d on the right",
              e->key, depth, bl, br);
    return bl + (c == BLACK);
}
static struct belem *big_find(int key, int with_par)
{
    const void *par = (const void *)&big_token;
    const struct belem *r;
    const int held = key >= 0 && key < 2 * big_n && BE[key] != NULL && BE[key]->held;
    big_probe->key = key;
    OP_BEGIN("find");
    vrt_state(held ? "present" : "absent");
    VRT_OP2("rbtree.find", "k%ld par%ld (big)", key, with_par);
    r = cstl_rbtree_find(BIGT, big_probe, with_par ? &par : NULL);
    if (!held) VRT_CHECK(r == NULL, "rbtree.find.phantom", "find(k%d) returned %p, no held element has that key", key, (const void *)r);
    else {
        VRT_CHECK(r != NULL, "rbtree.find.missed", "find(k%d) returned NULL, the key is held", key);
        VRT_CHECK(big_member(r), "rbtree.find.not-held", "find(k%d) returned a pointer that is not a held element", key);
        VRT_CHECK(r->key == key, "rbtree.find.wrong-key", "find(k%d) returned an element with key %d", key, r->key);
    }
    if (with_par) {
        VRT_CHECK(par != (const void *)&big_token, "rbtree.find.par-not-written", "find did not store the parent");
        VRT_CHECK(par == NULL || big_member(par), "rbtree.find.par-not-member", "find reported a parent that is not a held element");
    }
    VRT_COUNT("op.find");
    return (struct belem *)par;
}
struct btrav { int rev, npre, nmid, npost, nleaf, last, have; };
static int big_visit(const void *ev, cstl_bintree_visit_order_t ord, void *p)
{
    struct btrav *w = p;
    const struct belem *x = ev;
    VRT_CHECK(big_member(x), "rbtree.foreach.non-member", "traversal visited something that is not a held element");
    if (ord == CSTL_BINTREE_VISIT_ORDER_PRE) w->npre++;
    else if (ord == CSTL_BINTREE_VISIT_ORDER_POST) w->npost++;
    else {
        if (ord == CSTL_BINTREE_VISIT_ORDER_MID) w->nmid++; else w->nleaf++;
        if (w->have) {
            if (w->rev) VRT_CHECK(x->key < w->last, "rbtree.foreach.rev.order", "REV traversal presents key %d after key %d", x->key, w->last);
            else VRT_CHECK(x->key > w->last, "rbtree.foreach.fwd.order", "FWD traversal presents key %d after key %d", x->key, w->last);
        }
        w->last = x->key; w->have = 1;
    }
    return 0;
}
static void big_traverse(int rev)
{
    struct btrav w;
    int r;
    memset(&w, 0, sizeof(w));
    w.rev = rev;
    OP_BEGIN("foreach");
    vrt_state("full");
    VRT_OP1("rbtree.foreach", "dir%ld (big)", rev);
    r = cstl_rbtree_foreach(BIGT, big_visit, &w, rev ? CSTL_BINTREE_FOREACH_DIR_REV : CSTL_BINTREE_FOREACH_DIR_FWD);
    VRT_CHECK(r == 0, "rbtree.foreach.ret-nonzero", "traversal returned %d although every visit returned 0", r);
    VRT_CHECK(w.nmid + w.nleaf == big_held, "rbtree.foreach.count", "%s traversal presented %d elements (MID+LEAF), %d are held",
              rev ? "REV" : "FWD", w.nmid + w.nleaf, big_held);
    VRT_CHECK(w.npre == w.nmid && w.npost == w.nmid, "rbtree.foreach.bracket", "traversal made %d PRE, %d MID, %d POST visits", w.npre, w.nmid, w.npost);
    if (rev) VRT_COUNT("op.foreach.rev"); else VRT_COUNT("op.foreach.fwd");
}
static void big_check(int lowrank, int highrank)
{
    const struct cstl_bintree_node *n;
    int fl = 0, fr = 0, guard;
    for (n = BIGT->t.root, guard = big_held; n != NULL && guard-- > 0; n = n->l) fl++;
    for (n = BIGT->t.root, guard = big_held; n != NULL && guard-- > 0; n = n->r) fr++;
    VRT_MAX("max.big.flank-depth", fl > fr ? fl : fr);
    if (fl > 32 || fr > 32) big_deep_flank = 1;
    if (mode == MODE_RB) {
        struct bwk w;
        size_t mn = 0, mx = 0;
        const size_t cnt_ = (size_t)big_held;
        memset(&w, 0, sizeof(w));
        w.stamp = ++stamp_ctr;
        if (BIGT->t.root != NULL)
            VRT_CHECK(col(BIGT->t.root) == BLACK, "rbtree.rules.red-root", "root is not black (colour %d)", col(BIGT->t.root));
        big_walk_rules(BIGT->t.root, NULL, 1, &w);
        VRT_CHECK(w.count == big_held, "rbtree.rules.count", "%d nodes reachable from the root, %d held", w.count, big_held);
        VRT_CHECK(cstl_rbtree_size(BIGT) == cnt_, "rbtree.rules.count", "size %zu, %zu held", cstl_rbtree_size(BIGT), cnt_);
        OP_BEGIN("height");
        VRT_OP0("rbtree.height", "(big)");
        cstl_rbtree_height(BIGT, &mn, &mx);
        VRT_CHECK(mx == (size_t)w.maxd, "rbtree.height.max-mismatch",
                  "cstl_rbtree_height max %zu, longest root-to-leaf path walked %d (n=%zu)", mx, w.maxd, cnt_);
        VRT_CHECK(mx < 62 && ((uint64_t)1 << mx) <= (uint64_t)(cnt_ + 1) * (cnt_ + 1), "rbtree.height.bound",
                  "height %zu exceeds 2*log2(n+1) for n=%zu", mx, cnt_);
        VRT_MAX("max.rb.height", mx);
        VRT_MAX("max.rb.size-audited", cnt_);
        VRT_COUNT("audit.rb-rules");
    } else {
        VRT_CHECK(cstl_rbtree_size(BIGT) == (size_t)big_held, "rbtree.size", "size %zu, %d inserted and not removed", cstl_rbtree_size(BIGT), big_held);
        big_walk_order();
        /* the ends of the held range, a key between two held ones, keys below and above everything */
        big_find(2 * lowrank, 0); big_find(2 * highrank, 1);
        big_find(2 * lowrank + 1, 1); big_find(2 * highrank - 1, 0);
        big_find(-1, 1); big_find(2 * big_n, 0);
        big_find(2 * (lowrank + (highrank - lowrank) / 2), 1);      /* held or already erased: the model knows */
        VRT_COUNT("audit.tree");
    }
    VRT_MAX("max.big.size-audited", big_held);
    VRT_COUNT("big.checkpoints");
}
#define BIG_ZIG 16
/* one insert of the big cases: i & 1 hinted, i & 2 with a hint that is not from the last find */
static void big_insert(int key, int i, vrt_rng *g)
{
    struct belem *e = vrt_alloc(sizeof(*e)), *hint = NULL;
    const struct cstl_bintree_node *c;
    int turns = 0, lefts = 0, guard;
    memset(e, 0x5e, sizeof(*e));
    e->magic = BMAGIC; e->key = key; e->held = 0; e->stamp = 0;
    BE[key] = e;
    /* evidence: how long is the way down, and does it turn both ways */
    for (c = BIGT->t.root, guard = 4096; c != NULL && guard-- > 0; turns++) {
        if (key < belem_of(c)->key) { lefts++; c = c->l; } else c = c->r;
    }
    VRT_MAX("max.big.insert-path-turns", turns);
    if (turns > 32) {
        VRT_COUNT("big.insert.path-of-more-than-32-turns");
        if (lefts != 0 && lefts != turns) VRT_COUNT("big.insert.path-of-more-than-32-turns.both-ways");
    }
    if (i & 1) {
        /* documented protocol: the parent reported by find, tree unchanged since */
        hint = big_find(key, 1);
        if (i & 2) {
            /* not the last find: the absent key just above the hint's own (the other side of the same leaf when the
             * hint is the lower neighbour), then a key far away, with and without par */
            if (hint != NULL) big_find(hint->key + ((hint->key & 1) ? 2 : 1), (i >> 2) & 1);
            big_find(2 * (int)vrt_below(g, (uint32_t)big_n) + ((i >> 3) & 1), !((i >> 2) & 1));
            VRT_CHECK(cstl_rbtree_size(BIGT) == (size_t)big_held, "rbtree.size", "size %zu, %d inserted and not removed",
                      cstl_rbtree_size(BIGT), big_held);
            VRT_COUNT("hint.batch");
            VRT_COUNT("hint.batch.key-absent");
        }
        VRT_COUNT("op.insert.hinted");
        VRT_COUNT("op.insert.hinted.key-absent");
    }
    OP_BEGIN("insert");
    vrt_state(big_held ? "nonempty" : "empty");
    VRT_OP3("rbtree.insert", "k%ld hint=%ld (big #%ld)", key, hint ? hint->key : -1, i);
    cstl_rbtree_insert(BIGT, e, hint);
    e->held = 1; big_held++;
    if (hint != NULL && mode != MODE_RB) {
        /* the new element hangs on the correct side of every ancestor */
        for (c = &e->rn.n, guard = 4096; c->p != NULL && guard-- > 0; c = c->p)
            VRT_CHECK(c->p->l == c ? key < belem_of(c->p)->key : c->p->r == c && key > belem_of(c->p)->key,
                      (i & 2) ? "rbtree.insert.old-hint.misplaced" : "rbtree.insert.hinted.misplaced",
                      "key %d inserted under the hint k%d is on the wrong side of ancestor key %d", key, hint->key, belem_of(c->p)->key);
    }
    VRT_COUNT("op.insert");
}
static const char *const big_pat[4] = { "descending", "ascending", "alternating-inward", "descending-runs" };
static void run_big(uint64_t bi)
{
    const int pat = (int)(bi & 3);
    vrt_rng g;
    int n, i, runlen, lo, hi, nerase;
    vrt_rng_seed(&g, vrt_seed, 0xB16000 + bi);
    n = (vrt_thorough ? (1 << 20) : (1 << 18)) + 5000 + (int)vrt_below(&g, 256);
    runlen = 4096 + (int)vrt_below(&g, 8192);
    cmp_scale = vrt_chance(&g, 1, 2) ? 1 : 1 + (int)vrt_below(&g, 100000);
    is_rb = 1; ntrees = 0; npool = 0;
    vrt_case_note("big rbtree fill %s n=%d%s", big_pat[pat], n, pat == 3 ? " (runs of a few thousand)" : "");
    big_n = n; big_held = 0; big_deep_flank = 0;
    BE = vrt_zalloc(2 * (size_t)n * sizeof(BE[0]));
    big_stk = vrt_alloc(((size_t)n + 3 * BIG_ZIG + 2) * sizeof(big_stk[0]));
    big_probe = vrt_alloc(sizeof(*big_probe));
    memset(big_probe, 0x5e, sizeof(*big_probe));
    big_probe->magic = BMAGIC; big_probe->held = 0;
    BIGT = vrt_alloc(sizeof(*BIGT));
    memset(BIGT, 0x5e, sizeof(*BIGT));
    if ((bi + vrt_seed) & 1) cstl_rbtree_init(BIGT, cmp_big, &big_token, offsetof(struct belem, rn));
    else *BIGT = (struct cstl_rbtree)CSTL_RBTREE_INITIALIZER(struct belem, rn, cmp_big, &big_token);
    lo = n; hi = -1;
    for (i = 0; i < n; i++) {
        int rank;
        switch (pat) {
        case 0: rank = n - 1 - i; break;
        case 1: rank = i; break;
        case 2: rank = (i & 1) ? i / 2 : n - 1 - i / 2; break;
        default: {
            const int base = i / runlen * runlen, len = n - base < runlen ? n - base : runlen;
            rank = base + len - 1 - (i - base);
            break;
        }
        }
        big_insert(2 * rank, i, &g);
        if (rank < lo) lo = rank;
        if (rank > hi) hi = rank;
        if ((big_held & (big_held - 1)) == 0) big_check(lo, hi);
    }
    big_check(lo, hi);
    /* in-between (odd) keys below the deepest leaves at both ends and in the middle: paths of more than 32 turns that are
     * not all to the same side */
    for (i = 0; i < 3 * BIG_ZIG; i++) {
        const int j = i / 3;
        const int key = i % 3 == 0 ? 1 + 2 * j : i % 3 == 1 ? 2 * n - 3 - 2 * j : ((n - 1) | 1) + ((j & 1) ? 2 * (j / 2 + 1) : -2 * (j / 2));
        big_insert(key, i, &g);
        VRT_COUNT("big.in-between-inserts");
    }
    big_check(lo, hi);
    if (mode != MODE_RB) big_traverse(0);
    if (big_deep_flank) VRT_COUNT("big.flank-deeper-than-32");
    vrt_sig(0, vrt_mix(vrt_mix(0xb16, (uint64_t)pat), (uint64_t)n));
    /* drain half, starting where the tree is deepest */
    nerase = n / 2;
    for (i = 0; i < nerase; i++) {
        int rank;
        struct belem *e, *r;
        switch (pat) {
        case 0: rank = i; lo = i + 1; break;
        case 1: rank = n - 1 - i; hi = rank - 1; break;
        case 2: rank = (i & 1) ? n / 2 + (i + 1) / 2 : n / 2 - i / 2; break;
        default: rank = 2 * i; if (i == 0) lo = 1; break;
        }
        e = BE[2 * rank];
        big_probe->key = 2 * rank;
        OP_BEGIN("erase");
        vrt_state("present");
        VRT_OP2("rbtree.erase", "k%ld (big drain #%ld)", 2 * rank, i);
        r = cstl_rbtree_erase(BIGT, big_probe);
        VRT_CHECK(r != NULL, "rbtree.erase.missed", "erase(k%d) returned NULL, the key is held", 2 * rank);
        VRT_CHECK(r == e, "rbtree.erase.wrong-element", "erase(k%d) returned a pointer that is not the one element with that key", 2 * rank);
        big_held--;
        BE[2 * rank] = NULL;
        memset(e, 0xa5, sizeof(*e));
        vrt_free(e);
        VRT_CHECK(cstl_rbtree_size(BIGT) == (size_t)big_held, "rbtree.erase.size", "size %zu after erase, %d held", cstl_rbtree_size(BIGT), big_held);
        VRT_COUNT("op.erase");
        if ((i & 1023) == 1023) {
            /* gone is gone */
            OP_BEGIN("erase");
            vrt_state("absent");
            VRT_OP1("rbtree.erase", "k%ld (erased before)", 2 * rank);
            r = cstl_rbtree_erase(BIGT, big_probe);
            VRT_CHECK(r == NULL, "rbtree.erase.phantom", "erase(k%d) returned %p, no held element has that key", 2 * rank, (void *)r);
            VRT_COUNT("op.erase.absent");
        }
        if (((i + 1) & i) == 0) big_check(lo, hi);
    }
    big_check(lo, hi);
    if (mode != MODE_RB) big_traverse(1);
    /* teardown without the library */
    for (i = 0; i < 2 * n; i++) if (BE[i] != NULL) vrt_free(BE[i]);
    vrt_free(BE); BE = NULL;
    vrt_free(big_stk); big_stk = NULL;
    vrt_free(big_probe); big_probe = NULL;
    vrt_free(BIGT); BIGT = NULL;
    VRT_COUNT("big.cases");
    vrt_count_dyn(pat == 0 ? "big.fill.descending" : pat == 1 ? "big.fill.ascending" : pat == 2 ? "big.fill.alternating-inward" :
                  "big.fill.descending-runs", 1);
}

static int ndeep(void);
static int nbig(void);
static uint64_t nrandom(void)
{
    if (mc_mode) return mode == MODE_CLEAR ? 64 : 3000;
    switch (mode) {
    case MODE_RB: return vrt_thorough ? 24000 : 4000;
    case MODE_CLEAR: return vrt_thorough ? 1500 : 96;
    default: return vrt_thorough ? 60000 : 20000;
    }
}
#define NSC(a) ((int)(sizeof(a) / sizeof((a)[0])))
static const struct cscope mc_scopes[] = {
    { 0, 1, 4, 6, 400000, 100 }, { 1, 1, 4, 6, 400000, 100 }, { 0, 2, 2, 4, 400000, 100 }, { 1, 2, 2, 4, 400000, 100 },
};
static void setup_mode(void)
{
    char mbuf[32];
    size_t ml;
    snprintf(mbuf, sizeof(mbuf), "%s", vrt_mode);
    ml = strlen(mbuf);
    mc_mode = ml >= 3 && strcmp(mbuf + ml - 3, "-mc") == 0;
    if (mc_mode) mbuf[ml - 3] = 0;
    if (strcmp(mbuf, "rb") == 0) mode = MODE_RB;
    else if (strcmp(mbuf, "clear") == 0) mode = MODE_CLEAR;
    else mode = MODE_ORDER;
    if (mc_mode) { scopes = mc_scopes; nscopes = NSC(mc_scopes); return; }
    switch (mode) {
    case MODE_RB:
        if (vrt_thorough) { scopes = rb_thorough; nscopes = NSC(rb_thorough); } else { scopes = rb_quick; nscopes = NSC(rb_quick); }
        break;
    case MODE_CLEAR:
        if (vrt_thorough) { scopes = clear_thorough; nscopes = NSC(clear_thorough); } else { scopes = clear_quick; nscopes = NSC(clear_quick); }
        break;
    default:
        if (vrt_thorough) { scopes = order_thorough; nscopes = NSC(order_thorough); } else { scopes = order_quick; nscopes = NSC(order_quick); }
        break;
    }
}
static uint64_t ncases(void)
{
    setup_mode();
    return nscopes + ndeep() + nbig() + nrandom();
}
static int nbig(void)
{
    return (mc_mode || mode == MODE_CLEAR) ? 0 : 4;
}
static int ndeep(void)
{
    if (mc_mode || mode == MODE_RB) return 0;
    if (mode == MODE_CLEAR) return vrt_thorough ? 16 : 6;
    return vrt_thorough ? 8 : 2;
}
static void run_case(uint64_t idx)
{
    if (hang_seen) { VRT_COUNT("hang.cases-skipped-after-a-hang"); return; }
    case_running = 1;
    reent.on = 0; cur_trav = NULL; cur_nest = NULL; in_closure = 0;     /* a case abandoned inside a visitor leaves them set */
    /* none of these containers ever needs memory: every second case runs with an allocator that refuses everything */
    if (idx & 1) { vrt_fp_arm(NULL, 0, 1); VRT_COUNT("nomem.cases"); }
    if (idx < (uint64_t)nscopes) run_closure((int)idx);
    else if (idx < (uint64_t)(nscopes + ndeep())) run_deep(idx - nscopes);
    else if (idx < (uint64_t)(nscopes + ndeep() + nbig())) run_big(idx - nscopes - ndeep());
    else if (mode == MODE_CLEAR) run_random_clear(idx - nscopes - ndeep() - nbig());
    else run_random(idx - nscopes - ndeep() - nbig());
    vrt_fp_disarm();
    case_running = 0;
}
static void winit(void)
{
    vrt_sig_name(0, "tree-states");
    setup_mode();
    hang_timer(1);
}
static void wfini(void)
{
    hang_timer(0);
}

static const char *const required_order[] = {
    "op.insert", "op.insert.hinted", "op.insert.hinted.null-hint", "op.insert.hinted.key-absent",
    "op.insert.hinted.key-present", "op.insert.hinted.key-present.match-is-root", "op.insert.duplicate-key",
    "op.swap.different-offsets", "recycle.node-only.still-in-other-tree",
    "op.find", "op.find.par", "op.find.absent", "op.find.among-duplicates",
    "op.erase", "op.erase.absent", "op.erase.among-duplicates", "op.clear", "op.swap",
    "op.foreach.fwd", "op.foreach.rev", "op.foreach.early-stop",
    "erase.node.leaf", "erase.node.one-child", "erase.node.two-children.succ-is-child",
    "erase.node.two-children.succ-deeper", "erase.node.leaf.root", "erase.node.one-child.root",
    "erase.node.two-children.succ-is-child.root", "erase.node.two-children.succ-deeper.root",
    "closure.states.bintree", "closure.states.rbtree", "random.histories.bintree", "random.histories.rbtree",
    "probe.observe", "audit.tree", "deep.cases", "deep.trees-deeper-than-4096",
    /* hints older than the last find; read-only calls from inside a visitor; big monotone red-black fills */
    "hint.batch", "hint.batch.key-absent", "hint.batch.key-present", "hint.batch.null-hint", "hint.batch.same-leaf-other-side",
    "hint.batch.other-slot-of-the-hint.key-present", "hint.batch.three-hints", "hint.batch.find-without-par",
    "hint.batch.then.size", "hint.batch.then.height", "hint.batch.then.foreach", "hint.batch.then.other-tree",
    "reent.traversals", "reent.size", "reent.find", "reent.height", "reent.foreach.same-direction", "reent.foreach.other-direction",
    "reent.foreach.same-tree", "reent.foreach.completed", "reent.foreach.early-stop", "reent.other-tree", "reent.same-tree",
    "reent.outer.completed", "reent.outer.early-stop",
    "big.cases", "big.checkpoints", "big.flank-deeper-than-32", "big.insert.path-of-more-than-32-turns",
    "big.insert.path-of-more-than-32-turns.both-ways", "big.in-between-inserts", "big.fill.descending", "big.fill.ascending",
    "big.fill.alternating-inward", "big.fill.descending-runs", NULL
};
static const char *const required_rb[] = {
    "op.insert", "op.insert.hinted", "op.insert.hinted.key-absent", "op.insert.hinted.key-present",
    "op.insert.duplicate-key", "op.erase", "op.erase.among-duplicates", "op.swap", "op.swap.different-offsets",
    "audit.rb-rules",
    "insert.rb.parent-black", "insert.rb.parent-red.uncle-red", "insert.rb.parent-red.uncle-black.outer",
    "insert.rb.parent-red.uncle-black.inner",
    "erase.rb.removed-red", "erase.rb.removed-black.child-red", "erase.rb.removed-black.last-node",
    "erase.rb.case.sibling-red", "erase.rb.case.nephews-black", "erase.rb.case.near-nephew-red-only",
    "erase.rb.case.far-nephew-red", "erase.rb.case.above-the-leaf",
    "erase.node.leaf", "erase.node.one-child", "erase.node.two-children.succ-is-child", "erase.node.two-children.succ-deeper",
    "closure.states", "random.histories",
    "hint.batch", "hint.batch.key-absent", "hint.batch.key-present", "hint.batch.same-leaf-other-side", "hint.batch.three-hints",
    "hint.batch.then.size", "hint.batch.then.height",
    "big.cases", "big.checkpoints", "big.flank-deeper-than-32", "big.insert.path-of-more-than-32-turns",
    "big.insert.path-of-more-than-32-turns.both-ways", "big.in-between-inserts", "big.fill.descending", "big.fill.ascending",
    "big.fill.alternating-inward", "big.fill.descending-runs", NULL
};
static const char *const required_clear[] = {
    "op.clear", "clear.handed-over", "probe.clear-then-reuse", "closure.states.bintree", "closure.states.rbtree",
    "recycle.node-only.still-in-other-tree",
    "random.clear-large", "op.insert", "op.erase",
    "deep.cases", "deep.trees-deeper-than-4096", "deep.zigzag-nodes",
    "nested.attached", "clear.nested.containers-cleared", "clear.nested.inside-outer-clear", "clear.nested.handed-over", NULL
};
static const char *const required_mc[] = {
    "op.insert", "op.insert.hinted", "op.erase", "op.find", "op.clear", "closure.states", "memcheck.polls", NULL
};
static struct vrt_harness H = { "trees", ncases, run_case, winit, wfini, required_order, 16 };

int main(int argc, char **argv)
{
    int i;
    /* the list of required observations depends on the mode, which vrt_main parses later */
    for (i = 1; i + 1 < argc; i++) {
        if (strcmp(argv[i], "--mode") == 0) {
            const size_t ml = strlen(argv[i + 1]);
            if (ml >= 3 && strcmp(argv[i + 1] + ml - 3, "-mc") == 0) H.required = required_mc;
            else if (strcmp(argv[i + 1], "rb") == 0) H.required = required_rb;
            else if (strcmp(argv[i + 1], "clear") == 0) H.required = required_clear;
        }
    }
    return vrt_main(argc, argv, &H);
}
