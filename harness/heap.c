/*
 * C07 -- the heap always yields a maximum element; the tree stays complete.
 * (Also used by C15 via mode "clear".)
 *
 * cases: [0, nscopes)               closure scopes (every op in every reachable state)
 *        [nscopes, nscopes+nbig)    large heaps: grow to > 2^17 elements and drain, O(1) model checks
 *                                   per call, full walker around every power of two (mode "" only)
 *        [.., +nswapuse)            swap-then-use histories: every pair of every configuration set in every state class
 *        [.., ...)                  seeded random histories with fill/drain phases
 *
 * Heap objects of one scope are configured differently (order, comparator
 * function, priv, embedded node member): swap must exchange contents AND
 * configuration, so the configuration belongs to the model a heap object
 * currently carries.  The attributes vary independently (configuration sets:
 * pairs of heaps that differ in the function only, in priv only - a max-heap
 * and a min-heap sharing one priv-directed comparator -, in the offset only);
 * the comparator oracle demands the function and the priv of the heap the call
 * was made on, wherever that configuration has travelled through swaps.
 *
 * Oracle after every call: reference multiset of held element addresses per
 * heap (get/pop NULL iff empty, returned address is a held element of maximal
 * priority, pop removes exactly it, size), and a structural walker over the
 * header-visible links (node at level-order position i has children exactly
 * at 2i+1 / 2i+2 iff those are < size, parent links, child <= parent, count).
 */
#include "vrt.h"
#include "explore.h"
#include "cstl/heap.h"
#include <string.h>
#include <stdio.h>

#define MAXH 3
#define MAXE 141000
#define MAGIC 0x4ea9e1e5u
static unsigned init_toggle;
#define HTAB (1 << 19)

struct elem {
    uint32_t magic;
    int id, key;
    int where;                  /* model index, -1 = not in any heap */
    int slot;                   /* index in M[where] */
    int pos;                    /* level-order position seen by the last walk */
    uint32_t stamp;             /* walk that saw it last */
    int nextfree, hnext;
    uint64_t pad0;
    struct cstl_heap_node node;
    uint64_t padm;
    struct cstl_heap_node node2;
    uint64_t pad1;
};
#define PADV 0x5e5e5e5e5e5e5e5eull

/* configuration of the heap that model m describes (initially heap object m).  The three attributes a heap is
 * configured with - comparison function, priv pointer, node member offset - vary INDEPENDENTLY: a scope picks one
 * configuration set, and the sets contain pairs of heaps that differ in exactly one attribute (and one set in which
 * everything differs).  cmp_sel takes its direction from the object priv points to, so a max-heap and a min-heap can
 * share the function and the offset and differ in nothing but priv. */
enum { F_FWD, F_REV, F_SEL };
struct privobj { uint64_t g0; int dir; uint64_t g1; };
#define NPV 4
static struct privobj privtab[NPV] = { { PADV, +1, PADV }, { PADV, -1, PADV }, { PADV, -1, PADV }, { PADV, +1, PADV } };
struct hconf { int dir; int nodesel; int fn; int pv; };     /* pv: index into privtab, -1 = NULL priv */
#define NSETS 5
static const struct hconf confsets[NSETS][MAXH] = {
    /* 0: everything differs */
    { { +1, 0, F_FWD, 0 },      /* greatest key on top, priv 0, linked through .node */
      { -1, 1, F_REV, 1 },      /* REVERSED order (smallest key on top), priv 1, linked through .node2 */
      { -1, 0, F_REV, 2 } },    /* reversed, priv 2, linked through .node */
    /* 1: same function, same offset, priv only: max-heap / min-heap / max-heap through another priv object */
    { { +1, 1, F_SEL, 0 }, { -1, 1, F_SEL, 1 }, { +1, 1, F_SEL, 3 } },
    /* 2: same priv, same offset, function only (the third behaves like the first through another function) */
    { { +1, 0, F_FWD, 0 }, { -1, 0, F_REV, 0 }, { +1, 0, F_SEL, 0 } },
    /* 3: 0/1 differ in the offset only, 1/2 in the function only */
    { { -1, 0, F_SEL, 1 }, { -1, 1, F_SEL, 1 }, { +1, 1, F_FWD, 1 } },
    /* 4: 0/1 differ in priv only, one of them NULL; 0/2 in the function only, both with NULL priv */
    { { +1, 1, F_FWD, -1 }, { +1, 1, F_FWD, 0 }, { -1, 1, F_REV, -1 } },
};
static const struct hconf *conf = confsets[0];
#define PRIV_OF(m) (conf[m].pv < 0 ? NULL : (void *)&privtab[conf[m].pv])
#define OFF_OF(m) (conf[m].nodesel ? offsetof(struct elem, node2) : offsetof(struct elem, node))
/* which attributes two configurations differ in: bit 0 function, bit 1 priv, bit 2 offset */
#define DIFF_OF(m1, m2) ((conf[m1].fn != conf[m2].fn) | (conf[m1].pv != conf[m2].pv) << 1 | (conf[m1].nodesel != conf[m2].nodesel) << 2)

struct cfg { int nh, nk, np, maxlen, cmpscale, light, cset; };
static struct cfg scopetab[40];
static const struct cfg *C;

static struct elem *pool[MAXE];
static struct cstl_heap H[MAXH];
static int mi[MAXH];                    /* heap object -> model index (swap exchanges) */
static struct elem *M[MAXH][MAXE];      /* model: multiset of held element addresses */
static int Mn[MAXH];
static int cnt[MAXH][MAXE];             /* model: held elements per priority */
static int best[MAXH];                  /* model: top priority in the heap's own order, -1 = empty */
static struct elem *posmap[MAXH][MAXE]; /* per heap object: element at level-order position (last walk) */
static int lastkind[MAXH];              /* previous mutating op per heap object (coverage) */
static int swdiff[MAXH];                /* per heap object: DIFF_OF of the last swap it took part in, -1 = never swapped */
static int swuses[MAXH];                /* per heap object: push/pop/get calls since that swap */
static uint64_t cmp_ncalls;             /* comparator calls so far (this case) */
static int freehead[MAXE];              /* per priority: free elements */
static int hb[HTAB], hsize;             /* address -> pool element */
static uint32_t wstamp;
static int cur_model = -1;              /* model of the heap the library is working on */
static struct elem *cur_push;
static int is_clear_mode;

enum { K_PUSH = 1, K_POP, K_GET, K_CLEAR, K_SWAP, K_NKINDS };
#define OP(kind, h1, h2, key) ((uint32_t)(kind) | (uint32_t)(h1) << 8 | (uint32_t)(h2) << 10 | (uint32_t)(key) << 12)
#define OP_KIND(o) ((o) & 0xff)
#define OP_H1(o)   (((o) >> 8) & 3)
#define OP_H2(o)   (((o) >> 10) & 3)
#define OP_KEY(o)  ((int)((o) >> 12))

/* ---- keyed failures with the entry point appended ---- */
#define FAIL2(fmtkey, a, b, ...) do { char _k[96]; snprintf(_k, sizeof(_k), fmtkey, a, b); vrt_fail(_k, __VA_ARGS__); } while (0)

/* ---- element pool, looked up by address ---- */
static unsigned hidx(const void *p)
{
    return (unsigned)((((uintptr_t)p >> 4) * 0x9e3779b97f4a7c15ull) >> 40) & (unsigned)(hsize - 1);
}
static void hreg(struct elem *e)
{
    unsigned i = hidx(e);
    e->hnext = hb[i]; hb[i] = e->id;
}
static void hunreg(struct elem *e)
{
    unsigned i = hidx(e);
    int *pp = &hb[i];
    while (*pp >= 0 && pool[*pp] != e) pp = &pool[*pp]->hnext;
    if (*pp >= 0) *pp = e->hnext;
}
static struct elem *lookup(const void *p)
{
    int i;
    if (p == NULL) return NULL;
    for (i = hb[hidx(p)]; i >= 0; i = pool[i]->hnext) if ((const void *)pool[i] == p) return pool[i];
    return NULL;
}
static struct elem *new_elem(int id, int key)
{
    struct elem *e = vrt_alloc(sizeof(*e));
    memset(e, 0x5e, sizeof(*e));
    e->magic = MAGIC; e->id = id; e->key = key; e->where = -1; e->slot = -1; e->pos = -1; e->stamp = 0;
    e->nextfree = freehead[key]; freehead[key] = id;
    pool[id] = e;
    hreg(e);
    return e;
}
static struct elem *take_free(int key)
{
    int id = freehead[key];
    if (id < 0) return NULL;
    freehead[key] = pool[id]->nextfree;
    return pool[id];
}
static void give_back(struct elem *e)
{
    /* the element is the caller's again: whatever the node held is garbage now */
    memset(&e->node, 0x5e, sizeof(e->node));
    memset(&e->node2, 0x5e, sizeof(e->node2));
    e->where = -1; e->slot = -1; e->pos = -1;
    e->nextfree = freehead[e->key]; freehead[e->key] = e->id;
}

static int cmp_common(const void *a, const void *b, void *p, int fn)
{
    const struct elem *x = a, *y = b;
    int sgn, dir;
    static const char *const fnname[3] = { "forward", "reversed", "priv-selected" };
    VRT_CHECK(cur_model >= 0, "heap.cmp.outside-call", "comparison called while no heap operation is in progress");
    /* the priv of the heap the call was made on (whatever object it has travelled to through swaps) */
    VRT_CHECK(p == PRIV_OF(cur_model), "heap.cmp.priv",
              "comparison called with priv %p, the heap operated on was configured with %p", p, PRIV_OF(cur_model));
    VRT_CHECK(fn == conf[cur_model].fn, "heap.cmp.wrong-function",
              "the %s comparator was called for a heap configured with the %s one", fnname[fn], fnname[conf[cur_model].fn]);
    VRT_CHECK(x->magic == MAGIC && y->magic == MAGIC, "heap.cmp.non-element", "comparison called with a non-element");
    VRT_CHECK((x->where == cur_model || x == cur_push) && (y->where == cur_model || y == cur_push),
              "heap.cmp.non-member", "comparison called with an element that is neither in the heap nor being pushed");
    VRT_COUNT("cmp.calls");
    cmp_ncalls++;
    if (fn == F_SEL) {
        /* direction selected through priv, as a client's comparator would do it */
        const struct privobj *po = p;
        VRT_CHECK(po->g0 == PADV && po->g1 == PADV, "heap.cmp.priv-object-written", "the object priv points to was modified");
        dir = po->dir;
        VRT_COUNT("cmp.calls.direction-from-priv");
    } else dir = fn == F_FWD ? +1 : -1;
    if (p == NULL) VRT_COUNT("cmp.calls.null-priv");
    VRT_CHECK(dir == conf[cur_model].dir, "harness.config.direction", "configuration table: function %d / priv %d give direction %d, table says %d",
              fn, conf[cur_model].pv, dir, conf[cur_model].dir);
    sgn = dir * ((x->key > y->key) - (x->key < y->key));
    /* only the sign of the result is specified: scale 7 stands for "magnitude unrelated to the
     * distance between the priorities" (as with strcmp-like or multi-key comparators) */
    if (C->cmpscale == 7) {
        if ((x->id + y->id) % 3 == 0) return vrt_cmp_result(sgn, (unsigned)(x->id * 131 + y->id * 31));
        return sgn * (1 + (x->id * 131 + y->id * 31) % 997);
    }
    return sgn * C->cmpscale;
}
static int cmp_fwd(const void *a, const void *b, void *p) { return cmp_common(a, b, p, F_FWD); }
static int cmp_rev(const void *a, const void *b, void *p) { return cmp_common(a, b, p, F_REV); }
static int cmp_sel(const void *a, const void *b, void *p) { return cmp_common(a, b, p, F_SEL); }
static cstl_compare_func_t *const cmpfns[3] = { cmp_fwd, cmp_rev, cmp_sel };

static void nest_reset(int np);
static void st_create(int scope)
{
    int i;
    C = &scopetab[scope];
    conf = confsets[C->cset];
    cmp_ncalls = 0;
    for (hsize = 16; hsize < 2 * C->np; hsize <<= 1) ;
    for (i = 0; i < hsize; i++) hb[i] = -1;
    for (i = 0; i < C->nk; i++) freehead[i] = -1;
    /* highest id first so that the lowest id of a priority is taken first */
    for (i = C->np - 1; i >= 0; i--) new_elem(i, i % C->nk);
    for (i = 0; i < C->nh; i++) {
        cstl_compare_func_t * const cf = cmpfns[conf[i].fn];
        void * const pv = PRIV_OF(i);
        /* both documented ways of making a heap: the init function and (every other time) the static initialiser */
        if (++init_toggle & 1) cstl_heap_init(&H[i], cf, pv, OFF_OF(i));
        else if (conf[i].nodesel) H[i] = (struct cstl_heap)CSTL_HEAP_INITIALIZER(struct elem, node2, cf, pv);
        else H[i] = (struct cstl_heap)CSTL_HEAP_INITIALIZER(struct elem, node, cf, pv);
        mi[i] = i; Mn[i] = 0; lastkind[i] = 0; best[i] = -1; swdiff[i] = -1; swuses[i] = 0;
        memset(cnt[i], 0, sizeof(cnt[i][0]) * C->nk);
    }
    cur_model = -1; cur_push = NULL;
    nest_reset(C->np);
}
static void st_destroy(void)
{
    int i;
    for (i = 0; i < C->np; i++) { vrt_free(pool[i]); pool[i] = NULL; }
}

/* top priority of model m in its own order: tracker, cross-checked against a plain scan for small priority sets */
static int model_max(int m)
{
    if (C->nk <= 64) {
        int k, scan = -1;
        if (conf[m].dir > 0) { for (k = C->nk - 1; k >= 0; k--) if (cnt[m][k] > 0) { scan = k; break; } }
        else { for (k = 0; k < C->nk; k++) if (cnt[m][k] > 0) { scan = k; break; } }
        VRT_CHECK(scan == best[m], "harness.model.max-tracker", "model %d: tracker says %d, scan says %d", m, best[m], scan);
    }
    return best[m];
}
static void model_add(int m, struct elem *e)
{
    e->where = m; e->slot = Mn[m]; M[m][Mn[m]++] = e; cnt[m][e->key]++;
    if (best[m] < 0 || conf[m].dir * (e->key - best[m]) > 0) best[m] = e->key;
}
static void model_del(int m, struct elem *e)
{
    struct elem *last = M[m][--Mn[m]];
    M[m][e->slot] = last; last->slot = e->slot;
    cnt[m][e->key]--;
    if (Mn[m] == 0) best[m] = -1;
    else while (cnt[m][best[m]] == 0) best[m] -= conf[m].dir;
}

static int depth_of(size_t pos)
{
    int d = 0;
    for (pos += 1; pos > 1; pos >>= 1) d++;
    return d;
}

/* ---- structural walker ---- */
static size_t wcount;
static void walk_node(int h, const struct cstl_bintree_node *n, const struct cstl_bintree_node *parent,
                      size_t pos, size_t size, const char *after)
{
    const int m = mi[h];
    struct elem *e = lookup((const char *)n - OFF_OF(m));
    const size_t l = 2 * pos + 1, r = 2 * pos + 2;

    if (e == NULL || e->magic != MAGIC)
        FAIL2("heap.walker.foreign-node.after-%s%s", after, "", "heap %d: node at level-order position %zu is not an element", h, pos);
    if (e->where != m)
        FAIL2("heap.walker.non-member.after-%s%s", after, "", "heap %d: element %d at position %zu is not held by this heap (model says %d)",
              h, e->id, pos, e->where);
    if (e->stamp == wstamp)
        FAIL2("heap.walker.node-twice.after-%s%s", after, "", "heap %d: element %d reached twice (positions %d and %zu)", h, e->id, e->pos, pos);
    e->stamp = wstamp; e->pos = (int)pos; posmap[h][pos] = e; wcount++;
    {
        /* nothing but the node member this heap was configured with may have been written */
        uint64_t o[3];
        _Static_assert(sizeof(struct cstl_heap_node) == sizeof(o), "node is three pointers");
        memcpy(o, conf[m].nodesel ? &e->node : &e->node2, sizeof(o));
        if (o[0] != PADV || o[1] != PADV || o[2] != PADV || e->pad0 != PADV || e->padm != PADV || e->pad1 != PADV)
            FAIL2("heap.walker.wrote-outside-node.after-%s%s", after, "", "heap %d: element %d at position %zu was written outside the node member the heap links through",
                  h, e->id, pos);
    }
    if (n->p != parent)
        FAIL2("heap.walker.parent-link.after-%s%s", after, "", "heap %d size %zu: parent link of the node at position %zu does not point to the node at %zu",
              h, size, pos, pos ? (pos - 1) / 2 : 0);
    if (parent != NULL) {
        const struct elem *pe = posmap[h][(pos - 1) / 2];
        if (conf[m].dir * (e->key - pe->key) > 0)
            FAIL2("heap.walker.child-greater.after-%s%s", after, "", "heap %d size %zu (%s order): priority %d at position %zu beats its parent's %d",
                  h, size, conf[m].dir > 0 ? "forward" : "reversed", e->key, pos, pe->key);
    }
    if (l < size) {
        if (n->l == NULL)
            FAIL2("heap.walker.not-complete.after-%s%s", after, "", "heap %d size %zu: no node at position %zu (left child of %zu)", h, size, l, pos);
        walk_node(h, n->l, n, l, size, after);
    } else if (n->l != NULL) {
        FAIL2("heap.walker.not-complete.after-%s%s", after, "", "heap %d size %zu: a node sits at position %zu (left child of %zu)", h, size, l, pos);
    }
    if (r < size) {
        if (n->r == NULL)
            FAIL2("heap.walker.not-complete.after-%s%s", after, "", "heap %d size %zu: no node at position %zu (right child of %zu)", h, size, r, pos);
        walk_node(h, n->r, n, r, size, after);
    } else if (n->r != NULL) {
        FAIL2("heap.walker.not-complete.after-%s%s", after, "", "heap %d size %zu: a node sits at position %zu (right child of %zu)", h, size, r, pos);
    }
}

static void check_top(int m, const void *ret, const char *entry, const char *after)
{
    const struct elem *e = lookup(ret);
    const int mx = model_max(m);
    if (e == NULL || e->magic != MAGIC)
        FAIL2("heap.%s.not-an-element%s", entry, after, "%s returned %p which is not an element that was ever pushed", entry, ret);
    if (e->where != m)
        FAIL2("heap.%s.not-held%s", entry, after, "%s returned element %d which is not in this heap (model says %d)", entry, e->id, e->where);
    if (e->key != mx)
        FAIL2("heap.%s.not-max%s", entry, after, "%s returned priority %d while priority %d is held (size %d, %s order)", entry, e->key, mx, Mn[m],
              conf[m].dir > 0 ? "forward" : "reversed");
}

static void audit_heap(int h, const char *after, int full)
{
    const int m = mi[h];
    const size_t size = (size_t)Mn[m];
    const struct cstl_bintree_node *root = H[h].bt.root;
    const void *g;
    char aft[32];

    snprintf(aft, sizeof(aft), ".after-%s", after);
    if (cstl_heap_size(&H[h]) != size)
        FAIL2("heap.size.after-%s%s", after, "", "heap %d: size %zu, reference %zu", h, cstl_heap_size(&H[h]), size);
    cur_model = m;
    g = cstl_heap_get(&H[h]);
    cur_model = -1;
    if (size == 0) {
        if (g != NULL) FAIL2("heap.get.empty-not-null.after-%s%s", after, "", "get on empty heap %d returned %p", h, g);
        if (root != NULL) FAIL2("heap.walker.not-complete.after-%s%s", after, "", "heap %d is empty but has a root node", h);
    } else {
        if (g == NULL) FAIL2("heap.get.null-on-nonempty.after-%s%s", after, "", "get on heap %d holding %zu returned NULL", h, size);
        check_top(m, g, "get", aft);
        if (root == NULL) FAIL2("heap.walker.not-complete.after-%s%s", after, "", "heap %d holds %zu but has no root node", h, size);
        if (!full) { VRT_COUNT("audit.light"); return; }
        wstamp++; wcount = 0;
        walk_node(h, root, NULL, 0, size, after);
        if (wcount != size)
            FAIL2("heap.walker.count.after-%s%s", after, "", "heap %d: %zu nodes linked, size %zu", h, wcount, size);
    }
    VRT_COUNT("audit.heap");
}
static void audit_all(const char *after)
{
    int h;
    for (h = 0; h < C->nh; h++) audit_heap(h, after, 1);
}
/* after an op on heap h: full audit of everything, or (large heaps) the O(1) checks on h only */
#define AFTER(audit, h, name) do { if (audit) audit_all(name); else if (C->light) audit_heap(h, name, 0); } while (0)

/* element at a level-order position by reading the links (coverage accounting only) */
static struct elem *peek_at(int h, size_t pos)
{
    const struct cstl_bintree_node *n = H[h].bt.root;
    size_t loc = pos + 1, b;
    for (b = 1; b * 2 <= loc; b *= 2) ;
    for (b >>= 1; n != NULL && b != 0; b >>= 1) n = (loc & b) ? n->r : n->l;
    return n ? lookup((const char *)n - OFF_OF(mi[h])) : NULL;
}

static int bucket_ids[2][18];
static void count_bucket(int which, int size)
{
    static int init;
    int b = 0;
    if (!init) {
        int k;
        for (k = 0; k < 18; k++) {
            char nm[64];
            snprintf(nm, sizeof(nm), "pop.size-before.%d-%d", 1 << k, (2 << k) - 1);
            bucket_ids[0][k] = vrt_counter_id(nm);
            snprintf(nm, sizeof(nm), "push.size-before.%d-%d", 1 << k, (2 << k) - 1);
            bucket_ids[1][k] = vrt_counter_id(nm);
        }
        init = 1;
    }
    while ((2 << b) <= size && b < 17) b++;
    vrt_ctr[bucket_ids[which][b]]++;
}

/* ---- nested heaps (mode "clear", C15): elements that own a heap of their own ----
 * Right before a clear some of the held elements (all, several, one) are given a private, non-empty heap of
 * individually allocated sub-elements, with a comparison function and a priv of its own.  The outer clear callback
 * destroys what the element owns first: it clears the inner heap through the library with ANOTHER callback function.
 * That is a clear of another heap running inside a clear: every outer element must still reach the outer callback
 * exactly once, every sub-element the callback of its own clear call exactly once, nothing the wrong function,
 * nothing after its callback returned, and both heaps end empty and usable.  Half of the inner heaps keep the
 * overwritten sub-elements until their clear has returned and verify the overwrite then (a write after the callback
 * shows without a sanitizer, a read runs into 0xa5a5.. links), the others free them at once. */
#define SMAGIC 0x5ab4ea95u
#define SUBMAX 4
struct subh;
struct felem {
    uint32_t magic;
    int key;
    struct subh *owner;
    uint64_t pad0;
    struct cstl_heap_node node;
    uint64_t pad1;
};
struct subh {
    uint32_t magic;
    int n, seen, hold, owner_id;
    struct felem *se[SUBMAX];           /* held sub-elements (NULL once handed over) */
    struct felem *held[SUBMAX];         /* hold: handed over and overwritten, not freed yet */
    struct felem *spare;                /* for the push that proves the cleared inner heap usable */
    struct cstl_heap h;
};
static struct subh *SUB[MAXE];          /* by element id */
static struct subh *cur_sub;            /* the inner heap being cleared right now */
static int outer_running, inner_done, nsubs, sub_token;
static void nest_reset(int np)
{
    int i;
    for (i = 0; i < np; i++) SUB[i] = NULL;
    cur_sub = NULL; outer_running = 0; inner_done = 0; nsubs = 0;
}
static int sub_cmp(const void *a, const void *b, void *p)
{
    const struct felem *x = a, *y = b;
    VRT_CHECK(p == (void *)&sub_token, "heap.nested.cmp.priv", "comparison of an inner heap called with priv %p", p);
    VRT_CHECK(x->magic == SMAGIC && y->magic == SMAGIC && x->owner == y->owner, "heap.nested.cmp.foreign-element",
              "comparison of an inner heap called with something that is not one of its elements");
    return (x->key > y->key) - (x->key < y->key);
}
static struct felem *new_felem(struct subh *s, int key)
{
    struct felem *x = vrt_alloc(sizeof(*x));
    memset(x, 0x5e, sizeof(*x));
    x->magic = SMAGIC; x->key = key; x->owner = s;
    return x;
}
static void sub_attach(struct elem *e, unsigned salt)
{
    struct subh *s = vrt_alloc(sizeof(*s));
    int i;
    memset(s, 0x5e, sizeof(*s));
    s->magic = SMAGIC; s->n = 1 + (int)(salt % SUBMAX); s->seen = 0; s->hold = (salt >> 3) & 1; s->owner_id = e->id;
    VRT_OP2("heap.nested.fill", "inner heap of e%ld, %ld sub-elements", e->id, s->n);
    if (salt & 4) cstl_heap_init(&s->h, sub_cmp, &sub_token, offsetof(struct felem, node));
    else s->h = (struct cstl_heap)CSTL_HEAP_INITIALIZER(struct felem, node, sub_cmp, &sub_token);
    for (i = 0; i < SUBMAX; i++) s->se[i] = s->held[i] = NULL;
    for (i = 0; i < s->n; i++) {
        s->se[i] = new_felem(s, (int)((salt >> (4 + 2 * i)) & 3));
        cstl_heap_push(&s->h, s->se[i]);
    }
    s->spare = new_felem(s, 1);
    SUB[e->id] = s; nsubs++;
    VRT_COUNT("nested.attached");
}
static void sub_clear_cb(void *ev, void *p)
{
    struct felem *x = ev;
    int i, k = -1;
    VRT_CHECK(cur_sub != NULL, "heap.clear.nested.callback-outside-its-clear",
              "the callback given to the clear of an inner heap was invoked while no inner clear is running");
    VRT_CHECK(p == NULL, "heap.clear.nested.priv", "inner clear callback got priv %p", p);
    for (i = 0; i < cur_sub->n; i++) if (cur_sub->se[i] == x) k = i;
    VRT_CHECK(k >= 0, "heap.clear.nested.foreign-element", "inner clear callback was handed something that is not a held element of the inner heap being cleared (or an element twice)");
    VRT_CHECK(x->magic == SMAGIC && x->owner == cur_sub, "heap.clear.nested.element-damaged", "sub-element handed to the inner clear callback does not carry its owner's marks any more");
    cur_sub->se[k] = NULL;
    cur_sub->seen++;
    memset(x, 0xa5, sizeof(*x));
    if (cur_sub->hold) cur_sub->held[k] = x; else vrt_free(x);
    VRT_COUNT("clear.nested.handed-over");
}
/* the owning element is being destroyed (inside the outer clear callback): clear its heap through the library */
static void sub_destroy(int id)
{
    struct subh *s = SUB[id], *prev = cur_sub;
    int i;
    size_t k;
    cur_sub = s; s->seen = 0;
    VRT_OP2("heap.nested.clear", "inner heap of e%ld (%ld sub-elements), from the clear callback of the outer heap", id, s->n);
    cstl_heap_clear(&s->h, sub_clear_cb);
    cur_sub = prev;
    VRT_CHECK(s->seen == s->n, "heap.clear.nested.count", "inner clear handed over %d of %d sub-elements", s->seen, s->n);
    for (i = 0; i < s->n; i++) if (s->held[i] != NULL) {
        const unsigned char *b = (const unsigned char *)s->held[i];
        for (k = 0; k < sizeof(struct felem) && b[k] == 0xa5; k++) ;
        VRT_CHECK(k == sizeof(struct felem), "heap.clear.nested.touched-after-callback", "sub-element written at byte %zu after its clear callback had returned", k);
        vrt_free(s->held[i]); s->held[i] = NULL;
        VRT_COUNT("clear.nested.overwrite-verified");
    }
    VRT_CHECK(cstl_heap_size(&s->h) == 0 && cstl_heap_get(&s->h) == NULL,
              "heap.clear.nested.not-empty", "inner heap after its clear: size %zu / get not NULL", cstl_heap_size(&s->h));
    /* usable like a fresh one */
    cstl_heap_push(&s->h, s->spare);
    VRT_CHECK(cstl_heap_size(&s->h) == 1 && cstl_heap_get(&s->h) == (const void *)s->spare,
              "heap.clear.nested.reuse", "push on the cleared inner heap: size %zu, get is not the one element", cstl_heap_size(&s->h));
    VRT_CHECK(cstl_heap_pop(&s->h) == (void *)s->spare && cstl_heap_size(&s->h) == 0, "heap.clear.nested.reuse", "pop on the re-used inner heap did not return its only element");
    vrt_free(s->spare);
    memset(s, 0xa5, sizeof(*s));
    vrt_free(s);
    SUB[id] = NULL; nsubs--;
    inner_done++;
    VRT_COUNT("clear.nested.heaps-cleared");
}
/* give some elements held by model m a heap of their own; which ones changes from clear to clear */
static void sub_attach_some(int m)
{
    const unsigned salt = vrt_case_tick() * 2654435761u + 0x9e37u;
    const int len = Mn[m], variant = (int)((salt >> 28) % 4);
    int i, owners = 0;
    for (i = 0; i < len; i++) {
        const unsigned h = (salt ^ (unsigned)i * 40503u) * 2246822519u >> 16;
        int own;
        switch (variant) {
        case 0: own = len <= 8 || h % 4 == 0; break;                                    /* all (larger heaps: every fourth) */
        case 1: own = M[m][i]->key == best[m] || h % 3 == 0; break;                     /* the top priority (the root among them) and some others */
        case 2: own = len <= 16 ? h % 2 == 0 : h % 8 == 0; break;                       /* some */
        default: own = len <= 16 ? ((salt >> 8) % (unsigned)len == (unsigned)i) : h % 16 == 0; break;   /* one, anywhere */
        }
        if (!own || SUB[M[m][i]->id] != NULL) continue;
        sub_attach(M[m][i], h ^ (salt >> 7));
        owners++;
    }
    if (owners >= 2) VRT_COUNT("clear.nested.several-owners");
    if (owners > 0 && owners < len) VRT_COUNT("clear.nested.owners-and-plain-elements");
}

/* clear callback: exactly-once state machine, poison, free */
static int clear_model, clear_seen, clear_size;
static void clear_cb(void *e, void *p)
{
    struct elem *x = lookup(e);
    int id, key;
    VRT_CHECK(cur_sub == NULL, "heap.clear.nested.wrong-callback", "the clear of an inner heap invoked the callback given to the clear of the outer heap");
    VRT_CHECK(outer_running, "heap.clear.callback-outside-its-clear", "clear callback invoked while its clear is not running");
    VRT_CHECK(p == NULL, "heap.clear.priv", "clear callback got priv %p", p);
    VRT_CHECK(x != NULL && x->magic == MAGIC, "heap.clear.non-element", "clear callback for a non-element / twice");
    VRT_CHECK(x->where == clear_model, "heap.clear.non-member", "clear callback for element %d not in the heap being cleared (model says %d)",
              x->id, x->where);
    id = x->id; key = x->key;
    clear_seen++;
    if (inner_done) VRT_COUNT("clear.nested.outer-went-on-after-inner-clear");
    if (SUB[id] != NULL) {
        if (clear_seen == 1) VRT_COUNT("clear.nested.first-handed-over-owns-a-heap");
        if (clear_seen == clear_size) VRT_COUNT("clear.nested.last-handed-over-owns-a-heap");
        if (clear_seen > 1 && clear_seen < clear_size) VRT_COUNT("clear.nested.inner-element-owns-a-heap");
        sub_destroy(id);
        VRT_OP2("heap.clear", "model %ld (goes on after the nested clear in the callback for e%ld)", clear_model, id);
    }
    hunreg(x);
    memset(x, 0xa5, sizeof(*x));
    vrt_free(x);
    new_elem(id, key);
    VRT_COUNT("clear.handed-over");
}

/* ---- swap coverage: which attributes differed, in which state, and how the two heap objects were used afterwards ---- */
static const char *const diffname[8] = { "same-config", "cmp-only", "priv-only", "cmp+priv", "offset-only", "cmp+offset", "priv+offset", "all-differ" };
enum { SW_BOTH_EMPTY, SW_ONE_EMPTY, SW_BOTH, SW_BOTH_EQUAL, SW_NSTATES };
enum { U_PUSH, U_POP, U_GET, U_CMP, U_THIRD, U_N };
static int swap_ids[8][SW_NSTATES], use_ids[8][U_N], swap_ids_ready;
static void swap_ids_init(void)
{
    static const char *const stn[SW_NSTATES] = { "both-empty", "one-empty", "both-nonempty", "both-nonempty-equal-sizes" };
    static const char *const usn[U_N] = { "then-push", "then-pop", "then-get", "then-compared", "then-third-use" };
    int d, k;
    for (d = 1; d < 8; d++) {      /* 0 cannot happen: the configurations of one set are pairwise different */
        char nm[80];
        for (k = 0; k < SW_NSTATES; k++) { snprintf(nm, sizeof(nm), "swap.%s.%s", diffname[d], stn[k]); swap_ids[d][k] = vrt_counter_id(nm); }
        for (k = 0; k < U_N; k++) { snprintf(nm, sizeof(nm), "swap.%s.%s", diffname[d], usn[k]); use_ids[d][k] = vrt_counter_id(nm); }
    }
    swap_ids_ready = 1;
}
/* a call on heap object h that was fully audited: account it to the last swap h took part in */
static void used_after_swap(int h, int what, uint64_t cmp_before, int audited)
{
    const int d = swdiff[h];
    if (d <= 0) return;
    swuses[h]++;
    if (!audited) return;
    if (!swap_ids_ready) swap_ids_init();
    vrt_ctr[use_ids[d][what]]++;
    if (cmp_ncalls != cmp_before) vrt_ctr[use_ids[d][U_CMP]]++;
    if (swuses[h] == 3) vrt_ctr[use_ids[d][U_THIRD]]++;
}

static int st_apply(uint32_t op, int audit)
{
    const uint64_t cmp0 = cmp_ncalls;
    const int kind = OP_KIND(op), h1 = OP_H1(op), h2 = OP_H2(op), key = OP_KEY(op);
    struct elem *e;
    int m, sizeb;
    const void *pk0, *pk1;
    size_t sz0, sz1;

    if (h1 >= C->nh) return 0;
    m = mi[h1];
    sizeb = Mn[m];
    switch (kind) {
    case K_PUSH: {
        int slot, up;
        if (key >= C->nk || sizeb >= C->maxlen || (e = take_free(key)) == NULL) return 0;
        vrt_state(sizeb == 0 ? "empty" : (sizeb & 1) ? "slot-left" : "slot-right");
        VRT_OP4("heap.push", "h%ld e%ld(prio %ld) size %ld", h1, e->id, key, sizeb);
        /* peek - change - peek in ONE function: the accessors are declared in a public header, so what the caller's
         * compiler may assume about them (an attribute, an inline body) is library behaviour too */
        cur_model = m; cur_push = e;
        pk0 = cstl_heap_get(&H[h1]); sz0 = cstl_heap_size(&H[h1]);
        cstl_heap_push(&H[h1], e);
        pk1 = cstl_heap_get(&H[h1]); sz1 = cstl_heap_size(&H[h1]);
        cur_model = -1; cur_push = NULL;
        if (sizeb == 0) VRT_CHECK(pk0 == NULL, "heap.get.empty-not-null.before-push", "get on an empty heap returned %p", pk0);
        else check_top(m, pk0, "get", ".before-push");
        VRT_CHECK(sz0 == (size_t)sizeb && sz1 == (size_t)sizeb + 1, "heap.size.reread-around-push", "size read %zu before and %zu after a push onto %d elements", sz0, sz1, sizeb);
        model_add(m, e);
        VRT_CHECK(pk1 != NULL, "heap.get.null-on-nonempty.reread-after-push", "get right after a push returned NULL");
        check_top(m, pk1, "get", ".reread-after-push");
        VRT_COUNT("get.reread-in-one-function");
        VRT_COUNT("op.push");
        if (sizeb == 0) VRT_COUNT("push.slot-root");
        else if (sizeb & 1) VRT_COUNT("push.slot-left");
        else VRT_COUNT("push.slot-right");
        if (((sizeb + 1) & sizeb) == 0) VRT_COUNT("push.opens-new-level");
        if (lastkind[h1] == K_POP) VRT_COUNT("push.right-after.pop");
        if (sizeb > 0) count_bucket(1, sizeb);
        lastkind[h1] = kind;
        AFTER(0, h1, "push");
        if (audit) {
            audit_all("push");
            /* how far did the new element rise (walker positions) */
            slot = sizeb;
            up = depth_of(slot) - depth_of(e->pos);
            if (up <= 0) VRT_COUNT("push.sift-up.0");
            else if (up == 1) VRT_COUNT("push.sift-up.1");
            else VRT_COUNT("push.sift-up.2+");
            if (e->pos == 0 && sizeb > 0) VRT_COUNT("push.sift-up.to-root");
            if (e->pos > 0 && posmap[h1][(e->pos - 1) / 2]->key == e->key) VRT_COUNT("push.stops-below-equal-parent");
            vrt_sig(2, vrt_mix(vrt_mix(0x9057, sizeb), e->pos));
        }
        used_after_swap(h1, U_PUSH, cmp0, audit);
        return 1;
    }
    case K_POP: {
        struct elem *lastel = NULL;
        int tie = 0;
        void *r;
        if (audit && sizeb > 0) {
            const struct elem *a = sizeb > 1 ? peek_at(h1, 1) : NULL, *b = sizeb > 2 ? peek_at(h1, 2) : NULL;
            lastel = peek_at(h1, sizeb - 1);
            tie = a && b && a->key == b->key;
        }
        vrt_state(sizeb == 0 ? "empty" : sizeb == 1 ? "last-is-root" : sizeb == 2 ? "last-is-root-left-child" :
                  sizeb == 3 ? "last-is-root-right-child" : (sizeb & 1) ? "last-right" : "last-left");
        VRT_OP2("heap.pop", "h%ld size %ld", h1, sizeb);
        cur_model = m;
        pk0 = cstl_heap_get(&H[h1]); sz0 = cstl_heap_size(&H[h1]);
        r = cstl_heap_pop(&H[h1]);
        pk1 = cstl_heap_get(&H[h1]); sz1 = cstl_heap_size(&H[h1]);
        cur_model = -1;
        if (sizeb == 0) VRT_CHECK(pk0 == NULL && pk1 == NULL, "heap.get.empty-not-null.around-pop", "get on an empty heap returned %p / %p", pk0, pk1);
        else check_top(m, pk0, "get", ".before-pop");
        VRT_CHECK(sz0 == (size_t)sizeb && sz1 == (size_t)(sizeb > 0 ? sizeb - 1 : 0), "heap.size.reread-around-pop", "size read %zu before and %zu after a pop from %d elements", sz0, sz1, sizeb);
        if (sizeb > 0) VRT_CHECK(pk0 == r || ((const struct elem *)lookup(pk0))->key == ((const struct elem *)lookup(r))->key, "heap.pop.not-what-get-showed",
                                 "pop returned an element of another priority than the get just before it");
        if (sizeb == 0) {
            VRT_CHECK(r == NULL, "heap.pop.empty-not-null", "pop on empty heap returned %p", r);
            VRT_COUNT("op.pop.empty");
            AFTER(audit, h1, "pop-empty");
            return 1;
        }
        VRT_CHECK(r != NULL, "heap.pop.null-on-nonempty", "pop on a heap holding %d returned NULL", sizeb);
        check_top(m, r, "pop", "");
        e = lookup(r);
        model_del(m, e);
        if (sizeb == 1) VRT_CHECK(pk1 == NULL, "heap.get.empty-not-null.reread-after-pop", "get right after popping the last element returned %p", pk1);
        else { VRT_CHECK(pk1 != NULL, "heap.get.null-on-nonempty.reread-after-pop", "get right after a pop from %d elements returned NULL", sizeb); check_top(m, pk1, "get", ".reread-after-pop"); }
        give_back(e);
        VRT_COUNT("op.pop");
        if (sizeb == 1) VRT_COUNT("pop.last-is-root");
        else if (sizeb == 2) VRT_COUNT("pop.last-is-root-left-child");
        else if (sizeb == 3) VRT_COUNT("pop.last-is-root-right-child");
        else if (sizeb & 1) VRT_COUNT("pop.last-right");
        else VRT_COUNT("pop.last-left");
        if ((sizeb & (sizeb - 1)) == 0) VRT_COUNT("pop.empties-last-level");
        if (lastkind[h1] == K_PUSH) VRT_COUNT("pop.right-after.push");
        count_bucket(0, sizeb);
        lastkind[h1] = kind;
        AFTER(0, h1, "pop");
        if (audit) {
            audit_all("pop");
            /* where did the former last element end up (walker positions) */
            if (tie) VRT_COUNT("pop.root-children-tied");
            if (lastel != NULL && lastel != e && lastel->where == m) {
                const int p = lastel->pos, d = depth_of(p);
                size_t top = (size_t)p + 1;
                if (d == 0) VRT_COUNT("pop.sift-down.0");
                else if (d == 1) VRT_COUNT("pop.sift-down.1");
                else VRT_COUNT("pop.sift-down.2+");
                if (d > 0) {
                    while (top > 3) top >>= 1;
                    if (top == 2) VRT_COUNT("pop.sift-down.first-step-left");
                    else VRT_COUNT("pop.sift-down.first-step-right");
                    if ((p & 1) == 0) VRT_COUNT("pop.sift-down.last-step-right");
                    else VRT_COUNT("pop.sift-down.last-step-left");
                }
                if (2 * (size_t)p + 1 >= (size_t)(sizeb - 1) && d > 0) VRT_COUNT("pop.sift-down.to-leaf");
                if (2 * (size_t)p + 2 == (size_t)(sizeb - 1)) VRT_COUNT("pop.sift-down.stops-above-single-child");
                vrt_sig(1, vrt_mix(vrt_mix(0x909, sizeb), p));
            }
        }
        used_after_swap(h1, U_POP, cmp0, audit);
        return 1;
    }
    case K_GET: {
        const void *g;
        vrt_state(sizeb == 0 ? "empty" : "nonempty");
        VRT_OP2("heap.get", "h%ld size %ld", h1, sizeb);
        cur_model = m;
        g = cstl_heap_get(&H[h1]);
        cur_model = -1;
        if (sizeb == 0) {
            VRT_CHECK(g == NULL, "heap.get.empty-not-null", "get on empty heap returned %p", g);
            VRT_COUNT("op.get.empty");
        } else {
            VRT_CHECK(g != NULL, "heap.get.null-on-nonempty", "get on a heap holding %d returned NULL", sizeb);
            check_top(m, g, "get", "");
            VRT_COUNT("op.get");
        }
        AFTER(audit, h1, "get");
        if (sizeb > 0) used_after_swap(h1, U_GET, cmp0, audit);
        return 1;       /* not mutating: lastkind unchanged */
    }
    case K_CLEAR:
        vrt_state(sizeb == 0 ? "empty" : "nonempty");
        VRT_OP2("heap.clear", "h%ld size %ld", h1, sizeb);
        if (is_clear_mode && sizeb > 0) { sub_attach_some(m); VRT_OP2("heap.clear", "h%ld size %ld", h1, sizeb); }
        clear_model = m; clear_seen = 0; clear_size = sizeb; outer_running = 1; inner_done = 0;
        cur_model = m;
        cstl_heap_clear(&H[h1], clear_cb);
        cur_model = -1; outer_running = 0;
        VRT_CHECK(clear_seen == sizeb, "heap.clear.count", "clear handed over %d of %d elements", clear_seen, sizeb);
        VRT_CHECK(nsubs == 0, "heap.clear.nested.owner-not-handed-over", "%d elements that own a heap were not handed to the clear callback", nsubs);
        if (inner_done) VRT_COUNT("op.clear.with-nested-clears");
        Mn[m] = 0; best[m] = -1;
        memset(cnt[m], 0, sizeof(cnt[m][0]) * C->nk);
        VRT_COUNT("op.clear");
        if (sizeb > 0) VRT_COUNT("op.clear.nonempty");
        VRT_MAX("max.clear.elements", sizeb);
        lastkind[h1] = kind;
        AFTER(audit, h1, "clear");
        return 1;
    case K_SWAP: {
        int t, d, sizeb2;
        if (h2 >= C->nh || h1 == h2) return 0;
        d = DIFF_OF(m, mi[h2]); sizeb2 = Mn[mi[h2]];
        vrt_state(sizeb == 0 && Mn[mi[h2]] == 0 ? "both-empty" : sizeb == 0 || Mn[mi[h2]] == 0 ? "one-empty" : "both");
        VRT_OP4("heap.swap", "h%ld (size %ld) <-> h%ld (size %ld)", h1, sizeb, h2, Mn[mi[h2]]);
        cstl_heap_swap(&H[h1], &H[h2]);
        t = mi[h1]; mi[h1] = mi[h2]; mi[h2] = t;
        /* contents and configuration (order, comparator, priv, node member) change places */
        VRT_COUNT("op.swap");
        if (sizeb != 0 && Mn[mi[h1]] != 0) VRT_COUNT("op.swap.both-nonempty");
        else if (sizeb == 0 && Mn[mi[h1]] == 0) VRT_COUNT("op.swap.both-empty");
        else VRT_COUNT("op.swap.one-empty");
        t = lastkind[h1]; lastkind[h1] = lastkind[h2]; lastkind[h2] = t;
        VRT_CHECK(d != 0, "harness.config.identical", "two heaps of configuration set %d are configured identically", C->cset);
        if (!swap_ids_ready) swap_ids_init();
        vrt_ctr[swap_ids[d][sizeb == 0 && sizeb2 == 0 ? SW_BOTH_EMPTY : sizeb == 0 || sizeb2 == 0 ? SW_ONE_EMPTY : SW_BOTH]]++;
        if (sizeb != 0 && sizeb == sizeb2) vrt_ctr[swap_ids[d][SW_BOTH_EQUAL]]++;
        swdiff[h1] = swdiff[h2] = d; swuses[h1] = swuses[h2] = 0;
        if (audit) audit_all("swap");
        return 1;
    }
    default:
        return 0;
    }
}

/* signature: per heap object the level-order priority list */
static uint64_t st_sig(void)
{
    uint64_t s = 0xc07 + C->nh + 64 * C->cset;
    int h, i;
    audit_all("replay");
    for (h = 0; h < C->nh; h++) {
        const int n = Mn[mi[h]];
        s = vrt_mix(s, 0xfff0 + n);
        s = vrt_mix(s, 0xc0f0 + mi[h]);        /* which configuration the heap object carries */
        for (i = 0; i < n; i++) s = vrt_mix(s, posmap[h][i]->key + 1);
    }
    return s;
}
static int st_nontrivial(void)
{
    int h, n = 0;
    for (h = 0; h < C->nh; h++) n += Mn[h];
    return n >= 2;
}

/* probe (mode "clear", C15): clear every reachable state on a replica, then re-use */
static void st_probe(int pi)
{
    int h, i, n;
    (void)pi;
    for (h = 0; h < C->nh; h++) st_apply(OP(K_CLEAR, h, 0, 0), 1);
    for (h = 0; h < C->nh; h++) {
        st_apply(OP(K_GET, h, 0, 0), 1);
        st_apply(OP(K_POP, h, 0, 0), 1);
    }
    /* fresh fill / drain under the model */
    n = C->maxlen < 5 ? C->maxlen : 5;
    for (i = 0; i < n; i++) {
        static const int ks[5] = { 1, 0, 2, 2, 1 };
        int k = ks[i] % C->nk, j;
        for (j = 0; j < C->nk && !st_apply(OP(K_PUSH, 0, 0, (k + j) % C->nk), 1); j++) ;
    }
    for (i = 0; i <= n; i++) st_apply(OP(K_POP, 0, 0, 0), 1);
    VRT_COUNT("probe.clear-then-reuse");
}

static struct vex model = { st_create, st_destroy, st_apply, st_sig, st_nontrivial, 0, NULL };

/* ---- closure scopes ---- */
struct cscope { struct cfg c; uint64_t max_states; int max_depth; };
/* np == nk: one element per priority (all distinct); np == nk*maxlen*nh: any multiset of priorities */
static const struct cscope quick_scopes[] = {
    { { 1, 10, 10, 10, 1 }, 1000000, 100 },     /* one heap, 10 distinct priorities: every heap-ordered arrangement */
    { { 2, 7, 7, 7, 1 }, 1000000, 100 },        /* seven distinct priorities shared by two differently configured heaps, swap */
    { { 1, 4, 40, 10, 1000003 }, 1000000, 100 },/* <= 10 x 4 priorities, cmp returns large values */
    { { 2, 3, 30, 5, 1 }, 1000000, 100 },       /* two heaps, <= 5 each x 3 priorities */
    { { 2, 2, 28, 7, 7 }, 1000000, 100 },       /* two heaps, <= 7 each x 2 priorities */
    { { 3, 2, 18, 3, 1 }, 1000000, 100 },       /* three heaps (three configurations), <= 3 each */
    { { 1, 3, 36, 12, 1 }, 1000000, 100 },      /* one heap, <= 12 elements x 3 priorities (ties) */
    { { 1, 2, 40, 20, 1 }, 1000000, 100 },      /* <= 20 x 2 priorities: sizes across the 8 and 16 level boundaries */
    { { 1, 1, 70, 70, 1 }, 1000000, 100 },      /* all ties: shapes only, sizes across 32 and 64 */
    /* heaps that differ in ONE attribute (configuration sets 1-4): swap in every state, every op in every state after it */
    { { 2, 3, 24, 4, 1, 0, 1 }, 1000000, 100 }, /* max-heap and min-heap sharing function and offset (priv only), <= 4 each x 3 priorities */
    { { 3, 2, 12, 2, 1, 0, 1 }, 1000000, 100 }, /* three heaps, priv only (two of them with the same order) */
    { { 2, 2, 16, 4, 7, 0, 2 }, 1000000, 100 }, /* function only */
    { { 3, 2, 12, 2, 1, 0, 3 }, 1000000, 100 }, /* offset only / function only */
    { { 2, 2, 16, 4, 1, 0, 3 }, 1000000, 100 }, /* offset only, same order: <= 4 each */
    { { 3, 2, 12, 2, 1, 0, 4 }, 1000000, 100 }, /* NULL priv against non-NULL priv */
};
static const struct cscope thorough_scopes[] = {
    { { 2, 3, 36, 6, 1 }, 6000000, 120 },
    { { 1, 4, 48, 12, 1 }, 6000000, 120 },
    { { 1, 11, 11, 11, 1 }, 6000000, 120 },
    { { 1, 3, 45, 15, 1 }, 6000000, 120 },
    { { 2, 9, 9, 9, 1 }, 6000000, 120 },
    { { 1, 5, 50, 10, 1000003 }, 6000000, 120 },
    { { 2, 2, 40, 10, 7 }, 6000000, 120 },
    { { 3, 3, 27, 3, 1 }, 6000000, 120 },
    { { 3, 2, 24, 4, 1 }, 6000000, 120 },
    { { 1, 2, 52, 26, 1 }, 6000000, 120 },
    { { 1, 1, 140, 140, 1 }, 6000000, 150 },
    { { 2, 3, 30, 5, 1, 0, 1 }, 6000000, 120 },
    { { 3, 2, 18, 3, 7, 0, 1 }, 6000000, 120 },
    { { 2, 3, 30, 5, 1, 0, 2 }, 6000000, 120 },
    { { 3, 2, 18, 3, 1, 0, 2 }, 6000000, 120 },
    { { 2, 3, 30, 5, 1000003, 0, 3 }, 6000000, 120 },
    { { 3, 2, 18, 3, 1, 0, 3 }, 6000000, 120 },
    { { 3, 2, 18, 3, 1, 0, 4 }, 6000000, 120 },
};
static const struct cscope *scopes;
static int nscopes;
#define RANDOM_SLOT 39
#define BIG_SLOT 38
#define SWAPUSE_SLOT 37

static int build_alphabet(const struct cfg *c, uint32_t *al)
{
    int n = 0, h, h2, k;
    for (h = 0; h < c->nh; h++) {
        for (k = 0; k < c->nk; k++) al[n++] = OP(K_PUSH, h, 0, k);
        al[n++] = OP(K_POP, h, 0, 0);
        al[n++] = OP(K_GET, h, 0, 0);
        al[n++] = OP(K_CLEAR, h, 0, 0);
        for (h2 = h + 1; h2 < c->nh; h2++) al[n++] = OP(K_SWAP, h, h2, 0);
    }
    return n;
}

static void run_closure(int ci)
{
    const struct cscope *s = &scopes[ci];
    uint32_t al[128];
    int n;
    struct vex_result r;
    scopetab[ci] = s->c;
    n = build_alphabet(&s->c, al);
    vrt_case_note("closure heaps=%d priorities=%d pool=%d maxsize=%d cmpscale=%d configset=%d alphabet=%d%s", s->c.nh, s->c.nk, s->c.np,
                  s->c.maxlen, s->c.cmpscale, s->c.cset, n, is_clear_mode ? " +clear probe in every state" : "");
    model.nprobes = is_clear_mode ? 1 : 0;
    model.probe = st_probe;
    vex_closure(&model, ci, al, n, s->max_states, s->max_depth, &r);
    {
        static const char *const setn[NSETS] = { "", "-differ-priv", "-differ-cmp", "-differ-offset", "-differ-null-priv" };
        char nm[96];
        snprintf(nm, sizeof(nm), "closure.states.heaps%d-prio%d-max%d%s%s", s->c.nh, s->c.nk, s->c.maxlen,
                 s->c.np == s->c.nk ? "-distinct" : "", setn[s->c.cset]);
        if (s->c.cset) VRT_COUNT("closure.scopes.single-attribute-configs");
        vrt_count_dyn(nm, r.states);
    }
    VRT_COUNT_N("closure.states", r.states);
    VRT_COUNT_N("closure.transitions", r.transitions);
    VRT_COUNT_N("closure.replayed-ops", r.applied);
    VRT_COUNT_N("closure.probes", r.probes);
    VRT_MAX("max.closure.depth", r.maxdepth);
    if (r.closed) VRT_COUNT("closure.scopes-closed"); else VRT_COUNT("closure.scopes-capped");
}

/* ---- random histories ---- */
static uint64_t state_hash(void)
{
    uint64_t s = 0xc07 + C->nh + 64 * C->cset;
    int h, i;
    for (h = 0; h < C->nh; h++) {
        const int n = Mn[mi[h]];
        s = vrt_mix(s, 0xfff0 + n);
        s = vrt_mix(s, 0xc0f0 + mi[h]);
        for (i = 0; i < n; i++) s = vrt_mix(s, posmap[h][i]->key + 1);
    }
    return s;
}

static void run_random(uint64_t idx)
{
    static const int nks[8] = { 1, 2, 3, 3, 4, 8, 32, 0 };
    struct cfg *c = &scopetab[RANDOM_SLOT];
    vrt_rng g;
    int nops, i, target = 0, hover = 0, total;
    const int big = (idx % 6) == 0;
    vrt_rng_seed(&g, vrt_seed, 0xC07000 + idx);
    c->nh = 1 + (vrt_below(&g, 4) == 0) + (vrt_below(&g, 16) == 0);
    c->np = big ? (vrt_chance(&g, 1, 3) ? 1024 : 500 + (int)vrt_below(&g, 525)) : 4 + (int)vrt_below(&g, 60);
    c->nk = nks[vrt_below(&g, 8)];
    if (c->nk == 0 || c->nk > c->np) c->nk = c->np;
    c->maxlen = c->np;
    c->cmpscale = vrt_chance(&g, 1, 3) ? 1000003 : vrt_chance(&g, 1, 2) ? 7 : 1;
    c->light = 0;
    {
        /* configuration set from a generator of its own: the other parameters of history idx stay what they were */
        vrt_rng g2;
        vrt_rng_seed(&g2, vrt_seed, 0xC5E7000 + idx);
        c->cset = (int)vrt_below(&g2, NSETS);
    }
    nops = big ? (vrt_thorough ? 12000 : 6000) : (vrt_thorough ? 4000 : 1500);
    if (big) target = c->np;            /* large pools: fill completely first */
    vrt_case_note("random heaps=%d priorities=%d pool=%d cmpscale=%d configset=%d ops=%d", c->nh, c->nk, c->np, c->cmpscale, c->cset, nops);
    st_create(RANDOM_SLOT);
    for (i = 0; i < nops; i++) {
        const int h = (int)vrt_below(&g, c->nh);
        const int size = Mn[mi[h]];
        int r = (int)vrt_below(&g, 100), pushp, k, j;
        uint32_t op;
        if (hover > 0) hover--;
        if (hover == 0 && (size == target || vrt_chance(&g, 1, 4096))) {
            static const int small[8] = { 0, 0, 1, 2, 3, 4, 7, 8 };
            const int t = (int)vrt_below(&g, 12);
            target = t < 8 ? small[t] : t == 8 ? c->np : t == 9 ? c->np / 2 : (int)vrt_below(&g, c->np + 1);
            if (target > c->np) target = c->np;
            hover = 8 + (int)vrt_below(&g, 40);     /* stay around the size reached for a while */
        }
        pushp = hover > 0 ? 42 : size < target ? 76 : 10;
        if (r < pushp) {
            k = (int)vrt_below(&g, c->nk);
            for (j = 0; j < c->nk && freehead[(k + j) % c->nk] < 0; j++) ;
            op = j < c->nk ? OP(K_PUSH, h, 0, (k + j) % c->nk) : OP(K_POP, h, 0, 0);
        } else if (r < 86) op = OP(K_POP, h, 0, 0);
        else if (r < 94) op = OP(K_GET, h, 0, 0);
        else if (r < 98) op = c->nh > 1 ? OP(K_SWAP, h, (h + 1 + vrt_below(&g, c->nh - 1)) % c->nh, 0) : OP(K_GET, h, 0, 0);
        else op = OP(K_POP, h, 0, 0);
        /* a handful of clears per history, wherever they fall */
        if (vrt_below(&g, (uint32_t)nops) < (is_clear_mode ? 10u : 3u)) op = OP(K_CLEAR, h, 0, 0);
        if (!st_apply(op, 1)) st_apply(OP(K_POP, h, 0, 0), 1);
        if ((i & 31) == 0) {
            for (total = 0, j = 0; j < c->nh; j++) total += Mn[j];
            if (total >= 2) vrt_sig(0, vrt_mix(state_hash(), 0x7a7d));
        }
        VRT_MAX("max.heap.size", Mn[mi[h]]);
    }
    audit_all("history");
    /* drain: one heap by pops (descending order is implied by the per-pop oracle), the rest through clear */
    while (Mn[mi[0]] > 0) st_apply(OP(K_POP, 0, 0, 0), 1);
    st_apply(OP(K_POP, 0, 0, 0), 1);
    for (i = 0; i < c->nh; i++) st_apply(OP(K_CLEAR, i, 0, 0), 1);
    st_destroy();
    VRT_COUNT("random.histories");
    if (big) VRT_COUNT("random.histories.large");
}


/* ---- large heaps: slot navigation beyond 2^16 / 2^17 elements ----
 * One heap grows to > 2^17 elements (a few thousand priorities: many ties) with pops mixed in
 * and is drained again with pushes mixed in.  Every call gets the O(1) checks (size, get and pop
 * against the counting model, membership by address); the full walker runs whenever the size
 * before or after the call is within 2 of a power of two 2^8..2^17, at the top, now and then in
 * between and at the end.  Around every such power of two the size is additionally driven back
 * and forth (5 pops + 5 pushes, twice) so that both push and pop cross 2^k-1 / 2^k / 2^k+1 in
 * both directions, growing and draining. */
#define BIG_TOPK 17
static int near_pow2(int s)
{
    int k;
    for (k = 8; k <= BIG_TOPK; k++) if (s >= (1 << k) - 2 && s <= (1 << k) + 2) return 1;
    return 0;
}
static void big_step(vrt_rng *g, int push)
{
    const struct cfg *c = C;
    const int size = Mn[mi[0]];
    int audit, k, j;
    if (push) {
        k = (int)vrt_below(g, c->nk);
        for (j = 0; j < c->nk && freehead[(k + j) % c->nk] < 0; j++) ;
        if (j == c->nk || size >= c->maxlen) push = 0; else k = (k + j) % c->nk;
    }
    audit = near_pow2(size) || near_pow2(push ? size + 1 : size - 1);
    if (audit) VRT_COUNT("big.audit.full-walk");
    if (push) {
        if (size == 65535) VRT_COUNT("big.push.at-size-65535");
        if (size == 65536) VRT_COUNT("big.push.at-size-65536");
        if (size == 131071) VRT_COUNT("big.push.at-size-131071");
        if (size == 131072) VRT_COUNT("big.push.at-size-131072");
        if (size >= 65536) VRT_COUNT("big.push.size>=65536");
        st_apply(OP(K_PUSH, 0, 0, k), audit);
    } else {
        if (size == 65536) VRT_COUNT("big.pop.at-size-65536");
        if (size == 65537) VRT_COUNT("big.pop.at-size-65537");
        if (size == 131072) VRT_COUNT("big.pop.at-size-131072");
        if (size == 131073) VRT_COUNT("big.pop.at-size-131073");
        if (size >= 65536) VRT_COUNT("big.pop.size>=65536");
        st_apply(OP(K_POP, 0, 0, 0), audit);
    }
    VRT_MAX("max.heap.size", Mn[mi[0]]);
}
static void run_big(uint64_t idx)
{
    static const int nks[6] = { 3001, 4999, 2000, 1, 0, 64 };
    static const int scales[3] = { 1, 7, 1000003 };
    struct cfg *c = &scopetab[BIG_SLOT];
    char osc_up[BIG_TOPK + 1], osc_dn[BIG_TOPK + 1];
    vrt_rng g;
    int top, k, i, rep;
    uint64_t nops = 0;
    vrt_rng_seed(&g, vrt_seed, 0xB16000 + idx);
    memset(osc_up, 0, sizeof(osc_up)); memset(osc_dn, 0, sizeof(osc_dn));
    c->nh = 1;
    c->np = 140000;
    c->nk = nks[idx % 6] ? nks[idx % 6] : c->np;
    c->maxlen = c->np;
    c->cmpscale = scales[(idx / 2 + idx) % 3];
    c->light = 1;
    c->cset = 0;
    top = (1 << BIG_TOPK) + 1500 + (int)vrt_below(&g, 2500);
    vrt_case_note("large heap: pool=%d priorities=%d cmpscale=%d grow to %d with pops mixed in, drain with pushes mixed in",
                  c->np, c->nk, c->cmpscale, top);
    st_create(BIG_SLOT);
    while (Mn[mi[0]] < top) {
        const int size = Mn[mi[0]];
        for (k = 8; k <= BIG_TOPK; k++) if (size == (1 << k) + 2 && !osc_up[k]) break;
        if (k <= BIG_TOPK) {
            osc_up[k] = 1;
            for (rep = 0; rep < 2; rep++) {
                for (i = 0; i < 5; i++) big_step(&g, 0);
                for (i = 0; i < 5; i++) big_step(&g, 1);
            }
            VRT_COUNT("big.oscillations.growing");
            continue;
        }
        big_step(&g, size == 0 || !vrt_chance(&g, 1, 8));
        if ((++nops & 0x7fff) == 0) audit_all("big-grow");
    }
    audit_all("big-top");
    vrt_sig(0, vrt_mix(vrt_mix(0xb16, c->nk), (uint64_t)c->cmpscale * 7 + (uint64_t)top));
    while (Mn[mi[0]] > 0) {
        const int size = Mn[mi[0]];
        for (k = 8; k <= BIG_TOPK; k++) if (size == (1 << k) - 2 && !osc_dn[k]) break;
        if (k <= BIG_TOPK) {
            osc_dn[k] = 1;
            for (rep = 0; rep < 2; rep++) {
                for (i = 0; i < 5; i++) big_step(&g, 1);
                for (i = 0; i < 5; i++) big_step(&g, 0);
            }
            VRT_COUNT("big.oscillations.draining");
            continue;
        }
        big_step(&g, vrt_chance(&g, 1, 16));
        if ((++nops & 0x7fff) == 0) audit_all("big-drain");
    }
    st_apply(OP(K_POP, 0, 0, 0), 1);
    st_apply(OP(K_GET, 0, 0, 0), 1);
    /* refill a little and hand the rest to clear */
    for (i = 0; i < 300; i++) big_step(&g, 1);
    st_apply(OP(K_CLEAR, 0, 0, 0), 1);
    audit_all("big-end");
    st_destroy();
    VRT_COUNT("big.histories");
}

/* ---- swap, then use ----
 * Every pair of heap objects of every configuration set (so: pairs that differ in exactly one of function / priv /
 * offset, in two of them, in all, and - after the configurations have travelled - in nothing) is swapped in every
 * state class (both empty, either one empty, both non-empty with equal and with different sizes), in both argument
 * orders, and then both objects are USED: get, pushes of random and of both extreme priorities, pops, all under the
 * full audit and the comparator oracle.  Three more swaps follow (through the third heap object and back), each
 * followed by the same use, so that a configuration is checked on an object it reached after several swaps. */
static int push_some(int h, int k)
{
    int j;
    for (j = 0; j < C->nk; j++) if (st_apply(OP(K_PUSH, h, 0, (k + j) % C->nk), 1)) return 1;
    return 0;
}
static void use_heap(vrt_rng *g, int h)
{
    st_apply(OP(K_GET, h, 0, 0), 1);
    push_some(h, (int)vrt_below(g, C->nk));
    push_some(h, 0);
    push_some(h, C->nk - 1);
    st_apply(OP(K_GET, h, 0, 0), 1);
    st_apply(OP(K_POP, h, 0, 0), 1);
    push_some(h, (int)vrt_below(g, C->nk));
    st_apply(OP(K_POP, h, 0, 0), 1);
    if (vrt_chance(g, 1, 2)) st_apply(OP(K_POP, h, 0, 0), 1);
    st_apply(OP(K_GET, h, 0, 0), 1);
    VRT_COUNT("swapuse.uses");
}
static void run_swapuse(uint64_t idx)
{
    static const int pa[3] = { 0, 0, 1 }, pb[3] = { 1, 2, 2 };
    static const int nks[5] = { 2, 3, 5, 16, 0 };
    static const int scales[3] = { 1, 7, 1000003 };
    struct cfg *c = &scopetab[SWAPUSE_SLOT];
    vrt_rng g;
    const int pair = (int)((idx / NSETS) % 3), flip = (int)((idx / (NSETS * 3)) & 1), sc = (int)((idx / (NSETS * 6)) % 8);
    int a = pa[pair], b = pb[pair], third, n, na, nb, nc, i, h, total;
    vrt_rng_seed(&g, vrt_seed, 0x5A9000 + idx);
    if (flip) { const int t = a; a = b; b = t; }
    third = 3 - a - b;
    c->nh = 3; c->np = 96; c->maxlen = c->np; c->light = 0;
    c->cset = (int)(idx % NSETS);
    c->nk = nks[vrt_below(&g, 5)];
    if (c->nk == 0) c->nk = c->np;
    c->cmpscale = scales[vrt_below(&g, 3)];
    n = 2 + (int)vrt_below(&g, 10);
    switch (sc) {
    case 0: na = 0; nb = 0; break;
    case 1: na = 0; nb = n; break;
    case 2: na = n; nb = 0; break;
    case 3: na = n; nb = n; break;
    case 4: na = n; nb = 1 + (int)vrt_below(&g, 20); if (nb == na) nb++; break;
    case 5: na = 1; nb = 1; break;
    case 6: na = vrt_chance(&g, 1, 2); nb = 1 - na; break;
    default: na = n + 1; nb = n; break;
    }
    nc = (int)vrt_below(&g, 4);
    vrt_case_note("swap-then-use configset=%d swap(h%d,h%d) sizes %d/%d third %d priorities=%d cmpscale=%d", c->cset, a, b, na, nb, nc,
                  c->nk, c->cmpscale);
    st_create(SWAPUSE_SLOT);
    for (i = 0; i < na; i++) push_some(a, (int)vrt_below(&g, c->nk));
    for (i = 0; i < nb; i++) push_some(b, (int)vrt_below(&g, c->nk));
    for (i = 0; i < nc; i++) push_some(third, (int)vrt_below(&g, c->nk));
    st_apply(OP(K_SWAP, a, b, 0), 1);
    for (total = 0, h = 0; h < c->nh; h++) total += Mn[h];
    if (total >= 2) vrt_sig(0, vrt_mix(vrt_mix(state_hash(), 0x5a9), (uint64_t)a * 4 + (uint64_t)b));
    use_heap(&g, a); use_heap(&g, b);
    st_apply(OP(K_SWAP, b, third, 0), 1);
    use_heap(&g, third); use_heap(&g, b);
    st_apply(OP(K_SWAP, b, a, 0), 1);
    use_heap(&g, b); use_heap(&g, a);
    st_apply(OP(K_SWAP, third, a, 0), 1);
    use_heap(&g, a); use_heap(&g, third); use_heap(&g, b);
    audit_all("history");
    for (h = 0; h < c->nh; h++) {
        while (Mn[mi[h]] > 0) st_apply(OP(K_POP, h, 0, 0), 1);
        st_apply(OP(K_POP, h, 0, 0), 1);
        st_apply(OP(K_GET, h, 0, 0), 1);
    }
    /* empty again: once more round the ring, then a last use */
    st_apply(OP(K_SWAP, a, b, 0), 1);
    st_apply(OP(K_SWAP, third, b, 0), 1);
    for (h = 0; h < c->nh; h++) use_heap(&g, h);
    for (h = 0; h < c->nh; h++) st_apply(OP(K_CLEAR, h, 0, 0), 1);
    st_destroy();
    VRT_COUNT("swapuse.histories");
}
static uint64_t nswapuse(void)
{
    if (is_clear_mode) return 0;
    return (uint64_t)NSETS * 3 * 2 * 8 * (vrt_thorough ? 8 : 1);
}

static uint64_t nbig(void)
{
    if (is_clear_mode) return 0;
    return vrt_thorough ? 6 : 2;
}
static uint64_t nrandom(void)
{
    if (is_clear_mode) return vrt_thorough ? 4000 : 400;
    return vrt_thorough ? 16000 : 2000;
}
static uint64_t ncases(void)
{
    is_clear_mode = strcmp(vrt_mode, "clear") == 0;
    if (vrt_thorough) { scopes = thorough_scopes; nscopes = sizeof(thorough_scopes) / sizeof(scopes[0]); }
    else { scopes = quick_scopes; nscopes = sizeof(quick_scopes) / sizeof(scopes[0]); }
    /* the single-attribute configuration scopes (at the end of the tables) belong to mode "" only */
    if (is_clear_mode) while (nscopes > 0 && scopes[nscopes - 1].c.cset != 0) nscopes--;
    return nscopes + nbig() + nswapuse() + nrandom();
}
static void run_case(uint64_t idx)
{
    /* none of these containers ever needs memory: every second case runs with an allocator that refuses everything */
    if (idx & 1) { vrt_fp_arm(NULL, 0, 1); VRT_COUNT("nomem.cases"); }
    if (idx < (uint64_t)nscopes) run_closure((int)idx);
    else if (idx < nscopes + nbig()) run_big(idx - nscopes);
    else if (idx < nscopes + nbig() + nswapuse()) run_swapuse(idx - nscopes - nbig());
    else run_random(idx - nscopes - nbig() - nswapuse());
    vrt_fp_disarm();
}
static void winit(void)
{
    vrt_sig_name(0, "heap-states");
    vrt_sig_name(1, "pop-size-x-landing-position");
    vrt_sig_name(2, "push-size-x-landing-position");
    (void)ncases();
}

static const char *const required[] = {
    "op.push", "op.pop", "op.pop.empty", "op.get", "op.get.empty", "op.clear.nonempty", "op.swap.both-nonempty",
    "op.swap.both-empty", "op.swap.one-empty",
    "big.histories", "big.push.at-size-65535", "big.push.at-size-65536", "big.push.at-size-131071", "big.push.at-size-131072",
    "big.pop.at-size-65536", "big.pop.at-size-65537", "big.pop.at-size-131072", "big.pop.at-size-131073",
    "big.oscillations.growing", "big.oscillations.draining", "big.audit.full-walk", "audit.light",
    "pop.last-is-root", "pop.last-is-root-left-child", "pop.last-is-root-right-child", "pop.last-left", "pop.last-right",
    "pop.sift-down.0", "pop.sift-down.1", "pop.sift-down.2+", "pop.sift-down.first-step-left", "pop.sift-down.first-step-right",
    "pop.root-children-tied", "pop.sift-down.to-leaf",
    "push.slot-left", "push.slot-right", "push.opens-new-level", "push.sift-up.0", "push.sift-up.1", "push.sift-up.2+",
    "push.right-after.pop", "pop.right-after.push",
    "audit.heap", "closure.states", "random.histories", "random.histories.large",
    /* heaps that differ in exactly one attribute: swapped in every state, then used under the full audit */
    "swapuse.histories", "closure.scopes.single-attribute-configs", "cmp.calls.direction-from-priv", "cmp.calls.null-priv",
    "swap.priv-only.both-empty", "swap.priv-only.one-empty", "swap.priv-only.both-nonempty", "swap.priv-only.both-nonempty-equal-sizes",
    "swap.priv-only.then-push", "swap.priv-only.then-pop", "swap.priv-only.then-get", "swap.priv-only.then-compared", "swap.priv-only.then-third-use",
    "swap.cmp-only.both-empty", "swap.cmp-only.one-empty", "swap.cmp-only.both-nonempty", "swap.cmp-only.both-nonempty-equal-sizes",
    "swap.cmp-only.then-push", "swap.cmp-only.then-pop", "swap.cmp-only.then-get", "swap.cmp-only.then-compared", "swap.cmp-only.then-third-use",
    "swap.offset-only.both-empty", "swap.offset-only.one-empty", "swap.offset-only.both-nonempty", "swap.offset-only.both-nonempty-equal-sizes",
    "swap.offset-only.then-push", "swap.offset-only.then-pop", "swap.offset-only.then-get", "swap.offset-only.then-compared", "swap.offset-only.then-third-use",
    "swap.all-differ.both-empty", "swap.all-differ.then-compared", NULL
};
static const char *const required_clear[] = {
    "op.push", "op.pop", "op.pop.empty", "op.get.empty", "op.clear.nonempty", "clear.handed-over",
    "probe.clear-then-reuse", "closure.probes", "audit.heap", "closure.states", "random.histories",
    /* a clear inside a clear */
    "nested.attached", "clear.nested.handed-over", "clear.nested.heaps-cleared", "clear.nested.overwrite-verified",
    "clear.nested.first-handed-over-owns-a-heap", "clear.nested.last-handed-over-owns-a-heap", "clear.nested.inner-element-owns-a-heap",
    "clear.nested.several-owners", "clear.nested.owners-and-plain-elements", "clear.nested.outer-went-on-after-inner-clear",
    "op.clear.with-nested-clears", NULL
};
static const struct vrt_harness Hd = { "heap", ncases, run_case, winit, NULL, required, 16 };
static const struct vrt_harness Hd_clear = { "heap", ncases, run_case, winit, NULL, required_clear, 16 };

int main(int argc, char **argv)
{
    int i, clear = 0;
    for (i = 1; i + 1 < argc; i++) if (!strcmp(argv[i], "--mode") && !strcmp(argv[i + 1], "clear")) clear = 1;
    return vrt_main(argc, argv, clear ? &Hd_clear : &Hd);
}
